"""C23 — log rotation and flushing never lose or duplicate retained records.
Model:    lean/IofloModel/Model/Rotate.lean (Log.reopen/close/flush/cycle, Logger.log timers, runner START/RUN/STOP,
          one log of any rule, several process lives on one directory; the file system as the ordered trace of
          primitive operations; every prefix of the trace is a crash point)
Theorems: lean/IofloModel/Props/C23.lean
Tie:      a real Logger with one Log (rule always / once / update / change / deck / streak / never) under
          /verif/.scratch/log/<pid>; every file-system primitive the code performs (ocfn, file.write/flush/close,
          os.fsync, os.rename) is intercepted and the files are read back from disk *before* it runs: that is what a
          kill at that point leaves.  A history may span several process lives (fresh House/Store/Logger/Log objects on
          the same prefix; a life ends after STOP or by a kill that discards the buffers).  The sequence of distinct
          crash states is compared with the model's; sampled (thorough: all, for selected cases) crash points are also
          produced by really killing a forked child with os._exit and compared with the read-back.
Oracle:   the property clauses evaluated directly on every crash state of the real run (contiguity across the
          retained files, headers, newest file = records since the last rotation, rotation only at the size threshold,
          everything written before the last flush present).
"""
import os, sys, shutil, atexit, json, itertools
import core

ROOT = os.path.join(core.SCRATCH, "log", "r%d" % os.getpid())
_made = [False]
BASE = "lg"            # log i is named lg<i>
TAG = "v"
RULES = ["always", "once", "update", "change", "deck", "streak", "never"]
RULENAME = {"never": "Never", "once": "Once", "always": "Always", "update": "Update", "change": "Change",
            "streak": "Streak", "deck": "Deck"}


def header(rule, i=0):
    return "text\t%s\t%s%d\n_time\t%s\n" % (RULENAME[rule], BASE, i, TAG)


def _cleanup():
    shutil.rmtree(ROOT, ignore_errors=True)
    for d in (os.path.dirname(ROOT), core.SCRATCH):
        try:
            os.rmdir(d)
        except OSError:
            pass


def scratch():
    if not _made[0]:
        os.makedirs(ROOT, exist_ok=True)
        atexit.register(_cleanup)
        _made[0] = True
    return ROOT


class Proxy(object):
    """file object that reports write / flush / close to the recorder before doing them"""

    def __init__(self, f, rec, path, mode=""):
        self.__dict__["_f"] = f
        self.__dict__["_rec"] = rec
        self.__dict__["_path"] = path
        self.__dict__["_mode"] = mode

    def write(self, text):
        self._rec.event("write", text, self._path)
        return self._f.write(text)

    def flush(self):
        self._rec.event("flush", None, self._path)
        return self._f.flush()

    def close(self):
        if not self._f.closed:
            self._rec.event("close", self._mode, self._path)
        return self._f.close()

    def __getattr__(self, name):
        return getattr(self._f, name)


class Killed(BaseException):
    """the process is killed inside a control (emulated: the buffers are discarded, the call stack unwinds)"""


class LogAcct(object):
    """what the oracle knows about one log of the logger"""

    def __init__(self):
        self.paths = []               # newest first: main, copy 1, ...
        self.stream = []              # numbers of the records written and not lost with a killed process
        self.nf = 0                   # how many of them were written before the most recent completed flush
        self.pending_flush = None
        self.rot_start = 0
        self.bounds = []              # len(stream) at each rotation of the main file
        self.renames = []             # (k, size of source or None)
        self.wrote_total = 0          # records for which the write call was made, ever
        self.fault = None             # countdown: this os.rename call on the log's files raises OSError
        self.pending_drop = False     # a rename chain has overwritten the oldest copy and not (yet) moved the main file
        self.slack = 0                # chains that ended like that: one retained generation less each

    def settle(self):
        if self.pending_flush is not None:
            self.nf = self.pending_flush
            self.pending_flush = None

    def reset(self):
        self.paths = []
        del self.stream[:]
        self.nf = 0
        self.pending_flush = None
        self.rot_start = 0
        self.bounds = []
        self.pending_drop = False
        self.slack = 0


class Recorder(object):
    """intercepts the primitives; before each one: count it, optionally die, snapshot the directory"""

    def __init__(self, nlogs, kill_at=None, snapshots=True):
        self.logs = [LogAcct() for _ in range(nlogs)]
        self.n = 0
        self.kill_at = kill_at
        self.snapshots = snapshots
        self.muted = False
        self.snaps = []               # per event: tuple over the logs of (state, stream, nf, rotStart, bounds)
        self.files = []               # proxies handed out in this life
        self.die_at = None            # die inside the current control after this many file-system steps
        self.mc = 0                   # file-system steps of the current control so far
        self.die_hook = None
        self.died_at = []             # event numbers at which a death inside a control was emulated

    def which(self, path):
        for i, a in enumerate(self.logs):
            if path in a.paths:
                return i
        return None

    @staticmethod
    def read_paths(paths):
        out = []
        for p in paths:
            if not os.path.exists(p):
                out.append("-")
                continue
            with open(p, "rb") as f:
                data = f.read().decode()
            out.append(canon_file(data))
        return ";".join(out)

    def snap(self):
        self.snaps.append(tuple((self.read_paths(a.paths), tuple(a.stream), a.nf, a.rot_start, tuple(a.bounds),
                                 a.slack + (1 if a.pending_drop else 0)) for a in self.logs))

    def event(self, kind, arg=None, path=None):
        if self.muted:
            return
        for a in self.logs:           # the previous primitive has completed now
            a.settle()
        if self.kill_at is not None and self.n == self.kill_at:
            os._exit(0)
        # the steps the model counts: open / write / flush(+fsync) / close / rename; the close of a trial open
        # belongs to the open
        step = kind in ("open", "write", "flush", "rename", "renamefail") or \
            (kind == "close" and not (arg or "").startswith("r"))
        if step and self.die_at is not None:
            if self.mc == self.die_at:
                self.died_at.append((self.n, tuple(self.read_paths(a.paths) for a in self.logs)))
                self.die_at = None
                if self.snapshots:
                    self.snap()           # what the process leaves when it dies here
                self.n += 1
                self.die_hook()
                raise Killed()
            self.mc += 1
        if self.snapshots:
            self.snap()
        self.n += 1
        i = self.which(path) if path is not None else None
        if i is None:
            return
        a = self.logs[i]
        if a.pending_drop and kind not in ("rename", "renamefail"):
            a.pending_drop = False        # the chain is over and the main file was not rotated
            a.slack += 1
        if kind == "write":
            for line in arg.split("\n"):
                parts = line.split("\t")
                if len(parts) == 2 and parts[1].startswith("r") and "_" in parts[1] and parts[1][1:parts[1].index("_")].isdigit():
                    a.stream.append(int(parts[1][1:parts[1].index("_")]))
                    a.wrote_total += 1
        elif kind in ("flush", "close"):
            a.pending_flush = len(a.stream)
        elif kind == "rename":
            k = a.paths.index(path)
            size = os.path.getsize(path) if os.path.exists(path) else None
            a.renames.append((k, size))
            if k == 0 and size is not None:
                a.rot_start = len(a.stream)
                a.bounds.append(len(a.stream))
                a.pending_drop = False
            elif k == len(a.paths) - 2 and size is not None:
                a.pending_drop = True

    def finish(self):
        for a in self.logs:
            a.settle()
        if self.kill_at is not None and self.n == self.kill_at:
            os._exit(0)
        if self.snapshots:
            self.snap()

    def life_ends(self):
        """the process dies: what was not flushed is gone"""
        for a in self.logs:
            a.settle()
            del a.stream[a.nf:]


def canon_file(data):
    """'.' empty, else H / r<n>:<bytes> joined by ','; anything else is reported verbatim"""
    if data == "":
        return "."
    toks = []
    lines = data.split("\n")
    if lines[-1] == "":
        lines.pop()
        complete = True
    else:
        complete = False
    i = 0
    while i < len(lines):
        l = lines[i]
        if l.startswith("text\t") and i + 1 < len(lines) and lines[i + 1].startswith("_time"):
            toks.append("H")
            i += 2
            continue
        parts = l.split("\t")
        if len(parts) == 2 and parts[1].startswith("r") and "_" in parts[1]:
            n = parts[1][1:parts[1].index("_")]
            if n.isdigit():
                toks.append("r%d:%d" % (int(n), len(l.encode()) + 1))
                i += 1
                continue
        toks.append("?%r" % l)
        i += 1
    if not complete:
        toks.append("?partial")
    return ",".join(toks)


def parse_state(state):
    out = []
    for f in state.split(";"):
        if f == "-":
            out.append(None)
        elif f == ".":
            out.append([])
        else:
            out.append(f.split(","))
    return out


def proto_ok(ops):
    st = "stopped"
    for o in ops:
        if o == "ctl run" and st == "stopped":
            return False
        if o.startswith("die run") and st == "stopped":
            return False
        if o.startswith("ctl "):
            st = {"start": "started", "run": "running", "stop": "stopped"}[o[4:]]
        elif o == "reboot" or o.startswith("die "):
            st = "stopped"
    return True


class Plan(object):
    """what the harness' writer does and what the log's rule will then write, run by run (used both to drive the
    real objects and to tell the model how many records of which size each run writes)"""

    def __init__(self, rule):
        self.rule = rule
        self.n = 0              # records written so far (also by lives that were killed)
        self.pad = 0
        self.new_life()

    def new_life(self):
        self.stamp = 0          # store stamp of this life, 1/8 s
        self.status = "stopped"
        self.first = True       # the Log object has not logged yet
        self.dirty = False
        self.queue = []         # values queued and not yet logged (deck / streak)
        self.cur = self.value() # the value the share holds (value rules)
        self.last_rec_stamp = None

    def value(self, k=0):
        return "r%04d_%s" % (self.n + k, "x" * self.pad)

    def line(self, val):
        return "%s\t%s\n" % (repr(self.stamp / 8.0), val)

    def put(self, k):
        """the writer queues k items (deck / streak) or updates the value (update / change); returns the new
        values, [] when it does nothing"""
        if self.rule in ("deck", "streak"):
            vals = [self.value(len(self.queue) + i) for i in range(k)]
            self.queue += vals
            return vals
        if self.rule in ("update", "change"):
            # update rule: an update in the tick of the last record is the known finding D12 (C22); never generate it
            if self.rule == "update" and self.last_rec_stamp == self.stamp:
                return []
            self.dirty = True
            self.cur = self.value()
            return [self.cur]
        return []

    def before_run(self):
        """always / once / never: the writer sets a fresh value before every run; returns it or None"""
        if self.rule in ("always", "once", "never"):
            self.cur = self.value()
            return self.cur
        return None

    def batch(self):
        """sizes of the records the next run writes, or None when its action makes no write call"""
        r = self.rule
        if r == "never":
            return None
        if r == "always":
            vals = [self.cur]
        elif r == "once":
            vals = [self.cur] if self.first else None
        elif r in ("update", "change"):
            vals = [self.cur] if (self.first or self.dirty) else None
        elif r == "deck":
            vals = list(self.queue) if self.queue else None
        elif r == "streak":
            vals = list(self.queue)
        if vals is None:
            return None
        return [len(self.line(v)) for v in vals]

    def ran(self, b):
        if self.rule in ("always", "once", "update", "change") and b is not None:
            self.first = False
            self.dirty = False
        if self.rule in ("deck", "streak"):
            self.first = False
            self.queue = []
        if b:
            self.n += len(b)
            self.last_rec_stamp = self.stamp


class CHECK(core.Check):
    PROPERTY = "C23"
    LEAN_MODULES = ["IofloModel.Props.C23"]
    ENGINE = "rotate"
    N_QUICK = 65
    N_THOROUGH = 1000
    N_SEARCH = 200
    RULE = ("configurations keep 0-3 x cyclePeriod {0,.25,.5,1,2,3 s} x fileSize {0,40..300 bytes} x flushPeriod "
            "{0,1,1.5,2,4 s} x reuse x loggers with 1-3 logs of rules {always, once, update, change, deck, streak, never} (mixed); record streams of "
            "2-16 ticks with varying record sizes and batch sizes (deck/streak: 0-3 queued items per tick), tick lengths "
            "1/8-1.5 s, restarts (STOP/START) and 1-3 process lives (fresh Logger/Log objects on the same prefix; a life "
            "ends after STOP, by a kill between controls, or by a kill INSIDE a control after g of its file-system steps - "
            "op `die <ctl> <g>`: between the renames of a rotation, between create and header, between header write and "
            "flush, between the trial opens of a reopen, ... - followed by a restart on the files left); every g for "
            "START / RUN-with-rotation / STOP on fixed streams; fault injection - op `fault <i> <n>`: the n-th os.rename call "
            "on log i's files raises OSError(EBUSY) once without moving anything - at every position of a rotation's "
            "rename chain and beyond it, for every log, followed by more rotations, a STOP and a second life, and at "
            "random places of a quarter of the random histories with keep > 0; a small full grid of configurations over fixed "
            "streams; every primitive of every run is a crash point (read-back), and sampled crash points (all points for "
            "selected cases) are produced by killing a forked child; non-trivial = at least two records written; distinct "
            "by case content")
    TRUSTED = ["correspondence: a real Logger with 1-3 Logs on /verif/.scratch/log/<pid> (per log: its own files, crash-state sequence and flush accounting; Logger.flush counts as a flush of every open log); ocfn, file.write/flush/close, "
               "os.fsync and os.rename are intercepted, the directory is read back from disk before each one (what a kill "
               "at that point leaves) and the sequence of distinct crash states is compared with the Lean driver; a "
               "process life that ends by a kill is emulated by redirecting the open file descriptors to /dev/null (the "
               "buffers never reach the files; for a death inside a control this is done at the intercepted call and the call "
               "stack is unwound with a BaseException, the runner's cleanup writing to /dev/null); every death inside a "
               "control (quick: a sample) and sampled crash points are checked against a forked child really killed "
               "with os._exit",
               "a killed process loses its user-space buffers and nothing else: durability below fsync (power loss, page "
               "cache) is the operating system's contract and is not exercised",
               "records are shorter than the 8 KiB buffer of a Python file object, so nothing reaches the disk before a flush",
               "how many records a run writes under each rule is told to the model by the harness (which records a rule "
               "logs is C22); the tree includes fixes/D53-log-reopen-empty-file-is-new.patch; theorems assume an empty log directory at the first START of the first life, the same "
               "configuration in every life, and controls that follow the runner protocol"]
    PARTIAL = ["all seven theorems are full, over any number of process lives and for every log rule, for the code with "
               "fix patch fixes/D53-log-reopen-empty-file-is-new.patch (Cfg.emptyIsNew = true); "
               "C23_D53_orig_headerless_after_empty_kill documents the code before the patch",
               "process lives that end in the middle of a control are covered (Op.die / MOp.die: cut_spec shows the state a "
               "new process starts from is as good as one reached between controls, so every theorem holds for the "
               "lives that follow); observation: a rotation cut short by a kill leaves a hole among the copies which the "
               "next life fills with an empty file, so one retained generation is lost early (nothing flushed and still "
               "within the contiguous retained suffix is lost; the oracle accounts for it); the global order of the "
               "primitives of a multi-log control (loop by loop, log by log) is in the driver, the theorems hold for "
               "every vector of per-log cut points; not covered: a different keep or directory layout in a later "
               "life, failing opens (IOError branches), binary logs; failing renames: C23_failed_rename_keeps_invariant "
               "proves the invariant P at every crash point of a rename chain for any pattern of existing copies and any "
               "failing os.rename call (and that a failed chain leaves the main file as it was); the history theorems are "
               "stated for runs without injected faults (proto rejects Op.fault), whole histories with faults are covered "
               "by the correspondence and the oracle only; fault + death inside the same history is not generated; "
               "loggers with several logs: C23_logs_lockstep shows every log of a multi-log logger is where the single-log "
               "logger would be, so all theorems hold per log and per-log crash point (C23_multi_*); one log raising an "
               "exception in the middle of a Logger loop is not modelled",
               "observation: after one failed os.rename the hole it leaves makes every later rename chain of the same process "
               "fail at once (rename of a missing source), so rotation does not resume until the next process start "
               "refills the hole - the main file grows past fileSize; a chain that fails after it overwrote the oldest "
               "copy has dropped one retained generation without rotating (the oracle allows for it); nothing retained is "
               "overwritten in the middle and no record that is still retained is lost",
               "observation (not a violation of the property as stated): with keep and reuse a STOP logs, lets the cycle "
               "timer rotate, and then rotates once more; with fileSize 0 the second rotation moves a header-only file "
               "into the copies, so with keep=1 every record of the session has fallen off right after STOP"]
    TECHNIQUE = ("Lean 4: an invariant (contiguity with a flushed drop point, buffer = unflushed records, file shapes, newest "
                 "file = records since the last rotation) proved for EVERY prefix of the primitive trace of every "
                 "protocol-respecting history over any number of process lives, by one lemma per primitive and a loop "
                 "invariant for the rename chain; + differential correspondence of the crash-state sequences and kill tests")
    LEVEL_TEXT = ("Proof on the model, for every configuration, every log rule (a run writes any batch of records or "
                  "nothing), every protocol-respecting history over any number of process lives from an empty directory and "
                  "EVERY crash point (prefix of the primitive trace, including the middle of a rotation): the retained files "
                  "read oldest to newest plus the buffer are the surviving record stream minus a dropped prefix "
                  "(C23_rotation_contiguous); what a kill leaves is exactly the records written before the most recent "
                  "flush minus that prefix (C23_crash_keeps_flushed); the newest file holds the records since the last "
                  "rotation (C23_newest_since_rotation); the main file is renamed away only at or above fileSize "
                  "(C23_rotate_only_at_size); record numbers never repeat (C23_records_numbered); every file is empty or "
                  "one header followed by records (C23_each_file_header) - all FULL, for the code with fix D53. The model is tied to logging.py by comparing, for real runs, "
                  "the sequence of crash states read back before every intercepted primitive, and by killing forked children.")
    LEVEL_NOTE = ("Trusted: Lean kernel; axioms propext, Classical.choice, Quot.sound; the hand transcription of "
                  "Log.reopen/close/flush/cycle and Logger.log validated only by the correspondence runs; kill tests "
                  "exercise user-space buffers only (no power loss); empty directory at the first "
                  "START; the tree is /repo with fix D53 applied.")

    # ---- protocol
    @staticmethod
    def rules_of(case):
        c = case["cfg"]
        return list(c["rules"]) if "rules" in c else [c["rule"]]

    def requests(self, case):
        c = case["cfg"]
        rules = self.rules_of(case)
        return (["cfg %d %d %d %d %d %s" % (c["keep"], c["cycle"], c["fsize"], c["flush"], 1 if c["reuse"] else 0,
                                            ",".join(str(len(header(r, i))) for i, r in enumerate(rules)))] +
                self.model_ops(case) + ["states %d" % i for i in range(len(rules))])

    def model_ops(self, case):
        """the ops with what every log's action writes at a run (sizes in bytes) put in front of the control"""
        out = []
        rules = self.rules_of(case)
        pls = [Plan(r) for r in rules]
        for o in case["ops"]:
            w = o.split(" ")
            if w[0] == "adv":
                for pl in pls:
                    pl.stamp += int(w[1])
                out.append(o)
            elif w[0] == "pad":
                for pl in pls:
                    pl.pad = int(w[1])
            elif w[0] == "put":
                i, k = (int(w[1]), int(w[2])) if len(w) == 3 else (0, int(w[1]))
                if i < len(pls):
                    pls[i].put(k)
            elif w[0] == "fault":
                if int(w[1]) < len(pls):
                    out.append(o)
            elif w[0] == "reboot":
                for pl in pls:
                    pl.new_life()
                out.append("reboot")
            elif w[0] in ("ctl", "die"):
                writes = (w[1] in ("start", "run")) or (w[1] == "stop" and pls[0].status != "stopped")
                if writes:
                    for i, pl in enumerate(pls):
                        pl.before_run()
                        b = pl.batch()
                        out.append("recs %d %s" % (i, "-" if b is None else ("." if not b else ",".join(str(x) for x in b))))
                        pl.ran(b)
                for pl in pls:
                    pl.status = {"start": "started", "run": "running", "stop": "stopped"}[w[1]]
                out.append(o)
                if w[0] == "die":         # killed inside the control: a new process (record numbers do not matter here)
                    for pl in pls:
                        pl.new_life()
        return out

    def model_post(self, case, replies):
        n = len(self.rules_of(case))
        return ["states %d: %s" % (i, r) for i, r in enumerate(replies[-n:])] + ["kills: ok"]

    # ---- implementation adapter
    _n = 0

    def run_real(self, case, root, kill_at=None, snapshots=True):
        """run the history (all its process lives) in `root` with the primitives intercepted"""
        from ioflo.base import housing, storing, logging, globaling, tasking
        from ioflo.aid.odicting import odict
        c = case["cfg"]
        rules = self.rules_of(case)
        nlogs = len(rules)
        rec = Recorder(nlogs, kill_at=kill_at, snapshots=snapshots)
        real_ocfn, real_rename, real_fsync = logging.ocfn, os.rename, os.fsync
        real_log_flush, real_logger_flush = logging.Log.flush, logging.Logger.flush
        keepbox = [0]

        def ocfn(path, mode="r+", binary=False):
            if not rec.logs[0].paths and not rec.muted:      # first open of a life: this is the log directory
                d = os.path.dirname(path)
                for i, a in enumerate(rec.logs):
                    b = "%s%d" % (BASE, i)
                    a.paths = [os.path.join(d, b + ".txt")] + [os.path.join(d, "%s%02d.txt" % (b, k + 1))
                                                              for k in range(keepbox[0])]
            rec.event("open", mode, path)
            p = Proxy(real_ocfn(path, mode, binary), rec, path, mode)
            rec.files.append(p)
            return p

        def rename(a, b):
            i = rec.which(a) if not rec.muted else None
            if i is not None and rec.logs[i].fault is not None:
                if rec.logs[i].fault == 0:            # the injected fault: this call raises, nothing is moved
                    rec.logs[i].fault = None
                    rec.event("renamefail" if os.path.exists(a) else "rename", None, a)
                    import errno
                    raise OSError(errno.EBUSY, "Device or resource busy (injected)", a)
                rec.logs[i].fault -= 1
            rec.event("rename", None, a)
            return real_rename(a, b)

        def fsync(fd):
            if rec.muted:
                return None
            rec.event("fsync")
            return real_fsync(fd)

        def mark(i):
            a = rec.logs[i]
            a.pending_flush = None
            a.nf = len(a.stream)

        def log_flush(lg):
            was_open = bool(lg.file) and not lg.file.closed
            r = real_log_flush(lg)
            if was_open and not rec.muted:   # Log.flush() has returned: everything it wrote so far counts as flushed
                mark(int(lg.name[len(BASE):]))
            return r

        def logger_flush(lgr):
            r = real_logger_flush(lgr)
            if not rec.muted:                # Logger.flush() has returned: that is a flush of every open log
                for lg in lgr.logs:
                    if lg.file and not lg.file.closed:
                        mark(int(lg.name[len(BASE):]))
            return r

        life = {}
        pls = [Plan(r) for r in rules]

        def new_life():
            for cls in (housing.House, storing.Store, logging.Logger, logging.Log, tasking.Tasker):
                cls.Clear()
            if not c["reuse"]:
                import time
                time.sleep(0.003)       # the new directory is named by the clock in ms: never the previous life's name
            house = housing.House(name="H")
            store = house.store
            logger = logging.Logger(name="L", store=store, prefix=root, reuse=bool(c["reuse"]), keep=c["keep"],
                                    cyclePeriod=c["cycle"] / 8.0, fileSize=c["fsize"], flushPeriod=c["flush"] / 8.0)
            keepbox[0] = logger.keep
            shares = []
            for i, rule in enumerate(rules):
                share = store.create("s.v%d" % i)
                share.change(value=[] if rule == "streak" else pls[i].cur)
                log = logging.Log(name="%s%d" % (BASE, i), store=store, kind="text", baseFilename="%s%d" % (BASE, i),
                                  rule=getattr(globaling, rule.upper()))
                log.addLoggee(TAG, share, ["value"])
                logger.addLog(log)
                shares.append(share)
            logger.resolve()
            store.changeStamp(0.0)
            life.update(store=store, logger=logger, shares=shares)
            if not c["reuse"]:              # a new, empty directory: the streams start over
                for a in rec.logs:
                    a.reset()
            rec.files = []

        def end_life():
            """kill: what is buffered never reaches the files; then let the dead runner finish silently"""
            rec.life_ends()
            for p in rec.files:
                f = p._f
                if not f.closed:
                    dn = os.open(os.devnull, os.O_WRONLY)
                    os.dup2(dn, f.fileno())
                    os.close(dn)
            rec.muted = True
            try:
                life["logger"].runner.close()
            except Exception:
                pass
            rec.muted = False

        def die_hook():
            """the kill, at an intercepted call inside a control: buffers are lost, nothing more reaches the files"""
            rec.life_ends()
            for a, mark in zip(rec.logs, ctl_marks):
                # a rename chain cut short leaves a hole among the copies; the next life's trial open fills it with
                # an empty file: an empty stretch between the copy that was moved up and the files below the hole
                done = [k for k, size in a.renames[mark:] if size is not None]
                if done and done[-1] >= 1 and c["reuse"]:
                    idx = len(a.bounds) - done[-1]
                    a.bounds.insert(max(idx, 0), a.bounds[idx] if idx >= 0 else 0)
                a.pending_drop = False
            for p in rec.files:
                f = p._f
                if not f.closed:
                    dn = os.open(os.devnull, os.O_WRONLY)
                    os.dup2(dn, f.fileno())
                    os.close(dn)
            rec.muted = True

        ctl_marks = []
        rec.die_hook = die_hook
        logging.ocfn, os.rename, os.fsync = ocfn, rename, fsync
        logging.Log.flush, logging.Logger.flush = log_flush, logger_flush
        try:
            new_life()
            for o in case["ops"]:
                w = o.split(" ")
                if w[0] == "adv":
                    for pl in pls:
                        pl.stamp += int(w[1])
                    life["store"].advanceStamp(int(w[1]) / 8.0)
                elif w[0] == "pad":
                    for pl in pls:
                        pl.pad = int(w[1])
                elif w[0] == "put":
                    i, k = (int(w[1]), int(w[2])) if len(w) == 3 else (0, int(w[1]))
                    if i >= nlogs:
                        continue
                    vals = pls[i].put(k)
                    share, rule = life["shares"][i], rules[i]
                    if rule == "deck":
                        for v in vals:
                            share.push(odict(value=v))
                    elif rule == "streak":
                        for v in vals:
                            share.value.append(v)
                    elif rule == "update" and vals:
                        share.update(value=vals[0])
                    elif rule == "change" and vals:
                        share.change(value=vals[0])
                elif w[0] == "fault":
                    if int(w[1]) < nlogs:
                        rec.logs[int(w[1])].fault = int(w[2])
                elif w[0] == "reboot":
                    end_life()
                    for pl in pls:
                        pl.new_life()
                    new_life()
                elif w[0] == "die":
                    writes = (w[1] in ("start", "run")) or (w[1] == "stop" and pls[0].status != "stopped")
                    if writes:
                        for i, pl in enumerate(pls):
                            v = pl.before_run()
                            if v is not None:
                                life["shares"][i].change(value=v)
                    rec.die_at, rec.mc = int(w[2]), 0
                    ctl_marks[:] = [len(a.renames) for a in rec.logs]
                    try:
                        life["logger"].runner.send({"start": globaling.START, "run": globaling.RUN,
                                                    "stop": globaling.STOP}[w[1]])
                        rec.die_at = None
                        end_life()            # the control got through: the kill comes right after it
                    except Killed:
                        try:
                            life["logger"].runner.close()
                        except Exception:
                            pass
                        rec.muted = False
                    for i, pl in enumerate(pls):
                        pl.n = rec.logs[i].wrote_total      # numbering goes on after the records actually written
                        pl.new_life()
                    new_life()
                elif w[0] == "ctl":
                    writes = (w[1] in ("start", "run")) or (w[1] == "stop" and pls[0].status != "stopped")
                    bs = []
                    if writes:
                        for i, pl in enumerate(pls):
                            v = pl.before_run()
                            if v is not None:
                                life["shares"][i].change(value=v)
                            bs.append(pl.batch())
                    life["logger"].runner.send({"start": globaling.START, "run": globaling.RUN,
                                                "stop": globaling.STOP}[w[1]])
                    if writes:
                        for pl, b in zip(pls, bs):
                            pl.ran(b)
                    for pl in pls:
                        pl.status = {"start": "started", "run": "running", "stop": "stopped"}[w[1]]
            rec.finish()
        finally:
            rec.snapshots = False
            rec.kill_at = None
            try:
                end_life()
            except Exception:
                pass
            logging.ocfn, os.rename, os.fsync = real_ocfn, real_rename, real_fsync
            logging.Log.flush, logging.Logger.flush = real_log_flush, real_logger_flush
        return rec, keepbox[0]

    def kill_run(self, case, k):
        """really kill a child before primitive k; return, per log directory found, the files it leaves"""
        CHECK._n += 1
        root = os.path.join(scratch(), "k%d" % CHECK._n)
        os.makedirs(root)
        sys.stdout.flush()
        sys.stderr.flush()
        pid = os.fork()
        if pid == 0:
            try:
                self.run_real(case, root, kill_at=k, snapshots=False)
            finally:
                os._exit(3)
        _, status = os.waitpid(pid, 0)
        try:
            if os.WEXITSTATUS(status) != 0:
                return "child-exit-%d" % os.WEXITSTATUS(status)
            keep, n = self._keep, len(self.rules_of(case))
            hd = os.path.join(root, "H")
            ds = os.listdir(hd) if os.path.isdir(hd) else []
            return [self._read_dir(os.path.join(hd, x), keep, n) for x in ds]
        finally:
            shutil.rmtree(root, ignore_errors=True)

    def _read_dir(self, d, keep, n):
        out = []
        for i in range(n):
            b = "%s%d" % (BASE, i)
            out.append(Recorder.read_paths([os.path.join(d, b + ".txt")] +
                                           [os.path.join(d, "%s%02d.txt" % (b, j + 1)) for j in range(keep)]))
        return " | ".join(out)

    def impl(self, case):
        CHECK._n += 1
        root = os.path.join(scratch(), "c%d" % CHECK._n)
        os.makedirs(root)
        try:
            rec, keep = self.run_real(case, root)
        finally:
            shutil.rmtree(root, ignore_errors=True)
        self._keep = keep
        n = len(self.rules_of(case))
        nothing = ";".join(["-"] * (keep + 1))
        per_log = [[(s[i][0] if s[i][0] != "" else nothing) for s in rec.snaps] for i in range(n)]
        out = []
        for i in range(n):
            ded = []
            for s in per_log[i]:
                if not ded or ded[-1] != s:
                    ded.append(s)
            out.append("states %d: %s" % (i, " || ".join(ded)))
        self._last = (core.case_key(case), rec, per_log)
        kills = case.get("kills", [])
        bad = None
        total = len(rec.snaps)
        pts = list(range(total)) if kills == "all" else [k for k in kills if k < total]
        # every death inside a control is also produced for real: a forked child exits at that intercepted call
        died = dict(rec.died_at)
        if case.get("diekill", True):
            pts += [k for k in died if k not in pts]
        for k in pts:
            want = " | ".join(((died[k][i] or nothing) if k in died else per_log[i][k]) for i in range(n))
            got = self.kill_run(case, k)
            ok = (want in got) if isinstance(got, list) else False
            if isinstance(got, list) and not got and want == " | ".join([nothing] * n):
                ok = True
            if isinstance(got, list) and want == " | ".join([nothing] * n) and not case["cfg"]["reuse"]:
                ok = True          # a new life without reuse has not made its own directory yet: nothing of its own
            if not ok:
                bad = "kills: mismatch at primitive %d: killed child left %s, read-back was %s" % (k, got, want)
                break
        return out + [bad or "kills: ok"]

    # ---- oracle
    def failures(self, case, out):
        if not proto_ok(case["ops"]):
            return []              # the property speaks about controls that follow the runner protocol
        if out and out[0].startswith("HARNESS-EXC"):
            return [("harness", "adapter failed: %s" % out[0])]
        last = getattr(self, "_last", None)
        if last is None or last[0] != core.case_key(case):
            self.safe_impl(case)
            last = getattr(self, "_last", None)
            if last is None or last[0] != core.case_key(case):
                return [("harness", "adapter failed")]
        _, rec, per_log = last
        if out and out[-1] != "kills: ok":
            return [("kill", out[-1])]
        fsize = max(0, case["cfg"]["fsize"])
        keep = self._keep
        for li, a in enumerate(rec.logs):
            for k, size in a.renames:
                if k == 0 and size is not None and fsize and size < fsize:
                    return [("size", "log %d: rotated a main file of %d bytes, threshold %d" % (li, size, fsize))]
        for idx, snap in enumerate(rec.snaps):
            for li, (st, stream, nf, rot, bounds, slack) in enumerate(snap):
                if st == "":
                    continue
                f = self.check_state(idx, li, st, stream, nf, rot, bounds, keep, slack)
                if f:
                    return [f]
        return []

    @staticmethod
    def check_state(idx, li, st, stream, nf, rot, bounds, keep, slack=0):
        pos = {n: i for i, n in enumerate(stream)}
        files = parse_state(st)
        seq = []
        where = "crash point %d, log %d" % (idx, li)
        for j in range(len(files) - 1, -1, -1):          # oldest first
            f = files[j]
            if f is None:
                continue
            if any(t.startswith("?") for t in f):
                return ("content", "%s: file %d holds something that is not a header or a whole record: %s" % (where, j, f))
            if f:
                if f[0] != "H":
                    return ("header", "%s: file %d does not start with the header: %s" % (where, j, f[:3]))
                if "H" in f[1:]:
                    return ("header", "%s: file %d has a second header" % (where, j))
            for t in f[1:]:
                n = int(t[1:t.index(":")])
                if n not in pos:
                    return ("lost", "%s: record %d is in the files but was never written or was lost with a killed "
                            "process: %s" % (where, n, st))
                if j > 0 and pos[n] >= rot:
                    return ("newest", "%s: record %d, written after the last rotation, is in copy %d" % (where, n, j))
                if j == 0 and pos[n] < rot:
                    return ("newest", "%s: record %d, written before the last rotation, is in the newest file" % (where, n))
                seq.append(n)
        # nothing flushed may be missing except whole stretches that fell off the oldest copy: the files hold
        # the flushed records from the start of one of the last keep (+1 while a rotation is under way) stretches
        m = len(bounds)
        starts = set()
        # (a rename chain that failed after it had overwritten the oldest copy costs one more generation: slack)
        for back in range(keep, keep - 2 - slack, -1):
            if back < 0:
                continue
            starts.add(bounds[m - back - 1] if m - back - 1 >= 0 else 0)
        if not any(seq == list(stream[a:nf]) for a in starts if a <= nf):
            return ("flushed", "%s: records %s were written before the last flush, rotations after %s of them, keep %d; "
                    "the files hold %s: %s" % (where, list(stream[:nf]), list(bounds), keep, seq, st))
        return None

    def oracle(self, case, out):
        f = self.failures(case, out)
        return "; ".join(m for _, m in f) if f else None

    def nontrivial(self, case, out):
        return any(o.count(",r") >= 1 for o in out[:-1])

    def bucket(self, case, out):
        c = case["cfg"]
        rules = self.rules_of(case)
        lives = 1 + sum(1 for o in case["ops"] if o == "reboot")
        return "%s,keep%d%s%s,lives%d%s" % ("+".join(rules), c["keep"], ",size" if c["fsize"] > 0 else "",
                                            ",reuse" if c["reuse"] else "", lives,
                                            ",rotated" if (any(" || -;" in o for o in out) and c["keep"] > 0) else "")

    # ---- generators
    def gen_case(self, rng, tier, clean=False):
        keep = rng.choice([0, 1, 1, 2, 2, 3])
        pick = lambda: rng.choice(["always", "always", "always", "deck", "deck", "streak", "streak", "update", "change",
                                   "once", "never"])
        nlogs = rng.choice([1, 1, 2, 2, 3])
        rules = [pick() for _ in range(nlogs)]
        cfg = {"keep": keep, "cycle": rng.choice([0, 2, 4, 8, 8, 16, 24]), "fsize": rng.choice([0, 0, 40, 60, 90, 150, 300]),
               "flush": rng.choice([0, 8, 8, 12, 16, 32]), "reuse": rng.random() < 0.6, "rules": rules}
        ops = []
        lives = rng.choice([1, 1, 2, 2, 3])

        def puts():
            for i in range(nlogs):
                if rng.random() < 0.6:
                    ops.append("put %d %d" % (i, rng.choice([1, 1, 1, 2, 3])))

        faulty = keep > 0 and rng.random() < 0.25       # os.rename fails once or twice somewhere in this history

        def ctl(c):
            """the control, or (now and then) the process dying inside it after some of its file-system steps"""
            if faulty and rng.random() < 0.2:
                ops.append("fault %d %d" % (rng.randrange(nlogs), rng.randrange(2 * keep + 1)))
            if not faulty and rng.random() < 0.07:
                ops.append("die %s %d" % (c, rng.randrange(6 + 12 * nlogs)))
                return True
            ops.append("ctl " + c)
            return False

        for life in range(lives):
            if rng.random() < 0.3:
                ops.append("pad %d" % rng.randrange(30))
            puts()
            if ctl("start"):
                continue
            started = True
            died = False
            for t in range(rng.choice([1, 2, 4, 6, 8, 12])):
                if rng.random() < 0.85:
                    ops.append("adv %d" % rng.choice([1, 2, 4, 4, 8, 8, 12]))
                if rng.random() < 0.2:
                    ops.append("pad %d" % rng.randrange(40))
                puts()
                r = rng.random()
                if started:
                    if r < 0.85:
                        died = ctl("run")
                    elif r < 0.93:
                        died = ctl("stop")
                        started = False
                else:
                    if r < 0.7:
                        died = ctl("start")
                        started = True
                if died:
                    break
            if died:
                continue
            if started and rng.random() < (0.5 if life < lives - 1 else 0.4):
                if ctl("stop"):
                    continue
                started = False
            if life < lives - 1:
                ops.append("reboot")
        return {"cfg": cfg, "ops": ops}

    def generate(self, rng, n, tier):
        for i in range(n):
            c = self.gen_case(rng, tier)
            if tier == "thorough":
                c["kills"] = "all" if i % 150 == 0 else ([rng.randrange(80)] if i % 2 == 0 else [])
            else:
                c["kills"] = [rng.randrange(60)] if i % 8 == 0 else []
            yield c

    def exhaustive(self, tier):
        """a small grid of configurations x rule sets over fixed streams: one life with two rotations, two lives
        (the second on the files of the first) that both rotate, a life that is killed; and a flush tick without
        rotation followed by a kill, for loggers with one, two and three logs"""
        def puts(n):
            return ["put %d 1" % i for i in range(n)]
        keeps = [0, 2] if tier == "quick" else [0, 1, 2, 3]
        sets = ([["always"], ["deck"], ["always", "deck"], ["streak", "always", "update"]] if tier == "quick" else
                [[r] for r in RULES] + [["always", "deck"], ["deck", "always"], ["streak", "always", "update"],
                                        ["change", "never", "deck"], ["once", "streak"]])
        for rules, keep, cycle, fsize, flush, reuse in itertools.product(sets, keeps, [0, 8, 16], [0, 60], [8, 16],
                                                                         [False, True]):
            n = len(rules)
            p = puts(n)
            one = p + p + ["ctl start", "adv 4"] + p + ["ctl run", "adv 4"] + p + p + ["ctl run", "adv 8"] + p + \
                  ["ctl run", "adv 8"] + p + ["ctl run", "ctl stop"]
            two = p + ["ctl start", "adv 8"] + p + p + ["ctl run", "adv 8"] + p + ["ctl run", "ctl stop", "reboot"] + p + \
                  ["ctl start", "adv 8"] + p + p + ["ctl run", "adv 8"] + p + ["ctl run", "adv 8"] + p + ["ctl run"]
            killed = p + ["ctl start", "adv 8"] + p + p + ["ctl run", "adv 2"] + p + ["ctl run", "reboot"] + p + \
                     ["ctl start", "adv 8"] + p + p + ["ctl run", "adv 8"] + p + ["ctl run"]
            for name, ops in (("one", one), ("two", two), ("killed", killed)):
                if tier == "quick" and (flush == 16 or (cycle == 0 and name != "one")):
                    continue
                if tier == "thorough" and flush == 16 and rules not in (["always"], ["deck"], ["always", "deck"]):
                    continue
                sel = (keep == 2 and cycle == 8 and flush == 8 and fsize == 0 and reuse)
                yield {"cfg": {"keep": keep, "cycle": cycle, "fsize": fsize, "flush": flush, "reuse": reuse, "rules": rules},
                       "ops": ops,
                       "kills": "all" if (sel and tier == "thorough" and rules in (["always"], ["always", "deck"]))
                       else ([7, 12, 25, 40] if (sel and rules == ["always", "deck"]) else [])}

        # os.rename raises OSError once, at every position of a rotation's rename chain (and beyond it: the next
        # rotation), for every log; then more rotations, a STOP (which rotates again), a second life
        for rules in ([["always"], ["always", "deck"]] if tier == "quick" else
                      [["always"], ["deck"], ["always", "deck"], ["streak", "always", "update"]]):
            n = len(rules)
            p = puts(n)
            for keep, fsize in ([(2, 0), (1, 0)] if tier == "quick" else [(1, 0), (2, 0), (3, 0), (2, 60)]):
                cfgf = {"keep": keep, "cycle": 8, "fsize": fsize, "flush": 8, "reuse": True, "rules": rules}
                for li in range(n):
                    for k in range(keep + 2):
                        yield {"cfg": cfgf, "kills": [],
                               "ops": p + ["ctl start", "adv 8"] + p + ["ctl run", "adv 8", "fault %d %d" % (li, k)] + p +
                                      ["ctl run", "adv 8"] + p + ["ctl run", "adv 8"] + p + ["ctl run", "ctl stop", "reboot"] +
                                      p + ["ctl start", "adv 8"] + p + ["ctl run", "adv 8"] + p + ["ctl run", "ctl stop"]}
        # the process dies inside a control after g of its file-system steps, for every g: inside a run that flushes
        # and rotates (between the renames, between create and header, between header and reopen), inside the START
        # of a second life (reopen, trial opens, header), inside a STOP (flush, rotation, close); then a new life
        for rules in ([["always", "deck"]] if tier == "quick" else
                      [["always"], ["always", "deck"], ["streak", "always", "update"]]):
            n = len(rules)
            p = puts(n)
            dk = (lambda g: g % 8 == 3) if tier == "quick" else (lambda g: g % 2 == 0)   # also really kill a child there
            for keep, fsize, reuse in ([(2, 0, True)] if tier == "quick" else
                                       [(2, 0, True), (1, 60, True), (0, 0, True), (2, 0, False)]):
                cfgd = {"keep": keep, "cycle": 8, "fsize": fsize, "flush": 8, "reuse": reuse, "rules": rules}
                tail = p + ["ctl start", "adv 8"] + p + ["ctl run", "ctl stop"]
                for g in range(0, 4 + 13 * n):
                    yield {"cfg": cfgd, "kills": [], "diekill": dk(g),
                           "ops": p + ["ctl start", "adv 8"] + p + ["die run %d" % g] + tail}
                    yield {"cfg": cfgd, "kills": [], "diekill": dk(g),
                           "ops": p + ["ctl start", "adv 8"] + p + ["ctl run", "ctl stop", "reboot"] + p +
                                  ["die start %d" % g] + tail}
                    yield {"cfg": cfgd, "kills": [], "diekill": dk(g),
                           "ops": p + ["ctl start", "adv 8"] + p + ["ctl run", "adv 8"] + p + ["die stop %d" % g] + tail}
                for g in range(0, 3 + 4 * n):      # a first START that dies: no file, an empty file, a header in the buffer
                    yield {"cfg": cfgd, "kills": [], "diekill": dk(g), "ops": p + ["die start %d" % g] + tail}

    def search(self, rng, n, tier):
        for i in range(n):
            c = self.gen_case(rng, tier)
            c["kills"] = []
            yield c

    def shrink_candidates(self, case):
        ops = case["ops"]
        for i in range(len(ops)):
            c = dict(case)
            c["ops"] = ops[:i] + ops[i + 1:]
            c["kills"] = []
            if proto_ok(c["ops"]):
                yield c
