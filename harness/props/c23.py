"""C23 — log rotation and flushing never lose or duplicate retained records.
Model:    lean/IofloModel/Model/Rotate.lean (Log.reopen/close/flush/cycle, Logger.log timers, runner START/RUN/STOP,
          the file system as the ordered trace of primitive operations; every prefix of the trace is a crash point)
Theorems: lean/IofloModel/Props/C23.lean
Tie:      a real Logger with one 'always' Log on /verif/.scratch/log/<pid>; every file-system primitive the code
          performs (ocfn, file.write/flush/close, os.fsync, os.rename) is intercepted and the files are read back
          from disk *before* it runs: that is what a kill at that point leaves.  The sequence of distinct crash states
          is compared with the model's; sampled (thorough: all) crash points are also produced by really killing a
          forked child with os._exit and compared with the read-back.
Oracle:   the property clauses evaluated directly on every crash state of the real run (contiguity across the
          retained files, headers, newest file = records since the last rotation, rotation only at the size threshold,
          everything written before the last flush present).
"""
import os, sys, shutil, atexit, json, itertools
import core

ROOT = os.path.join(core.SCRATCH, "log", "r%d" % os.getpid())
_made = [False]
BASE = "lg"
TAG = "v"
HEADER = "text\tAlways\t%s\n_time\t%s\n" % (BASE, TAG)


def _cleanup():
    shutil.rmtree(ROOT, ignore_errors=True)
    for d in (os.path.dirname(ROOT), core.SCRATCH):
        try:
            os.rmdir(d)
        except OSError:
            pass


def scratch():
    if not _made[0]:
        os.makedirs(ROOT, exist_ok=True)
        atexit.register(_cleanup)
        _made[0] = True
    return ROOT


class Killed(BaseException):
    pass


class Proxy(object):
    """file object that reports write / flush / close to the recorder before doing them"""

    def __init__(self, f, rec, path):
        self.__dict__["_f"] = f
        self.__dict__["_rec"] = rec
        self.__dict__["_path"] = path

    def write(self, text):
        self._rec.event("write", text)
        return self._f.write(text)

    def flush(self):
        self._rec.event("flush", self._path)
        return self._f.flush()

    def close(self):
        if not self._f.closed:
            self._rec.event("close", self._path)
        return self._f.close()

    def __getattr__(self, name):
        return getattr(self._f, name)


class Recorder(object):
    """intercepts the primitives; before each one: count it, optionally die, snapshot the directory"""

    def __init__(self, paths, kill_at=None, snapshots=True):
        self.paths = paths            # newest first: main, copy 1, ...
        self.n = 0
        self.kill_at = kill_at
        self.snapshots = snapshots
        self.snaps = []               # (state string, n records written, n records flushed, rotStart, bounds)
        self.bounds = []              # number of records written at each rotation of the main file
        self.events = []
        self.nw = 0                   # records written (into the buffer)
        self.nf = 0                   # records written before the most recent completed flush
        self.pending_flush = None
        self.rot_start = 0
        self.renames = []             # (k, size of source or None)

    def read_state(self):
        out = []
        for p in self.paths:
            if not os.path.exists(p):
                out.append("-")
                continue
            with open(p, "rb") as f:
                data = f.read().decode()
            out.append(canon_file(data))
        return ";".join(out)

    def event(self, kind, arg=None):
        # the previous primitive has completed now
        if self.pending_flush is not None:
            self.nf = self.pending_flush
            self.pending_flush = None
        if self.kill_at is not None and self.n == self.kill_at:
            os._exit(0)
        if self.snapshots:
            self.snaps.append((self.read_state(), self.nw, self.nf, self.rot_start, tuple(self.bounds)))
        self.n += 1
        if kind == "write":
            if not arg.startswith("text\t"):
                self.nw += 1
        elif kind in ("flush", "close"):
            self.pending_flush = self.nw
        elif kind == "rename":
            k, src = arg
            size = os.path.getsize(src) if os.path.exists(src) else None
            self.renames.append((k, size))
            if k == 0 and size is not None:
                self.rot_start = self.nw
                self.bounds.append(self.nw)
        self.events.append(kind)

    def finish(self):
        if self.pending_flush is not None:
            self.nf = self.pending_flush
            self.pending_flush = None
        if self.kill_at is not None and self.n == self.kill_at:
            os._exit(0)
        if self.snapshots:
            self.snaps.append((self.read_state(), self.nw, self.nf, self.rot_start, tuple(self.bounds)))


def canon_file(data):
    """'.' empty, else H / r<n>:<bytes> joined by ','; anything else is reported verbatim"""
    if data == "":
        return "."
    toks = []
    lines = data.split("\n")
    if lines[-1] == "":
        lines.pop()
        complete = True
    else:
        complete = False
    i = 0
    while i < len(lines):
        l = lines[i]
        if l.startswith("text\t") and i + 1 < len(lines) and lines[i + 1].startswith("_time"):
            toks.append("H")
            i += 2
            continue
        parts = l.split("\t")
        if len(parts) == 2 and parts[1].startswith("r") and "_" in parts[1]:
            n = parts[1][1:parts[1].index("_")]
            if n.isdigit():
                toks.append("r%s:%d" % (n, len(l.encode()) + 1))
                i += 1
                continue
        toks.append("?%r" % l)
        i += 1
    if not complete:
        toks.append("?partial")
    return ",".join(toks)


def parse_state(state):
    """list (newest first) of None | list of tokens"""
    out = []
    for f in state.split(";"):
        if f == "-":
            out.append(None)
        elif f == ".":
            out.append([])
        else:
            out.append(f.split(","))
    return out


def proto_ok(ops):
    st = "stopped"
    for o in ops:
        if o == "ctl run" and st == "stopped":
            return False
        if o.startswith("ctl "):
            st = {"start": "started", "run": "running", "stop": "stopped"}[o[4:]]
    return True


class CHECK(core.Check):
    PROPERTY = "C23"
    LEAN_MODULES = ["IofloModel.Props.C23"]
    ENGINE = "rotate"
    N_QUICK = 60
    N_THOROUGH = 1500
    N_SEARCH = 300
    RULE = ("configurations keep 0-3 x cyclePeriod {0,.25,.5,1,2,3 s} x fileSize {0,40..300 bytes} x flushPeriod "
            "{0,1,1.5,2,4 s} x reuse, record streams of 2-16 ticks with varying record sizes, tick lengths 1/8-1.5 s, "
            "restarts (STOP/START); a small full grid of configurations over one fixed stream; every primitive of every "
            "run is a crash point (read-back), and 1-2 sampled crash points per case (quick: every 4th case; all points for "
            "selected cases) are produced by killing a forked child; non-trivial = at least two records written; "
            "distinct by case content")
    TRUSTED = ["correspondence: a real Logger with one 'always' Log on /verif/.scratch/log/<pid>; ocfn, file.write/flush/"
               "close, os.fsync and os.rename are intercepted, the directory is read back from disk before each one (what a "
               "kill at that point leaves) and the sequence of distinct crash states is compared with the Lean driver "
               "'rotate'; sampled crash points are checked against a forked child really killed with os._exit",
               "a killed process loses its user-space buffers and nothing else: durability below fsync (power loss, page "
               "cache) is the operating system's contract and is not exercised",
               "records are shorter than the 8 KiB buffer of a Python file object, so nothing reaches the disk before a flush",
               "the tree is /repo (+ the C22 patches, which do not touch rotation); theorems assume an empty log "
               "directory at the first START and controls that follow the runner protocol"]
    PARTIAL = ["all six theorems are full for one 'always' log per logger started on an empty directory; a process "
               "restarted on the files of a previous process (reuse across processes), failing renames / opens (OSError "
               "branches are in the model but proved unreachable), several logs per logger and binary logs are not covered",
               "observation (not a violation of the property as stated): with keep and reuse a STOP logs, lets the cycle "
               "timer rotate, and then rotates once more; with fileSize 0 the second rotation moves a header-only file "
               "into the copies, so with keep=1 every record of the session has fallen off right after STOP"]
    TECHNIQUE = ("Lean 4: an invariant (contiguity with a flushed drop point, buffer = unflushed records, file shapes, newest "
                 "file = records since the last rotation) proved for EVERY prefix of the primitive trace of every "
                 "protocol-respecting history, by one lemma per primitive and a loop invariant for the rename chain; + "
                 "differential correspondence of the crash-state sequences and kill tests")
    LEVEL_TEXT = ("Full proof on the model, for every configuration, every protocol-respecting history from an empty "
                  "directory and EVERY crash point (prefix of the primitive trace, including the middle of a rotation): the "
                  "retained files read oldest to newest plus the buffer are the record stream minus a dropped prefix "
                  "(C23_rotation_contiguous); what a kill leaves is exactly the records written before the most recent "
                  "flush minus that prefix (C23_crash_keeps_flushed); every file is empty or one header followed by records "
                  "(C23_each_file_header); the newest file holds the records since the last rotation "
                  "(C23_newest_since_rotation); the main file is renamed away only at or above fileSize "
                  "(C23_rotate_only_at_size); the records are numbered in writing order, so the retained stretch is a run of "
                  "consecutive distinct records (C23_records_numbered). The model is tied to logging.py by comparing, for real runs, the sequence of "
                  "crash states read back before every intercepted primitive, and by killing forked children.")
    LEVEL_NOTE = ("Trusted: Lean kernel; axioms propext, Classical.choice, Quot.sound; the hand transcription of "
                  "Log.reopen/close/flush/cycle and Logger.log validated only by the correspondence runs; kill tests "
                  "exercise user-space buffers only (no power loss); one log per logger, empty directory at first START.")

    # ---- protocol
    def requests(self, case):
        c = case["cfg"]
        return (["cfg %d %d %d %d %d %d" % (c["keep"], c["cycle"], c["fsize"], c["flush"], 1 if c["reuse"] else 0,
                                            len(HEADER))] + self.model_ops(case) + ["states"])

    def model_ops(self, case):
        """the ops with the exact byte size of every record put in front of the control that writes it"""
        out = []
        stamp = 0
        n = 0
        pad = 0
        status = "stopped"
        for o in case["ops"]:
            w = o.split(" ")
            if w[0] == "adv":
                stamp += int(w[1])
                out.append(o)
            elif w[0] == "pad":
                pad = int(w[1])
            elif w[0] == "ctl":
                writes = (w[1] in ("start", "run")) or (w[1] == "stop" and status != "stopped")
                if writes:
                    line = "%s\tr%d_%s\n" % (repr(stamp / 8.0), n, "x" * pad)
                    out.append("size %d" % len(line))
                    n += 1
                status = {"start": "started", "run": "running", "stop": "stopped"}[w[1]]
                out.append(o)
        return out

    def model_post(self, case, replies):
        return ["states: " + replies[-1], "kills: ok"]

    # ---- implementation adapter
    _n = 0

    def run_real(self, case, root, kill_at=None, snapshots=True):
        """build the logger in `root`, run the history with the primitives intercepted"""
        from ioflo.base import housing, storing, logging, globaling, tasking
        for cls in (housing.House, storing.Store, logging.Logger, logging.Log, tasking.Tasker):
            cls.Clear()
        c = case["cfg"]
        house = housing.House(name="H")
        store = house.store
        logger = logging.Logger(name="L", store=store, prefix=root, reuse=bool(c["reuse"]), keep=c["keep"],
                                cyclePeriod=c["cycle"] / 8.0, fileSize=c["fsize"], flushPeriod=c["flush"] / 8.0)
        share = store.create("s.v")
        share.change(value="init")
        log = logging.Log(name=BASE, store=store, kind="text", baseFilename=BASE, rule=globaling.ALWAYS)
        log.addLoggee(TAG, share, ["value"])
        logger.addLog(log)
        logger.resolve()
        store.changeStamp(0.0)
        # where the files will be
        if c["reuse"]:
            ldir = os.path.join(root, "H", "L")
        else:
            ldir = None
        keep = logger.keep
        state = {"dir": ldir}

        def paths():
            d = state["dir"]
            if d is None:
                hd = os.path.join(root, "H")
                ds = os.listdir(hd) if os.path.isdir(hd) else []
                if not ds:
                    return None
                state["dir"] = d = os.path.join(hd, ds[0])
            return [os.path.join(d, BASE + ".txt")] + [os.path.join(d, "%s%02d.txt" % (BASE, k + 1)) for k in range(keep)]

        rec = Recorder([], kill_at=kill_at, snapshots=snapshots)
        real_ocfn, real_rename, real_fsync = logging.ocfn, os.rename, os.fsync

        def refresh():
            if not rec.paths:
                p = paths()
                if p:
                    rec.paths = p

        def ocfn(path, mode="r+", binary=False):
            refresh()
            if not rec.paths:      # first open: the directory has just been made
                d = os.path.dirname(path)
                state["dir"] = d
                rec.paths = [os.path.join(d, BASE + ".txt")] + [os.path.join(d, "%s%02d.txt" % (BASE, k + 1)) for k in range(keep)]
            rec.event("open", (path, mode))
            return Proxy(real_ocfn(path, mode, binary), rec, path)

        def rename(a, b):
            k = rec.paths.index(a) if a in rec.paths else -1
            rec.event("rename", (k, a))
            return real_rename(a, b)

        def fsync(fd):
            rec.event("fsync")
            return real_fsync(fd)

        real_log_flush = logging.Log.flush

        def log_flush(lg):
            was_open = bool(lg.file) and not lg.file.closed
            r = real_log_flush(lg)
            if was_open:            # Log.flush() has returned: everything written so far counts as flushed
                rec.pending_flush = None
                rec.nf = rec.nw
            return r

        logging.ocfn, os.rename, os.fsync = ocfn, rename, fsync
        logging.Log.flush = log_flush
        try:
            n = 0
            pad = 0
            status = "stopped"
            for o in case["ops"]:
                w = o.split(" ")
                if w[0] == "adv":
                    store.advanceStamp(int(w[1]) / 8.0)
                elif w[0] == "pad":
                    pad = int(w[1])
                elif w[0] == "ctl":
                    writes = (w[1] in ("start", "run")) or (w[1] == "stop" and status != "stopped")
                    if writes:
                        share.change(value="r%d_%s" % (n, "x" * pad))
                        n += 1
                    logger.runner.send({"start": globaling.START, "run": globaling.RUN, "stop": globaling.STOP}[w[1]])
                    status = {"start": "started", "run": "running", "stop": "stopped"}[w[1]]
            rec.finish()
        finally:
            logging.ocfn, os.rename, os.fsync = real_ocfn, real_rename, real_fsync
            logging.Log.flush = real_log_flush
            # finish the runner now (its `finally` closes the files); left to the garbage collector it would
            # call os.fsync in the middle of a later case
            rec.snapshots = False
            rec.kill_at = None
            try:
                logger.runner.close()
            except Exception:
                pass
        return rec, keep

    def kill_run(self, case, k):
        """really kill a child before primitive k; return the files it leaves"""
        CHECK._n += 1
        root = os.path.join(scratch(), "k%d" % CHECK._n)
        os.makedirs(root)
        sys.stdout.flush()
        sys.stderr.flush()
        pid = os.fork()
        if pid == 0:
            try:
                self.run_real(case, root, kill_at=k, snapshots=False)
            finally:
                os._exit(3)
        _, status = os.waitpid(pid, 0)
        try:
            if os.WEXITSTATUS(status) != 0:
                return "child-exit-%d" % os.WEXITSTATUS(status)
            c = case["cfg"]
            hd = os.path.join(root, "H")
            ds = os.listdir(hd) if os.path.isdir(hd) else []
            keep = self._keep
            if not ds:
                return ";".join(["-"] * (keep + 1))
            d = os.path.join(hd, ds[0])
            ps = [os.path.join(d, BASE + ".txt")] + [os.path.join(d, "%s%02d.txt" % (BASE, j + 1)) for j in range(keep)]
            r = Recorder(ps)
            return r.read_state()
        finally:
            shutil.rmtree(root, ignore_errors=True)

    def impl(self, case):
        CHECK._n += 1
        root = os.path.join(scratch(), "c%d" % CHECK._n)
        os.makedirs(root)
        try:
            rec, keep = self.run_real(case, root)
        finally:
            shutil.rmtree(root, ignore_errors=True)
        self._keep = keep
        states = [s[0] if s[0] != "" else ";".join(["-"] * (keep + 1)) for s in rec.snaps]
        # before the directory exists nothing exists
        states = [s if s else ";".join(["-"] * (keep + 1)) for s in states]
        ded = []
        for s in states:
            if not ded or ded[-1] != s:
                ded.append(s)
        self._last = (core.case_key(case), rec, states)
        kills = case.get("kills", [])
        bad = None
        pts = range(len(states)) if kills == "all" else [k for k in kills if k < len(states)]
        for k in pts:
            got = self.kill_run(case, k)
            if got != states[k]:
                bad = "kills: mismatch at primitive %d: killed child left %s, read-back was %s" % (k, got, states[k])
                break
        return ["states: " + " || ".join(ded), bad or "kills: ok"]

    # ---- oracle
    def oracle(self, case, out):
        if not proto_ok(case["ops"]):
            return None            # the property speaks about controls that follow the runner protocol
        if out and out[0].startswith("HARNESS-EXC"):
            return "adapter failed: %s" % out[0]
        last = getattr(self, "_last", None)
        if last is None or last[0] != core.case_key(case):
            self.safe_impl(case)
            last = getattr(self, "_last", None)
            if last is None or last[0] != core.case_key(case):
                return "adapter failed"
        _, rec, states = last
        if len(out) > 1 and out[1] != "kills: ok":
            return out[1]
        fsize = max(0, case["cfg"]["fsize"])
        for k, size in rec.renames:
            if k == 0 and size is not None and fsize and size < fsize:
                return "rotated a main file of %d bytes, threshold %d" % (size, fsize)
        keep = self._keep
        for idx, (st, nw, nf, rot, bounds) in enumerate(rec.snaps):
            if st == "":
                continue
            files = parse_state(st)
            seq = []
            for j in range(len(files) - 1, -1, -1):          # oldest first
                f = files[j]
                if f is None:
                    continue
                if any(t.startswith("?") for t in f):
                    return "crash point %d: file %d holds something that is not a header or a whole record: %s" % (idx, j, f)
                if f:
                    if f[0] != "H":
                        return "crash point %d: file %d does not start with the header: %s" % (idx, j, f[:3])
                    if "H" in f[1:]:
                        return "crash point %d: file %d has a second header" % (idx, j)
                for t in f[1:]:
                    n = int(t[1:t.index(":")])
                    if j > 0 and n >= rot:
                        return "crash point %d: record %d, written after the last rotation, is in copy %d" % (idx, n, j)
                    if j == 0 and n < rot:
                        return "crash point %d: record %d, written before the last rotation, is in the newest file" % (idx, n)
                    seq.append(n)
            for a, b in zip(seq, seq[1:]):
                if b != a + 1:
                    return "crash point %d: records %d then %d read oldest to newest (not contiguous / duplicated): %s" % (idx, a, b, st)
            # nothing flushed may be missing except whole stretches that fell off the oldest copy: the files hold
            # the flushed records from the start of one of the last keep (+1 while a rotation is under way) stretches
            m = len(bounds)
            starts = set()
            for back in (keep, keep - 1):
                if back < 0:
                    continue
                starts.add(bounds[m - back - 1] if m - back - 1 >= 0 else 0)
            if not any(seq == list(range(a, nf)) for a in starts if a <= nf):
                return ("crash point %d: %d records were written before the last flush, rotations after records %s, keep %d; "
                        "the files hold %s: %s" % (idx, nf, list(bounds), keep, seq, st))
            if seq and seq[-1] > nw - 1:
                return "crash point %d: record %d in the files before it was written" % (idx, seq[-1])
        return None

    def nontrivial(self, case, out):
        return "r1:" in out[0]

    def bucket(self, case, out):
        c = case["cfg"]
        rot = out[0].count("-;") > 0
        return "keep%d%s%s%s" % (c["keep"], ",size" if c["fsize"] > 0 else "", ",reuse" if c["reuse"] else "",
                                 ",rotated" if (" || -;" in out[0] and c["keep"] > 0) else "")

    # ---- generators
    def gen_case(self, rng, tier):
        keep = rng.choice([0, 1, 1, 2, 2, 3])
        cfg = {"keep": keep, "cycle": rng.choice([0, 2, 4, 8, 8, 16, 24]), "fsize": rng.choice([0, 0, 40, 60, 90, 150, 300]),
               "flush": rng.choice([0, 8, 8, 12, 16, 32]), "reuse": rng.random() < 0.5}
        ops = []
        if rng.random() < 0.3:
            ops.append("pad %d" % rng.randrange(30))
        ops.append("ctl start")
        started = True
        for t in range(rng.choice([2, 4, 6, 8, 12, 16])):
            r = rng.random()
            if r < 0.8:
                ops.append("adv %d" % rng.choice([1, 2, 4, 4, 8, 8, 12]))
            if rng.random() < 0.2:
                ops.append("pad %d" % rng.randrange(40))
            r = rng.random()
            if started:
                if r < 0.85:
                    ops.append("ctl run")
                elif r < 0.93:
                    ops.append("ctl stop")
                    started = False
            else:
                if r < 0.7:
                    ops.append("ctl start")
                    started = True
        if started and rng.random() < 0.5:
            ops.append("ctl stop")
        case = {"cfg": cfg, "ops": ops}
        return case

    def generate(self, rng, n, tier):
        for i in range(n):
            c = self.gen_case(rng, tier)
            if tier == "thorough":
                c["kills"] = "all" if i % 150 == 0 else ([rng.randrange(60)] if i % 2 == 0 else [])
            else:
                c["kills"] = [rng.randrange(40)] if i % 4 == 0 else []
            yield c

    def exhaustive(self, tier):
        """every configuration of a small grid over a fixed stream with two restarts-free rotations"""
        ops = ["ctl start", "adv 4", "ctl run", "adv 4", "ctl run", "adv 8", "ctl run", "adv 8", "ctl run", "ctl stop"]
        keeps = [0, 1, 2] if tier == "quick" else [0, 1, 2, 3]
        for keep, cycle, fsize, flush, reuse in itertools.product(keeps, [0, 8, 16], [0, 60], [8, 16], [False, True]):
            yield {"cfg": {"keep": keep, "cycle": cycle, "fsize": fsize, "flush": flush, "reuse": reuse}, "ops": ops,
                   "kills": "all" if (keep == 2 and cycle == 8 and flush == 8 and fsize == 0 and reuse
                                      and tier == "thorough") else
                            ([7, 12, 25] if (keep == 2 and cycle == 8 and flush == 8) else [])}

    def search(self, rng, n, tier):
        for i in range(n):
            c = self.gen_case(rng, tier)
            c["kills"] = []
            yield c

    def shrink_candidates(self, case):
        ops = case["ops"]
        for i in range(len(ops)):
            c = dict(case)
            c["ops"] = ops[:i] + ops[i + 1:]
            c["kills"] = []
            if proto_ok(c["ops"]):
                yield c
