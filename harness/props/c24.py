"""C24 — stream transports deliver queued bytes exactly once and in order.

Model:    lean/IofloModel/Model/TxQueue.lean   (serviceTxes/send, serviceReceives/receive of Client, ClientTls,
          Incomer, IncomerTls, serial Driver over DeviceNb / SerialNb; WireLog.writeTx/writeRx)
Theorems: lean/IofloModel/Props/C24.lean
Tie:      one history of operations per case, run on the real classes over scripted socket / fd / pyserial
          doubles and on the Lean driver (engine `txqueue`); after every operation the deque, the receive
          buffer, the cutoff flag and what the double / the wire log saw during that operation are compared.
Oracle:   (independent of the model) on the implementation's lines only: bytes accepted by the double so far
          ++ bytes in the deque == bytes queued so far; wire-log tx records concatenate to the accepted bytes;
          cleared ++ rxbs == bytes returned by recv so far; wire-log rx records concatenate to the same.
"""
import itertools, errno
import core
from props import _wa_doubles as D

KINDS = ["client", "clientTls", "incomer", "incomerTls", "device", "serialNb"]
SERIAL = ("device", "serialNb")
CLIENTS = ("client", "clientTls")


def tok_send(t):
    """case token -> driver token"""
    return t.split(":")[0]


def send_item(kind, t):
    """case token -> scripted answer of the double, realised for this transport kind"""
    head, _, arg = t.partition(":")
    v = int(arg) if arg else 0
    if head[0] == "a":
        return ("acc", int(head[1:]))
    if head == "wb":
        if kind in ("clientTls", "incomerTls"):
            return ("raise", D.tls_want(v))
        if kind in SERIAL:
            return ("raise", D.oserr(errno.EAGAIN))
        return ("raise", D.oserr(D.WOULD[v % 2]))
    if head in ("lost", "fail"):
        return ("raise", D.oserr(v))
    raise ValueError(t)


def recv_item(kind, t):
    if t[0] == "d":
        return ("data", D.unhx(t[1:]))
    return send_item(kind, t)


def parse_wlog(buf, tag, lengths):
    """split a wire-log buffer into the data parts of its records, given how many bytes each record
    must carry (what the double accepted / returned); None if the buffer is not of that shape"""
    out, i = [], 0
    for n in lengths:
        if buf[i:i + 3] != tag + b" ":
            return None
        j = buf.find(b"\n", i)
        if j < 0:
            return None
        chunk = buf[j + 1:j + 1 + n]
        if len(chunk) != n or buf[j + 1 + n:j + 2 + n] != b"\n":
            return None
        out.append(chunk)
        i = j + 2 + n
    return out if i == len(buf) else None


def show(lst, sep):
    return sep.join(D.hx(x) for x in lst) if lst else "."


class Rig:
    """one transport of the given kind over a scripted double"""

    def __init__(self, kind, wlog, bs):
        from ioflo.aio.tcp import clienting, serving
        from ioflo.aio.serial import serialing
        from ioflo.aio import wiring
        from ioflo.base import storing
        self.kind = kind
        self.wl = None
        if wlog and kind not in SERIAL:
            self.wl = wiring.WireLog(buffify=True)
            self.wl.reopen()
        store = storing.Store(stamp=0.0)
        tls = kind in ("clientTls", "incomerTls")
        if kind in SERIAL:
            if kind == "device":
                self.script = D.Script()
                server = serialing.DeviceNb(port="/dev/null", bs=bs)
                server.fd = D.FAKE_FD
            else:
                self.script = D.FakeSerial()
                server = serialing.SerialNb(port="/dev/null", bs=bs)
                server.serial = self.script
            server.opened = True
            self.t = serialing.Driver(server=server)
        else:
            self.script = D.Sock(tls=tls)
            if kind == "incomer":
                self.t = serving.Incomer(ha=("127.0.0.1", 5000), bs=bs, ca=("10.0.0.2", 4000), cs=self.script,
                                         wlog=self.wl, store=store)
            elif kind == "incomerTls":
                self.t = serving.IncomerTls(context=D.Ctx(), ha=("127.0.0.1", 5000), bs=bs, ca=("10.0.0.2", 4000),
                                            cs=self.script, wlog=self.wl, store=store)
            elif kind == "client":
                self.t = clienting.Client(ha=("127.0.0.1", 5001), bufsize=bs, wlog=self.wl, store=store)
                self.t.cs = self.script
                self.t.accepted = True
            else:
                self.t = clienting.ClientTls(context=D.Ctx(), ha=("127.0.0.1", 5001), bufsize=bs, wlog=self.wl,
                                             store=store)
                self.t.cs = self.script
                self.t.accepted = True
                self.t.connected = True

    def live(self):
        if self.kind in SERIAL:
            return self.t.server.opened
        if self.kind in CLIENTS:
            return self.t.connected
        return True

    def set_live(self, b):
        if self.kind in SERIAL:
            self.t.server.opened = b
        elif self.kind in CLIENTS:
            self.t.connected = b

    def do(self, op):
        t, name = self.t, op[0]
        if name == "tx":
            t.tx(D.unhx(op[1]))
        elif name == "feedtx":
            self.script.sends.extend(send_item(self.kind, x) for x in op[1])
        elif name == "feedrx":
            self.script.recvs.extend(recv_item(self.kind, x) for x in op[1])
        elif name == "stx":
            t.serviceTxes()
        elif name == "stx1":
            t.serviceTxOnce()
        elif name == "srx":
            t.serviceReceives()
        elif name == "srx1":
            t.serviceReceiveOnce()
        elif name == "clr":
            t.clearRxbs()
        elif name == "live":
            self.set_live(bool(op[1]))
        else:
            raise ValueError(name)


class CHECK(core.Check):
    PROPERTY = "C24"
    LEAN_MODULES = ["IofloModel.Props.C24"]
    ENGINE = "txqueue"
    N_QUICK = 1500
    N_THOROUGH = 40000
    N_SEARCH = 3000
    RULE = ("a case = transport kind (Client, ClientTls, Incomer, IncomerTls, serial Driver over DeviceNb / SerialNb), "
            "wire log on/off, and a history of tx / feed-socket-answers / serviceTxes / serviceTxOnce / serviceReceives / "
            "serviceReceiveOnce / clearRxbs / connect-disconnect operations. Exhaustive: every send-answer sequence of "
            "length <= L over {accept 0,1,2,3 bytes, would-block, loss, other error} against every queue of <= 2 "
            "messages of <= 3 bytes (and 3 messages of <= 2 bytes), serviced L+1 times (L=2 quick, 4 thorough), "
            "kinds rotated; random: long histories, messages up to 40 bytes, scripts of up to 6 answers per feed. "
            "Non-trivial = at least one byte went through the double and some service call ended with data still "
            "queued (partial send / would-block / loss) or delivered a chunk; distinct by the whole case.")
    TRUSTED = ["correspondence: the real Client/ClientTls/Incomer/IncomerTls/serial Driver objects run in-process over "
               "scripted doubles (socket, ssl context stub whose wrap_socket returns the double, os.write/os.read on a fake "
               "fd, pyserial stand-in) against the Lean driver `txqueue`, operation by operation",
               "the doubles stand for the kernel: a send accepts min(k, len) bytes or raises; TLS record layer, real "
               "sockets and real serial ports are not exercised",
               "WireLog with buffify=True (BytesIO); log files on disk are not exercised"]
    PARTIAL = ["errno classification is abstract in this model (accept / would-block / loss / other); the concrete errno "
               "ladders are property C25",
               "an error other than would-block/loss makes serviceTxes raise after popleft: the message in flight is "
               "dropped (model reproduces it; outside the property's quantifier; C24_in_order_even_with_errors still holds)"]
    TECHNIQUE = ("Lean 4 theorems (loop invariants by induction over the deque / the answer script, histories by "
                 "induction over the operation list) + differential correspondence with scripted socket doubles")
    LEVEL_TEXT = ("Full proof on the model, for all six transports, all operation histories and all scripts of socket "
                  "answers: C24_sent_plus_queue_const (accepted ++ deque = queued), C24_sent_is_prefix, "
                  "C24_no_loss_no_dup_no_reorder (byte i accepted = byte i queued; drained deque => all delivered once), "
                  "C24_in_order_even_with_errors (subsequence even when send raises), C24_wirelog_equals_sent, "
                  "C24_rx_append_in_order (cleared ++ rxbs = bytes returned by recv, wire log likewise), C24_progress and "
                  "C24_progress_delivers (>= 1 byte per call drains the deque in bytes+messages calls), "
                  "C24_would_block_keeps_queue, C24_cutoff_sends_nothing. No _partial theorem.")
    LEVEL_NOTE = ("Trusted: Lean kernel; axioms propext, Quot.sound (Classical.choice if listed in the evidence); the hand "
                  "transcription of the send/receive/service methods, validated only by the correspondence runs; the "
                  "socket/fd/pyserial doubles; CPython deque, bytearray, BytesIO. Not covered: real sockets, TLS records, "
                  "log files on disk, the console logging branches.")

    # ------------------------------------------------------------------ cases
    def exhaustive(self, tier):
        L = 4 if tier == "thorough" else 2
        alphabet = ["a0", "a1", "a2", "a3", "wb:0", "lost:%d" % errno.ECONNRESET, "fail:%d" % errno.EPIPE]
        shapes = []
        for n in (0, 1, 2):
            shapes += list(itertools.product(range(4), repeat=n))
        shapes += list(itertools.product(range(3), repeat=3))
        i = 0
        for shape in shapes:
            msgs, c = [], 1
            for ln in shape:
                msgs.append(bytes(range(c, c + ln)))
                c += ln
            for ln in range(L + 1):
                for seq in itertools.product(alphabet, repeat=ln):
                    kind = KINDS[i % len(KINDS)]
                    i += 1
                    ops = [["tx", D.hx(m)] for m in msgs] + [["feedtx", list(seq)]] + [["stx"]] * (ln + 1)
                    yield {"kind": kind, "wlog": 1, "bs": 8, "ops": ops}

    def _send_tok(self, rng, errs, maxlen):
        x = rng.random()
        if x < 0.55:
            return "a%d" % rng.choice([0, 1, 1, 2, 3, 5, maxlen, maxlen + 3, rng.randrange(maxlen + 2)])
        if x < 0.80 or not errs:
            return "wb:%d" % rng.randrange(2)
        if x < 0.92:
            return "lost:%d" % rng.choice(D.LOSS)
        return "fail:%d" % rng.choice(D.OTHER)

    def _recv_tok(self, rng, errs, bs):
        x = rng.random()
        if x < 0.6:
            n = rng.choice([1, 1, 2, 3, bs, rng.randrange(1, bs + 1)])
            return "d" + bytes(rng.randrange(256) for _ in range(n)).hex()
        if x < 0.8 or not errs:
            return "wb:%d" % rng.randrange(2)
        if x < 0.88:
            return "d-"
        if x < 0.95:
            return "lost:%d" % rng.choice(D.LOSS)
        return "fail:%d" % rng.choice(D.OTHER)

    def generate(self, rng, n, tier):
        for _ in range(n):
            kind = rng.choice(KINDS)
            bs = rng.choice([1, 4, 8, 16, 64])
            errs = rng.random() < 0.45         # loss / other errors allowed in this history?
            maxlen = rng.choice([1, 3, 8, 40])
            nops = rng.choice([4, 8, 16, 40])
            counter = [0]

            def msg():
                ln = rng.choice([0, 1, 2, 3, maxlen, rng.randrange(maxlen + 1)])
                if rng.random() < 0.5:          # distinct bytes make duplication / reordering visible
                    b = bytes((counter[0] + i) % 256 for i in range(ln))
                    counter[0] += ln
                    return b
                return bytes(rng.randrange(256) for _ in range(ln))
            ops = []
            for _ in range(nops):
                x = rng.random()
                if x < 0.25:
                    ops.append(["tx", D.hx(msg())])
                elif x < 0.45:
                    ops.append(["feedtx", [self._send_tok(rng, errs, maxlen) for _ in range(rng.randrange(1, 7))]])
                elif x < 0.65:
                    ops.append(["stx"])
                elif x < 0.70:
                    ops.append(["stx1"] if kind in SERIAL else ["stx"])
                elif x < 0.80:
                    ops.append(["feedrx", [self._recv_tok(rng, errs, bs) for _ in range(rng.randrange(1, 6))]])
                elif x < 0.90:
                    ops.append(["srx"])
                elif x < 0.94:
                    ops.append(["srx1"])
                elif x < 0.97:
                    ops.append(["clr"])
                elif kind not in ("incomer", "incomerTls"):
                    ops.append(["live", rng.randrange(2)])
                else:
                    ops.append(["stx"])
            yield {"kind": kind, "wlog": rng.randrange(2), "bs": bs, "ops": ops}

    # ------------------------------------------------------------------ both sides
    def requests(self, case):
        out = ["reset %s %d" % (case["kind"], 1 if case["wlog"] else 0)]
        for op in case["ops"]:
            if op[0] == "tx":
                out.append("tx " + op[1])
            elif op[0] in ("feedtx", "feedrx"):
                out.append(" ".join([op[0]] + [tok_send(t) for t in op[1]]))
            elif op[0] == "live":
                out.append("live %d" % op[1])
            else:
                out.append(op[0])
        return out

    def impl(self, case):
        rig = Rig(case["kind"], case["wlog"], case["bs"])
        sc = rig.script
        lines = ["ok"]
        wtx_off = wrx_off = 0
        ctx = D.patched_os(sc) if case["kind"] == "device" else None
        if ctx:
            ctx.__enter__()
        try:
            for op in case["ops"]:
                s0, r0, ns0, nr0 = len(sc.sent), len(sc.recvd), len(sc.send_log), len(sc.recv_log)
                status = "ok"
                try:
                    rig.do(op)
                except OSError:
                    status = "raised"
                except Exception as ex:       # not an error of the transport's contract: show its class
                    status = "ERR-" + type(ex).__name__
                t = rig.t
                cut = 0 if case["kind"] in SERIAL else int(bool(t.cutoff))
                dw = dwr = "."
                if rig.wl is not None:
                    tx_buf, rx_buf = rig.wl.getTx() or b"", rig.wl.getRx() or b""
                    lens = [c for (_, c) in sc.send_log[ns0:] if isinstance(c, int) and c > 0]
                    recs = parse_wlog(tx_buf[wtx_off:], b"TX", lens)
                    dw = "MALFORMED:" + D.hx(tx_buf[wtx_off:]) if recs is None else show(recs, "|")
                    wtx_off = len(tx_buf)
                    lens = [len(c) for c in sc.recv_log[nr0:] if isinstance(c, bytes) and c]
                    recs = parse_wlog(rx_buf[wrx_off:], b"RX", lens)
                    dwr = "MALFORMED:" + D.hx(rx_buf[wrx_off:]) if recs is None else show(recs, "|")
                    wrx_off = len(rx_buf)
                lines.append("%s q=%s rx=%s cut=%d live=%d ds=%s dw=%s dr=%s dwr=%s" % (
                    status, show(list(t.txes), ","), D.hx(t.rxbs), cut, int(bool(rig.live())),
                    D.hx(sc.sent[s0:]), dw, D.hx(sc.recvd[r0:]), dwr))
        finally:
            if ctx:
                ctx.__exit__(None, None, None)
        return lines

    # ------------------------------------------------------------------ property, stated on the implementation
    @staticmethod
    def _fields(line):
        parts = line.split()
        d = dict(p.split("=", 1) for p in parts[1:])
        d["status"] = parts[0]
        return d

    @staticmethod
    def _cat(s, sep):
        if s == ".":
            return []
        return [D.unhx(x) for x in s.split(sep)]

    def _benign(self, case, which="feedtx"):
        """inside the property's quantifier: no socket answer that makes send (or recv) raise"""
        for op in case["ops"]:
            if op[0] == which:
                for t in op[1]:
                    if t.startswith("fail") or (t.startswith("lost") and case["kind"] in SERIAL):
                        return False
        return True

    def oracle(self, case, out):
        if len(out) != len(case["ops"]) + 1 or out[0] != "ok":
            return "implementation adapter produced %d lines for %d ops: %s" % (len(out), len(case["ops"]), out[:2])
        benign = self._benign(case)
        quiet = benign and self._benign(case, "feedrx")
        logs = bool(case["wlog"]) and case["kind"] not in SERIAL
        queued = sent = recvd = taken = wtx = wrx = b""
        prev_rx = b""
        for i, (op, line) in enumerate(zip(case["ops"], out[1:])):
            if line.startswith("HARNESS-EXC"):
                return "op %d %s: %s" % (i, op[0], line)
            f = self._fields(line)
            if op[0] == "tx":
                queued += D.unhx(op[1])
            if op[0] == "clr":
                taken += prev_rx
            sent += D.unhx(f["ds"])
            recvd += D.unhx(f["dr"])
            q = b"".join(self._cat(f["q"], ","))
            rx = D.unhx(f["rx"])
            prev_rx = rx
            if f["dw"].startswith("MALFORMED") or f["dwr"].startswith("MALFORMED"):
                return "op %d %s: wire log is not one record per accepted/returned chunk: %s %s" % (i, op[0], f["dw"][:60], f["dwr"][:60])
            dw, dwr = self._cat(f["dw"], "|"), self._cat(f["dwr"], "|")
            if any(len(c) == 0 for c in dw + dwr):
                return "op %d %s: empty wire-log record" % (i, op[0])
            wtx += b"".join(dw)
            wrx += b"".join(dwr)
            if quiet and f["status"] != "ok":
                return "op %d %s raised although no socket answer was an error" % (i, op[0])
            if benign:
                if sent + q != queued:
                    return ("op %d %s: accepted ++ deque != queued: accepted=%s deque=%s queued=%s"
                            % (i, op[0], sent.hex(), q.hex(), queued.hex()))
            else:
                # errors may drop the message in flight, but never duplicate or reorder
                it = iter(queued)
                if not all(b in it for b in sent + q):
                    return "op %d %s: accepted ++ deque is not a subsequence of queued" % (i, op[0])
            if logs and wtx != sent:
                return "op %d %s: wire log tx records %s != accepted bytes %s" % (i, op[0], wtx.hex(), sent.hex())
            if not logs and (wtx or wrx):
                return "op %d %s: wire log written without a wire log" % (i, op[0])
            if taken + rx != recvd:
                return ("op %d %s: cleared ++ rxbs != bytes returned by recv: cleared=%s rxbs=%s returned=%s"
                        % (i, op[0], taken.hex(), rx.hex(), recvd.hex()))
            if logs and wrx != recvd:
                return "op %d %s: wire log rx records %s != received bytes %s" % (i, op[0], wrx.hex(), recvd.hex())
        return None

    def nontrivial(self, case, out):
        moved = left = False
        for op, line in zip(case["ops"], out[1:]):
            if " ds=" not in line:
                return False
            f = self._fields(line)
            if f["ds"] != "-" or f["dr"] != "-":
                moved = True
            if op[0] in ("stx", "stx1") and f["q"] != "." and f["ds"] != "-":
                left = True
            if op[0] in ("srx", "srx1") and f["dr"] != "-":
                left = True
        return moved and left

    def bucket(self, case, out):
        toks = [t for op in case["ops"] if op[0] in ("feedtx", "feedrx") for t in op[1]]
        cls = "errors" if any(t.startswith(("lost", "fail")) for t in toks) else \
              "blocking" if any(t.startswith("wb") for t in toks) else "plain"
        raised = any(l.startswith("raised") for l in out)
        return "%s/%s%s" % (case["kind"], cls, "/raised" if raised else "")

    def shrink_candidates(self, case):
        ops = case["ops"]
        for i in range(len(ops)):
            c = dict(case)
            c["ops"] = ops[:i] + ops[i + 1:]
            yield c
        for i, op in enumerate(ops):
            if op[0] in ("feedtx", "feedrx") and len(op[1]) > 1:
                for j in range(len(op[1])):
                    c = dict(case)
                    c["ops"] = ops[:i] + [[op[0], op[1][:j] + op[1][j + 1:]]] + ops[i + 1:]
                    yield c
            if op[0] == "tx" and op[1] != "-" and len(op[1]) > 2:
                c = dict(case)
                c["ops"] = ops[:i] + [["tx", op[1][:-2]]] + ops[i + 1:]
                yield c
