"""C24 — stream transports deliver queued bytes exactly once and in order.

Model:    lean/IofloModel/Model/TxQueue.lean   (serviceTxes/send, serviceReceives/receive of Client, ClientTls,
          Incomer, IncomerTls, serial Driver over DeviceNb / SerialNb; WireLog.writeTx/writeRx)
Theorems: lean/IofloModel/Props/C24.lean
Tie:      one history of operations per case, run on the real classes over scripted socket / fd / pyserial
          doubles and on the Lean driver (engine `txqueue`); after every operation the deque, the receive
          buffer, the cutoff flag and what the double / the wire log saw during that operation are compared.
Oracle:   (independent of the model) on the implementation's lines only: bytes accepted by the double so far
          ++ bytes in the deque == bytes queued so far; wire-log tx records concatenate to the accepted bytes;
          cleared ++ rxbs == bytes returned by recv so far; wire-log rx records concatenate to the same.
"""
import itertools, errno
from collections import deque
import core
from props import _wa_doubles as D

KINDS = ["client", "clientTls", "incomer", "incomerTls", "device", "serialNb"]
SERIAL = ("device", "serialNb")
CLIENTS = ("client", "clientTls")


def tok_send(t):
    """case token -> driver token"""
    return t.split(":")[0]


def send_item(kind, t):
    """case token -> scripted answer of the double, realised for this transport kind"""
    head, _, arg = t.partition(":")
    if arg == "eof":       # TLS EOF on a TLS transport (a connection loss by the property text); a reset elsewhere
        import ssl
        if kind in ("clientTls", "incomerTls"):
            return ("raise", ssl.SSLEOFError(ssl.SSL_ERROR_EOF, "EOF occurred in violation of protocol"))
        return ("raise", D.oserr(errno.ECONNRESET))
    v = int(arg) if arg else 0
    if head[0] == "a":
        return ("acc", int(head[1:]))
    if head == "wb":
        if kind in ("clientTls", "incomerTls"):
            return ("raise", D.tls_want(v))
        if kind in SERIAL:
            return ("raise", D.oserr(errno.EAGAIN))
        return ("raise", D.oserr(D.WOULD[v % 2]))
    if head in ("lost", "fail"):
        return ("raise", D.oserr(v))
    raise ValueError(t)


def recv_item(kind, t):
    if t[0] == "d":
        return ("data", D.unhx(t[1:]))
    return send_item(kind, t)


def parse_wlog(buf, tag, lengths):
    """split a wire-log buffer into the data parts of its records, given how many bytes each record
    must carry (what the double accepted / returned); None if the buffer is not of that shape"""
    out, i = [], 0
    for n in lengths:
        if buf[i:i + 3] != tag + b" ":
            return None
        j = buf.find(b"\n", i)
        if j < 0:
            return None
        chunk = buf[j + 1:j + 1 + n]
        if len(chunk) != n or buf[j + 1 + n:j + 2 + n] != b"\n":
            return None
        out.append(chunk)
        i = j + 2 + n
    return out if i == len(buf) else None


def show(lst, sep):
    return sep.join(D.hx(x) for x in lst) if lst else "."


def real_msg(index, n):
    """deterministic content of the index-th message of a real-socket case"""
    return bytes((index * 31 + j * 7 + (j >> 8)) % 251 for j in range(n))


def classify_token(ex):
    """a real OSError -> the abstract answer token it stands for (would-block / loss / other)"""
    code = ex.errno if ex.errno is not None else -1
    if code in D.WOULD:
        return "wb:0"
    if code in D.LOSS:
        return "lost:%d" % code
    return "fail:%d" % code


class RealMixin:
    """answers come from a real kernel object instead of a script; every answer is recorded as the token that a
    scripted double would need to reproduce it"""

    def attach(self, real, via_fd=False):
        self.real, self.via_fd = real, via_fd
        self.tokens_tx, self.tokens_rx = [], []

    def do_send(self, data):
        data = bytes(data)
        try:
            n = D.REAL_OS_WRITE(self.real.fileno(), data) if self.via_fd else self.real.send(data)
        except OSError as ex:
            self.tokens_tx.append(classify_token(ex))
            self.send_log.append((data, ex))
            raise
        self.tokens_tx.append("a%d" % n)
        self.sent += data[:n]
        self.send_log.append((data, n))
        return n

    def do_recv(self, bs):
        try:
            chunk = D.REAL_OS_READ(self.real.fileno(), bs) if self.via_fd else self.real.recv(bs)
        except OSError as ex:
            self.tokens_rx.append(classify_token(ex))
            self.recv_log.append(ex)
            raise
        self.tokens_rx.append("d" + D.hx(chunk))
        self.recvd += chunk
        self.recv_log.append(chunk)
        return chunk


class RealSock(RealMixin, D.Sock):
    pass


class RealFd(RealMixin, D.Script):
    pass


def supplied_or(rig, name):
    return rig.supplied.get(name, getattr(rig.t, name))


class Rig:
    """one transport of the given kind over a scripted double"""

    def __init__(self, kind, wlog, bs, script=None, ptype=0, own=0):
        self.ptype = ptype
        self.msgs = []                    # (object handed to tx(), its bytes at that moment)
        # own=1: the caller supplies the buffers (Client(txes=..., rxbs=...), as TcpClientStack and the http layer do)
        supplied = dict(txes=deque(), rxbs=bytearray()) if own and kind in CLIENTS else {}
        self.supplied = supplied
        from ioflo.aio.tcp import clienting, serving
        from ioflo.aio.serial import serialing
        from ioflo.aio import wiring
        from ioflo.base import storing
        self.kind = kind
        self.wl = None
        if wlog and kind not in SERIAL:
            self.wl = wiring.WireLog(buffify=True)
            self.wl.reopen()
        store = storing.Store(stamp=0.0)
        tls = kind in ("clientTls", "incomerTls")
        if kind in SERIAL:
            if kind == "device":
                self.script = script or D.Script()
                server = serialing.DeviceNb(port="/dev/null", bs=bs)
                server.fd = D.FAKE_FD
            else:
                self.script = script or D.FakeSerial()
                server = serialing.SerialNb(port="/dev/null", bs=bs)
                server.serial = self.script
            server.opened = True
            self.t = serialing.Driver(server=server)
        else:
            self.script = script or D.Sock(tls=tls)
            if kind == "incomer":
                self.t = serving.Incomer(ha=("127.0.0.1", 5000), bs=bs, ca=("10.0.0.2", 4000), cs=self.script,
                                         wlog=self.wl, store=store)
            elif kind == "incomerTls":
                self.t = serving.IncomerTls(context=D.Ctx(), ha=("127.0.0.1", 5000), bs=bs, ca=("10.0.0.2", 4000),
                                            cs=self.script, wlog=self.wl, store=store)
            elif kind == "client":
                self.t = clienting.Client(ha=("127.0.0.1", 5001), bufsize=bs, wlog=self.wl, store=store, **supplied)
                self.t.cs = self.script
                self.t.accepted = True
            else:
                self.t = clienting.ClientTls(context=D.Ctx(), ha=("127.0.0.1", 5001), bufsize=bs, wlog=self.wl,
                                             store=store, **supplied)
                self.t.cs = self.script
                self.t.accepted = True
                self.t.connected = True

    def refs(self):
        """the buffers as the caller holds them: the objects handed to the constructor, else the ones the transport
        made at construction (the http layer keeps such references: Requestant(msg=incomer.rxbs))"""
        if not hasattr(self, "_refs"):
            self._refs = (supplied_or(self, "txes"), supplied_or(self, "rxbs"))
        return self._refs

    def live(self):
        if self.kind in SERIAL:
            return self.t.server.opened
        if self.kind in CLIENTS:
            return self.t.connected
        return True

    def set_live(self, b):
        if self.kind in SERIAL:
            self.t.server.opened = b
        elif self.kind in CLIENTS:
            self.t.connected = b

    def do(self, op):
        t, name = self.t, op[0]
        if name == "tx":
            data = D.unhx(op[1])
            # tx() is handed bytes, a bytearray or a memoryview of the same bytes; the caller keeps the object
            obj = data if self.ptype == 0 else bytearray(data) if self.ptype == 1 else memoryview(data)
            self.msgs.append((obj, data))
            t.tx(obj)
        elif name == "txagain":
            # the very same message object is queued once more (it may still be in the deque)
            if self.msgs:
                t.tx(self.msgs[op[1] % len(self.msgs)][0])
        elif name == "feedtx":
            self.script.sends.extend(send_item(self.kind, x) for x in op[1])
        elif name == "feedrx":
            self.script.recvs.extend(recv_item(self.kind, x) for x in op[1])
        elif name == "stx":
            t.serviceTxes()
        elif name == "stx1":
            t.serviceTxOnce()
        elif name == "srx":
            t.serviceReceives()
        elif name == "srx1":
            t.serviceReceiveOnce()
        elif name == "clr":
            t.clearRxbs()
        elif name == "cat":
            self.ret = t.catRxbs()
        elif name == "live":
            self.set_live(bool(op[1]))
        else:
            raise ValueError(name)


class CHECK(core.Check):
    PROPERTY = "C24"
    LEAN_MODULES = ["IofloModel.Props.C24"]
    ENGINE = "txqueue"
    N_QUICK = 1500
    N_THOROUGH = 40000
    N_SEARCH = 3000
    RULE = ("a case = transport kind (Client, ClientTls, Incomer, IncomerTls, serial Driver over DeviceNb / SerialNb), "
            "wire log on/off, and a history of tx / feed-socket-answers / serviceTxes / serviceTxOnce / serviceReceives / "
            "serviceReceiveOnce / clearRxbs / connect-disconnect operations. Exhaustive: every send-answer sequence of "
            "length <= L over {accept 0,1,2,3 bytes, would-block, loss, other error} against every queue of <= 2 "
            "messages of <= 3 bytes (and 3 messages of <= 2 bytes), serviced L+1 times (L=2 quick, 4 thorough), "
            "kinds, console verbosity (mute .. profuse) and payload type (bytes / bytearray / memoryview) rotated; random: long histories, messages up to 40 bytes, scripts of up to 6 answers per feed. "
            "Non-trivial = at least one byte went through the double and some service call ended with data still "
            "queued (partial send / would-block / loss) or delivered a chunk; distinct by the whole case. Clients are "
            "built with caller-supplied txes / rxbs on half of the cases and every buffer is observed through the reference "
            "its owner holds (identity of .rxbs / .txes is part of the compared state); the caller keeps every message "
            "object it handed to tx() (bytes / bytearray / memoryview), queues the same object again (`txagain`) and "
            "re-reads all of them after every operation - they must be unchanged; every interleaving of <= 4 (quick) / "
            "5 (thorough) arrivals, receives, clearRxbs and catRxbs is enumerated. The exhaustive transmit cases and 30% of "
            "the random ones end with a drain tail (the socket accepts everything, one service call per answer fed): the "
            "deque must be empty afterwards unless the transport was cut off / disconnected / raised. About 2% of the "
            "random cases run Incomer / Client / DeviceNb over a REAL non-blocking socketpair (send buffer 2304 bytes, "
            "messages up to 12 kB, the harness plays the peer): the kernel's answers are recorded and replayed through "
            "the model, and what the peer received is compared with what was queued.")
    TRUSTED = ["correspondence: the real Client/ClientTls/Incomer/IncomerTls/serial Driver objects run in-process over "
               "scripted doubles (socket, ssl context stub whose wrap_socket returns the double, os.write/os.read on a fake "
               "fd, pyserial stand-in) against the Lean driver `txqueue`, operation by operation",
               "the doubles stand for the kernel: a send accepts min(k, len) bytes or raises; TLS record layer, real "
               "sockets and real serial ports are not exercised",
               "WireLog with buffify=True (BytesIO); log files on disk are not exercised",
               "the console runs at every verbosity from mute to profuse with its output discarded (the logging statements "
               "format the payload, so they are code on the data path); memoryview payloads only below profuse, because the "
               "profuse message of the code as it is calls .decode() on the payload",
               "real-socket cases use AF_UNIX socketpairs (partial sends, EAGAIN, EPIPE, EOF from a real kernel); TCP "
               "loopback, TLS and real serial hardware are not exercised"]
    PARTIAL = ["errno classification is abstract in this model (accept / would-block / loss / other); the concrete errno "
               "ladders are property C25",
               "an error other than would-block/loss makes serviceTxes raise after popleft: the message in flight is "
               "dropped (model reproduces it; outside the property's quantifier; C24_in_order_even_with_errors still holds)"]
    TECHNIQUE = ("Lean 4 theorems (loop invariants by induction over the deque / the answer script, histories by "
                 "induction over the operation list) + differential correspondence with scripted socket doubles")
    LEVEL_TEXT = ("Full proof on the model, for all six transports, all operation histories and all scripts of socket "
                  "answers: C24_sent_plus_queue_const (accepted ++ deque = queued), C24_sent_is_prefix, "
                  "C24_no_loss_no_dup_no_reorder (byte i accepted = byte i queued; drained deque => all delivered once), "
                  "C24_in_order_even_with_errors (subsequence even when send raises), C24_wirelog_equals_sent, "
                  "C24_rx_append_in_order (cleared ++ rxbs = bytes returned by recv, wire log likewise), C24_progress and "
                  "C24_progress_delivers (>= 1 byte per call drains the deque in bytes+messages calls), "
                  "C24_would_block_keeps_queue, C24_cutoff_sends_nothing. No _partial theorem.")
    LEVEL_NOTE = ("Trusted: Lean kernel; axioms propext, Quot.sound (Classical.choice if listed in the evidence); the hand "
                  "transcription of the send/receive/service methods, validated only by the correspondence runs; the "
                  "socket/fd/pyserial doubles; CPython deque, bytearray, BytesIO. Not covered: real sockets, TLS records, "
                  "log files on disk, the console logging branches.")

    # ------------------------------------------------------------------ cases
    def exhaustive(self, tier):
        L = 4 if tier == "thorough" else 2
        alphabet = ["a0", "a1", "a2", "a3", "wb:0", "lost:%d" % errno.ECONNRESET, "fail:%d" % errno.EPIPE]
        shapes = []
        for n in (0, 1, 2):
            shapes += list(itertools.product(range(4), repeat=n))
        shapes += list(itertools.product(range(3), repeat=3))
        i = 0
        for shape in shapes:
            msgs, c = [], 1
            for ln in shape:
                msgs.append(bytes(range(c, c + ln)))
                c += ln
            for ln in range(L + 1):
                for seq in itertools.product(alphabet, repeat=ln):
                    kind = KINDS[i % len(KINDS)]
                    i += 1
                    ops = [["tx", D.hx(m)] for m in msgs] + [["feedtx", list(seq)]] + [["stx"]] * (ln + 1)
                    nd = ln + len(msgs) + 2
                    ops += [["feedtx", ["a9"] * nd]] + [["stx"]] * nd                  # drain tail (progress)
                    verb = (i // len(KINDS)) % 5
                    ptype = (i // (5 * len(KINDS))) % 3
                    if ptype == 2 and verb == 4:
                        ptype = 1        # the profuse console message calls .decode() on the payload: no memoryview there
                    yield {"kind": kind, "wlog": 1, "bs": 8, "verb": verb, "ptype": ptype, "own": (i // 7) % 2,
                           "drain": 1, "ops": ops}
        # the same message object queued twice (and once more after a service call), partial sends at every cut
        for mlen in (1, 2, 3):
            m = bytes(range(1, mlen + 1))
            for ln in range(1, (4 if tier == "thorough" else 3) + 1):
                for seq in itertools.product(["a0", "a1", "a2", "a3", "wb:0"], repeat=ln):
                    kind = KINDS[i % len(KINDS)]
                    i += 1
                    nd = ln + 5
                    ops = ([["tx", D.hx(m)], ["txagain", 0], ["feedtx", list(seq)]] + [["stx"]] * ln + [["txagain", 0]] +
                           [["feedtx", ["a9"] * nd]] + [["stx"]] * nd)
                    yield {"kind": kind, "wlog": i % 2, "bs": 8, "verb": i % 5, "ptype": (i // 6) % 3 if i % 5 != 4 else 1,
                           "own": (i // 3) % 2, "drain": 1, "ops": ops}
        # receive side: every interleaving of arrivals, receives, clearRxbs and catRxbs, on buffers the caller supplied
        # (clients) or holds a reference to (incomers)
        ralpha = [["feedrx", ["d01"]], ["feedrx", ["d0203", "d04"]], ["srx"], ["srx1"], ["clr"], ["cat"]]
        for n in range(1, (5 if tier == "thorough" else 4) + 1):
            for seq in itertools.product(ralpha, repeat=n):
                if not any(o[0] in ("clr", "cat") for o in seq):
                    continue
                kind = ["client", "clientTls", "incomer", "incomerTls"][i % 4]
                i += 1
                yield {"kind": kind, "wlog": i % 2, "bs": 8, "verb": i % 5, "ptype": 0, "own": (i // 4) % 2,
                       "ops": [list(o) for o in seq] + [["feedrx", ["d09"]], ["srx"]]}

    def _send_tok(self, rng, errs, maxlen):
        x = rng.random()
        if x < 0.55:
            return "a%d" % rng.choice([0, 1, 1, 2, 3, 5, maxlen, maxlen + 3, rng.randrange(maxlen + 2)])
        if x < 0.80 or not errs:
            return "wb:%d" % rng.randrange(2)
        if x < 0.92:
            return "lost:%s" % rng.choice(D.LOSS + ["eof"])
        return "fail:%d" % rng.choice(D.OTHER)

    def _recv_tok(self, rng, errs, bs):
        x = rng.random()
        if x < 0.6:
            n = rng.choice([1, 1, 2, 3, bs, rng.randrange(1, bs + 1)])
            return "d" + bytes(rng.randrange(256) for _ in range(n)).hex()
        if x < 0.8 or not errs:
            return "wb:%d" % rng.randrange(2)
        if x < 0.88:
            return "d-"
        if x < 0.95:
            return "lost:%s" % rng.choice(D.LOSS + ["eof"])
        return "fail:%d" % rng.choice(D.OTHER)

    def _real_case(self, rng):
        """a schedule over a real socketpair: messages larger than the send buffer force partial sends and EAGAIN"""
        ops = []
        kind = rng.choice(["incomer", "client", "device"])
        for _ in range(rng.choice([6, 10, 16])):
            x = rng.random()
            if x < 0.25:
                ops.append(["txn", rng.choice([1, 100, 3000, 6000, 6000, 12000])])
            elif x < 0.50:
                ops.append(["stx"])
            elif x < 0.65:
                ops.append(["peerread", rng.choice([1, 500, 4096, 65536])])
            elif x < 0.78:
                ops.append(["peerwrite", rng.choice([1, 50, 700, 3000])])
            elif x < 0.92:
                ops.append(["srx" if rng.random() < 0.8 else "srx1"])
            elif x < 0.96:
                ops.append(["clr"] if rng.random() < 0.4 or kind == "device" else ["cat"])
            else:
                ops.append(["peerclose"])
        ops += [["stx"], ["srx"]]
        return {"real": 1, "kind": kind, "own": rng.randrange(2), "wlog": rng.randrange(2),
                "bs": rng.choice([64, 1024]), "sndbuf": 2304, "verb": rng.choice([0, 2, 4]), "ptype": rng.randrange(2),
                "ops": ops}

    def generate(self, rng, n, tier):
        for _ in range(n):
            if rng.random() < 0.02:
                yield self._real_case(rng)
                continue
            kind = rng.choice(KINDS)
            bs = rng.choice([1, 4, 8, 16, 64])
            errs = rng.random() < 0.45         # loss / other errors allowed in this history?
            maxlen = rng.choice([1, 3, 8, 40])
            nops = rng.choice([4, 8, 16, 40])
            counter = [0]

            def msg():
                ln = rng.choice([0, 1, 2, 3, maxlen, rng.randrange(maxlen + 1)])
                if rng.random() < 0.5:          # distinct bytes make duplication / reordering visible
                    b = bytes((counter[0] + i) % 256 for i in range(ln))
                    counter[0] += ln
                    return b
                return bytes(rng.randrange(256) for _ in range(ln))
            ops = []
            for _ in range(nops):
                x = rng.random()
                if x < 0.05:
                    ops.append(["txagain", rng.randrange(8)])
                elif x < 0.25:
                    ops.append(["tx", D.hx(msg())])
                elif x < 0.45:
                    ops.append(["feedtx", [self._send_tok(rng, errs, maxlen) for _ in range(rng.randrange(1, 7))]])
                elif x < 0.65:
                    ops.append(["stx"])
                elif x < 0.70:
                    ops.append(["stx1"] if kind in SERIAL else ["stx"])
                elif x < 0.80:
                    ops.append(["feedrx", [self._recv_tok(rng, errs, bs) for _ in range(rng.randrange(1, 6))]])
                elif x < 0.90:
                    ops.append(["srx"])
                elif x < 0.94:
                    ops.append(["srx1"])
                elif x < 0.97:
                    ops.append(["clr"] if kind in SERIAL or rng.random() < 0.5 else ["cat"])
                elif kind not in ("incomer", "incomerTls"):
                    ops.append(["live", rng.randrange(2)])
                else:
                    ops.append(["stx"])
            drain = int(rng.random() < 0.3)
            if drain:     # progress: once the socket takes every byte offered, enough service calls empty the deque
                nd = sum(len(op[1]) for op in ops if op[0] == "feedtx") + sum(1 for op in ops if op[0] in ("tx", "txagain")) + 2
                ops += [["feedtx", ["a100000"] * nd]] + [["stx"]] * nd
            verb = rng.randrange(5)
            ptype = rng.choice([0, 0, 1, 2]) if verb < 4 else rng.randrange(2)
            yield {"kind": kind, "wlog": rng.randrange(2), "bs": bs, "verb": verb, "ptype": ptype,
                   "own": rng.randrange(2), "drain": drain, "ops": ops}

    # ------------------------------------------------------------------ both sides
    def requests(self, case):
        case = self.equiv(case)
        out = ["reset %s %d" % (case["kind"], 1 if case["wlog"] else 0)]
        queued = []
        for op in case["ops"]:
            if op[0] == "tx":
                queued.append(op[1])
                out.append("tx " + op[1])
            elif op[0] == "txagain":
                # queueing the same object again is, for the model, queueing the same bytes again
                out.append("tx " + queued[op[1] % len(queued)] if queued else "feedtx")
            elif op[0] in ("feedtx", "feedrx"):
                out.append(" ".join([op[0]] + [tok_send(t) for t in op[1]]))
            elif op[0] == "live":
                out.append("live %d" % op[1])
            else:
                out.append(op[0])
        return out

    class Runner:
        """executes operations on a rig and renders the canonical line after each"""

        def __init__(self, rig):
            self.rig, self.wtx_off, self.wrx_off = rig, 0, 0

        def run(self, op):
            rig, sc = self.rig, self.rig.script
            rig.refs()                       # taken before the first operation
            s0, r0, ns0, nr0 = len(sc.sent), len(sc.recvd), len(sc.send_log), len(sc.recv_log)
            status = "ok"
            try:
                if op is not None:
                    rig.do(op)
            except OSError:
                status = "raised"
            except Exception as ex:       # not an error of the transport's contract: show its class
                status = "ERR-" + type(ex).__name__
            t = rig.t
            cut = 0 if rig.kind in SERIAL else int(bool(t.cutoff))
            dw = dwr = "."
            if rig.wl is not None:
                tx_buf, rx_buf = rig.wl.getTx() or b"", rig.wl.getRx() or b""
                lens = [c for (_, c) in sc.send_log[ns0:] if isinstance(c, int) and c > 0]
                recs = parse_wlog(tx_buf[self.wtx_off:], b"TX", lens)
                dw = "MALFORMED:" + D.hx(tx_buf[self.wtx_off:]) if recs is None else show(recs, "|")
                self.wtx_off = len(tx_buf)
                lens = [len(c) for c in sc.recv_log[nr0:] if isinstance(c, bytes) and c]
                recs = parse_wlog(rx_buf[self.wrx_off:], b"RX", lens)
                dwr = "MALFORMED:" + D.hx(rx_buf[self.wrx_off:]) if recs is None else show(recs, "|")
                self.wrx_off = len(rx_buf)
            txref, rxref = rig.refs()
            line = "%s q=%s rx=%s cut=%d live=%d ds=%s dw=%s dr=%s dwr=%s id=%d" % (
                status, show(list(txref), ","), D.hx(rxref), cut, int(bool(rig.live())),
                D.hx(sc.sent[s0:]), dw, D.hx(sc.recvd[r0:]), dwr, int(t.rxbs is rxref and t.txes is txref))
            # the caller's message objects must still read as they did when they were queued
            changed = [str(i) for i, (obj, was) in enumerate(rig.msgs) if bytes(obj) != was]
            line += " mut=" + (",".join(changed) or "-")
            if op is not None and op[0] == "cat" and status == "ok":
                line += " ret=" + D.hx(rig.ret)
            return line

    def model_post(self, case, replies):
        # in the model a queued message is a value: it cannot change under the caller (`mut=-`)
        replies = [r.replace(" id=1", " id=1 mut=-", 1) if " id=1" in r else r for r in replies]
        return replies + ["e2e ok"] if case.get("real") else replies

    def impl(self, case):
        if case.get("real"):
            return self._impl_real(case)
        rig = Rig(case["kind"], case["wlog"], case["bs"], ptype=case.get("ptype", 0), own=case.get("own", 0))
        runner = self.Runner(rig)
        lines = ["ok"]
        ctx = D.patched_os(rig.script) if case["kind"] == "device" else None
        if ctx:
            ctx.__enter__()
        try:
            with D.console_at(case.get("verb", 0)):
                for op in case["ops"]:
                    lines.append(runner.run(op))
        finally:
            if ctx:
                ctx.__exit__(None, None, None)
        return lines

    # ------------------------------------------------------------------ real kernel objects instead of scripts
    _equiv = {}

    def equiv(self, case):
        """the scripted case that a real-socket case turned out to be (recorded while it ran)"""
        if not case.get("real"):
            return case
        key = core.case_key(case)
        if key not in self._equiv:
            self._impl_real(case)
        return self._equiv[key]

    def _impl_real(self, case):
        """The transport runs over one end of a real non-blocking socketpair with a small send buffer (or over its
        file descriptor through os.write/os.read for the serial DeviceNb); the harness plays the peer on the other
        end.  Every answer of the kernel is recorded as the token a scripted double needs to reproduce it, so the
        run is also an ordinary scripted case (`equiv`) that the Lean model is asked to predict."""
        import socket
        kind = case["kind"]
        try:
            a, b = socket.socketpair()
        except OSError:                          # no socketpair here: extra evidence only, never a verdict
            self._equiv[core.case_key(case)] = {"kind": kind, "wlog": case["wlog"], "bs": case["bs"], "ops": []}
            return ["ok", "e2e ok"]
        try:
            for sk in (a, b):
                sk.setblocking(False)
                sk.setsockopt(socket.SOL_SOCKET, socket.SO_SNDBUF, case.get("sndbuf", 2304))
            proxy = RealFd() if kind == "device" else RealSock()
            proxy.attach(a, via_fd=(kind == "device"))
            rig = Rig(kind, case["wlog"], case["bs"], script=proxy, ptype=case.get("ptype", 0), own=case.get("own", 0))
            runner = self.Runner(rig)
            lines, eops = ["ok"], []
            queued, peer_rx, peer_tx, nmsg, nchunk = b"", b"", b"", 0, 0
            ctx = D.patched_os(proxy) if kind == "device" else None
            if ctx:
                ctx.__enter__()
            vctx = D.console_at(case.get("verb", 0))
            vctx.__enter__()
            try:
                for op in case["ops"]:
                    name = op[0]
                    if name == "txn":
                        m = real_msg(nmsg, op[1])
                        nmsg += 1
                        queued += m
                        eops.append(["tx", D.hx(m)])
                        lines.append(runner.run(eops[-1]))
                    elif name in ("stx", "stx1", "srx", "srx1", "clr", "cat"):
                        nt, nr = len(proxy.tokens_tx), len(proxy.tokens_rx)
                        line = runner.run([name])
                        for feed, toks in (("feedtx", proxy.tokens_tx[nt:]), ("feedrx", proxy.tokens_rx[nr:])):
                            if toks:            # what the kernel answered during this call, fed to the script first
                                eops.append([feed, list(toks)])
                                lines.append(lines[-1] if len(lines) > 1 else None)
                        eops.append([name])
                        lines.append(line)
                    elif name == "peerread":
                        try:
                            peer_rx += b.recv(op[1])
                        except OSError:
                            pass
                    elif name == "peerwrite":
                        m = real_msg(1000 + nchunk, op[1])
                        nchunk += 1
                        try:
                            k = b.send(m)
                            peer_tx += m[:k]
                        except OSError:
                            pass
                    elif name == "peerclose":
                        b.close()
                    else:
                        raise KeyError(name)
            finally:
                vctx.__exit__(None, None, None)
                if ctx:
                    ctx.__exit__(None, None, None)
            # a feed line repeats the previous state with nothing moved
            fixed = []
            for ln, op in zip(lines[1:], eops):
                if op[0] in ("feedtx", "feedrx"):
                    prev = fixed[-1] if fixed else "ok q=. rx=- cut=0 live=1 ds=- dw=. dr=- dwr=. id=1 mut=-"
                    f = self._fields(prev)
                    ln = "ok q=%s rx=%s cut=%s live=%s ds=- dw=. dr=- dwr=. id=%s mut=%s" % (
                        f["q"], f["rx"], f["cut"], f["live"], f["id"], f["mut"])
                fixed.append(ln)
            # end to end: what the peer got is what was queued, what the transport buffered is what the peer sent
            try:
                while b.fileno() >= 0:
                    chunk = b.recv(65536)
                    if not chunk:
                        break
                    peer_rx += chunk
            except OSError:
                pass
            e2e = "e2e ok"
            if peer_rx != queued[:len(peer_rx)]:
                e2e = "e2e FAIL peer received bytes that are not a prefix of what was queued"
            elif b.fileno() >= 0 and peer_rx != bytes(proxy.sent):
                e2e = "e2e FAIL peer received %d bytes, socket accepted %d" % (len(peer_rx), len(proxy.sent))
            elif bytes(proxy.recvd) != peer_tx[:len(proxy.recvd)]:
                e2e = "e2e FAIL transport received bytes the peer did not send in that order"
            self._equiv[core.case_key(case)] = {"kind": kind, "wlog": case["wlog"], "bs": case["bs"], "ops": eops}
            return ["ok"] + fixed + [e2e]
        finally:
            a.close()
            if b.fileno() >= 0:
                b.close()

    # ------------------------------------------------------------------ property, stated on the implementation
    @staticmethod
    def _fields(line):
        parts = line.split()
        d = dict(p.split("=", 1) for p in parts[1:])
        d["status"] = parts[0]
        return d

    @staticmethod
    def _cat(s, sep):
        if s == ".":
            return []
        return [D.unhx(x) for x in s.split(sep)]

    def _benign(self, case, which="feedtx"):
        """inside the property's quantifier: no socket answer that makes send (or recv) raise"""
        for op in case["ops"]:
            if op[0] == which:
                for t in op[1]:
                    if t.startswith("fail") or (t.startswith("lost") and case["kind"] in SERIAL):
                        return False
        return True

    def oracle(self, case, out):
        if case.get("real"):
            if not out or not out[-1].startswith("e2e"):
                return "real-socket adapter: %s" % out[-1:]
            if out[-1] != "e2e ok":
                return out[-1]
            case, out = self.equiv(case), out[:-1]
        if len(out) != len(case["ops"]) + 1 or out[0] != "ok":
            return "implementation adapter produced %d lines for %d ops: %s" % (len(out), len(case["ops"]), out[:2])
        benign = self._benign(case)
        quiet = benign and self._benign(case, "feedrx")
        logs = bool(case["wlog"]) and case["kind"] not in SERIAL
        queued = sent = recvd = taken = wtx = wrx = b""
        msgs = []
        prev_rx = b""
        for i, (op, line) in enumerate(zip(case["ops"], out[1:])):
            if line.startswith("HARNESS-EXC"):
                return "op %d %s: %s" % (i, op[0], line)
            f = self._fields(line)
            if op[0] == "tx":
                queued += D.unhx(op[1])
                msgs.append(D.unhx(op[1]))
            if op[0] == "txagain" and msgs:
                queued += msgs[op[1] % len(msgs)]
            if f.get("mut", "-") != "-":
                return ("op %d %s: message object(s) %s handed to tx() no longer read as when they were queued (the "
                        "transport modified the caller's buffer)" % (i, op[0], f["mut"]))
            if op[0] in ("clr", "cat"):
                taken += prev_rx
            if f.get("id") != "1":
                return ("op %d %s: the transport no longer works on the buffer object its owner holds (.rxbs / .txes was "
                        "rebound): received chunks are not appended to the receive buffer" % (i, op[0]))
            if op[0] == "cat" and f["status"] == "ok" and D.unhx(f.get("ret", "-")) != prev_rx:
                return "op %d cat: catRxbs returned %s, the buffer held %s" % (i, f.get("ret"), prev_rx.hex())
            sent += D.unhx(f["ds"])
            recvd += D.unhx(f["dr"])
            q = b"".join(self._cat(f["q"], ","))
            rx = D.unhx(f["rx"])
            prev_rx = rx
            if f["dw"].startswith("MALFORMED") or f["dwr"].startswith("MALFORMED"):
                return "op %d %s: wire log is not one record per accepted/returned chunk: %s %s" % (i, op[0], f["dw"][:60], f["dwr"][:60])
            dw, dwr = self._cat(f["dw"], "|"), self._cat(f["dwr"], "|")
            if any(len(c) == 0 for c in dw + dwr):
                return "op %d %s: empty wire-log record" % (i, op[0])
            wtx += b"".join(dw)
            wrx += b"".join(dwr)
            if quiet and f["status"] != "ok":
                return "op %d %s raised although no socket answer was an error" % (i, op[0])
            if benign:
                if sent + q != queued:
                    return ("op %d %s: accepted ++ deque != queued: accepted=%s deque=%s queued=%s"
                            % (i, op[0], sent.hex(), q.hex(), queued.hex()))
            else:
                # errors may drop the message in flight, but never duplicate or reorder
                it = iter(queued)
                if not all(b in it for b in sent + q):
                    return "op %d %s: accepted ++ deque is not a subsequence of queued" % (i, op[0])
            if logs and wtx != sent:
                return "op %d %s: wire log tx records %s != accepted bytes %s" % (i, op[0], wtx.hex(), sent.hex())
            if not logs and (wtx or wrx):
                return "op %d %s: wire log written without a wire log" % (i, op[0])
            if taken + rx != recvd:
                return ("op %d %s: cleared ++ rxbs != bytes returned by recv: cleared=%s rxbs=%s returned=%s"
                        % (i, op[0], taken.hex(), rx.hex(), recvd.hex()))
            if logs and wrx != recvd:
                return "op %d %s: wire log rx records %s != received bytes %s" % (i, op[0], wrx.hex(), recvd.hex())
        m = self._drain_tail(case["ops"])
        if m and benign:
            f = self._fields(out[-1])
            if f["cut"] == "0" and f["live"] == "1" and f["q"] != ".":
                return ("progress: the socket accepted every byte offered during the last %d service calls, yet %s is "
                        "still queued" % (m, f["q"][:60]))
        return None

    @staticmethod
    def _drain_tail(ops):
        """number of trailing serviceTxes calls if the history ends with a drain tail - an all-accepting feed large
        enough for every message ever queued, then enough service calls to get past every answer fed earlier - else 0"""
        m = 0
        while m < len(ops) and ops[len(ops) - 1 - m] == ["stx"]:
            m += 1
        if m == 0 or m == len(ops):
            return 0
        feed, before = ops[len(ops) - 1 - m], ops[:len(ops) - 1 - m]
        if feed[0] != "feedtx":
            return 0
        longest = max([len(D.unhx(op[1])) for op in before if op[0] == "tx"] + [1])
        if not all(t[0] == "a" and int(t[1:]) >= longest for t in feed[1]):
            return 0
        fed = sum(len(op[1]) for op in before if op[0] == "feedtx")
        msgs = sum(1 for op in before if op[0] in ("tx", "txagain"))
        return m if len(feed[1]) >= msgs and m >= fed + 1 else 0

    def nontrivial(self, case, out):
        if case.get("real"):
            case, out = self.equiv(case), out[:-1]
        moved = left = False
        for op, line in zip(case["ops"], out[1:]):
            if " ds=" not in line:
                return False
            f = self._fields(line)
            if f["ds"] != "-" or f["dr"] != "-":
                moved = True
            if op[0] in ("stx", "stx1") and f["q"] != "." and f["ds"] != "-":
                left = True
            if op[0] in ("srx", "srx1") and f["dr"] != "-":
                left = True
        return moved and left

    def bucket(self, case, out):
        real = "real-" if case.get("real") else ""
        if real:
            case, out = self.equiv(case), out[:-1]
        toks = [t for op in case["ops"] if op[0] in ("feedtx", "feedrx") for t in op[1]]
        cls = "errors" if any(t.startswith(("lost", "fail")) for t in toks) else \
              "blocking" if any(t.startswith("wb") for t in toks) else "plain"
        raised = any(l.startswith("raised") for l in out)
        return "%s%s/%s%s/v%d%s" % (real, case["kind"], cls, "/raised" if raised else "", case.get("verb", 0),
                                    "bbm"[case.get("ptype", 0)])

    def shrink_candidates(self, case):
        ops = case["ops"]
        for i in range(len(ops)):
            c = dict(case)
            c["ops"] = ops[:i] + ops[i + 1:]
            yield c
        if case.get("real"):
            return
        for i, op in enumerate(ops):
            if op[0] in ("feedtx", "feedrx") and len(op[1]) > 1:
                for j in range(len(op[1])):
                    c = dict(case)
                    c["ops"] = ops[:i] + [[op[0], op[1][:j] + op[1][j + 1:]]] + ops[i + 1:]
                    yield c
            if op[0] == "tx" and op[1] != "-" and len(op[1]) > 2:
                c = dict(case)
                c["ops"] = ops[:i] + [["tx", op[1][:-2]]] + ops[i + 1:]
                yield c
