"""C25 — transport errors are classified: connection loss cuts off, others raise.

Model:    lean/IofloModel/Model/Errno.lean  (the except-ladders of receive/send/handshake/accept/connect of the TCP
          transports, of SocketUdpNb and of GramStack), version `fixed2` = with fixes/D13-*, D26-* and D26b-*.patch
Theorems: lean/IofloModel/Props/C25.lean
Tie:      one (site, exception class, args[0], cutoff-before) per case: a scripted double raises exactly that exception
          out of the socket call of the real method; return value, cutoff flag, socket-still-open and whether an
          exception left the method are compared with the Lean driver (engine `errno`).
Oracle:   (independent of the model) the three clauses of the property computed from Python's own errno / ssl names.
"""
import errno, ssl, socket, types, os, itertools
from collections import deque
import core
from props import _wa_doubles as D

# which version of the model the tree is compared with: "fixed" = D13 + D26, "fixed2" = also D26b
MODEL = os.environ.get("WA_C25_MODEL", "fixed2")

DATA = ["clientRecv", "clientSend", "clientTlsRecv", "clientTlsSend",
        "incomerRecv", "incomerSend", "incomerTlsRecv", "incomerTlsSend"]
HANDSHAKE = ["clientTlsHandshake", "incomerTlsHandshake"]
OTHERS = ["acceptorAccept", "udpRecv", "udpSend", "gramSend", "gramRecv"]
SITES = DATA + HANDSHAKE + OTHERS
TLS = [s for s in SITES if "Tls" in s]
CLASSES = ["osError", "sslError", "sslWantRead", "sslWantWrite", "sslEof", "sslZeroReturn", "notOs"]
SSL_CODE = {"sslWantRead": ssl.SSL_ERROR_WANT_READ, "sslWantWrite": ssl.SSL_ERROR_WANT_WRITE,
            "sslEof": ssl.SSL_ERROR_EOF, "sslZeroReturn": ssl.SSL_ERROR_ZERO_RETURN}
CONSTS = ["EAGAIN", "EWOULDBLOCK", "ECONNRESET", "ENETRESET", "ENETUNREACH", "EHOSTUNREACH", "ENETDOWN", "EHOSTDOWN",
          "ETIMEDOUT", "ECONNREFUSED", "ETIME", "ECONNABORTED", "EISCONN", "EINVAL",
          "SSL_ERROR_WANT_READ", "SSL_ERROR_WANT_WRITE", "SSL_ERROR_ZERO_RETURN", "SSL_ERROR_EOF"]
INTERESTING = sorted(set(D.LOSS + D.WOULD + D.OTHER + [0, 1, 2, 3, 4, 5, 6, 7, 8, 9, 10, 12, errno.ETIME, errno.EISCONN,
                                                          errno.EINPROGRESS, errno.EALREADY, 99, 135, 200, 1000]))


def make_exc(cls, n):
    if cls == "osError":
        return OSError(n, "errno %d" % n)
    if cls == "sslError":
        return ssl.SSLError(n, "ssl error %d" % n)
    if cls == "sslWantRead":
        return ssl.SSLWantReadError(n, "want read")
    if cls == "sslWantWrite":
        return ssl.SSLWantWriteError(n, "want write")
    if cls == "sslEof":
        return ssl.SSLEOFError(n, "EOF occurred in violation of protocol")
    if cls == "sslZeroReturn":
        return ssl.SSLZeroReturnError(n, "TLS/SSL connection has been closed (EOF)")
    return ValueError(n)


class ListenSock:
    def __init__(self, exc):
        self.exc, self.closed = exc, False

    def accept(self):
        raise self.exc

    def close(self):
        self.closed = True

    def shutdown(self, how):
        pass


class UdpSock:
    def __init__(self, exc):
        self.exc, self.closed = exc, False

    def recvfrom(self, bs):
        raise self.exc

    def sendto(self, data, da):
        raise self.exc

    def close(self):
        self.closed = True


def show(v):
    if v is None:
        return "None"
    if isinstance(v, bool):
        return "True" if v else "False"
    if isinstance(v, int):
        return str(v)
    if isinstance(v, (bytes, bytearray)):
        return "b'%s'" % bytes(v).hex()
    if isinstance(v, tuple):
        return "(" + ",".join(show(x) for x in v) + ")"
    return type(v).__name__


def well_formed(site, cls, n):
    """exceptions as CPython's socket / ssl modules build them"""
    if cls in SSL_CODE and n != SSL_CODE[cls]:
        return False
    if cls == "sslError" and (n > 10 or n in SSL_CODE.values()):
        return False
    if cls.startswith("ssl") and site not in TLS:
        return False
    return True


class Rec:
    """a real socket whose failing calls are recorded (the exception the kernel really produced)"""

    def __init__(self, real):
        self._real, self.exc, self.codes = real, None, []

    def __getattr__(self, name):
        return getattr(self._real, name)

    def _call(self, name, *a):
        try:
            return getattr(self._real, name)(*a)
        except Exception as ex:
            self.exc = ex
            raise

    def recv(self, *a):
        return self._call("recv", *a)

    def send(self, *a):
        return self._call("send", *a)

    def recvfrom(self, *a):
        return self._call("recvfrom", *a)

    def sendto(self, *a):
        return self._call("sendto", *a)

    def connect_ex(self, *a):
        code = self._real.connect_ex(*a)
        self.codes.append(code)
        return code


REAL_SCENARIOS = ["client-reset-recv", "client-reset-send", "client-epipe-send", "incomer-reset-recv",
                  "incomer-reset-send", "gram-refused-recv", "gram-refused-send", "connect-refused"]


def real_scenario(name):
    """Provoke a real error on loopback and push it through the real method.
    Returns (equivalent scripted case or None, observation line)."""
    import socket, struct, time, types
    from ioflo.aio.tcp import clienting, serving
    from ioflo.aio.udp import udping
    from ioflo.aio.proto import stacking
    from ioflo.base import storing
    store = storing.Store(stamp=0.0)

    def rst(sock):
        sock.setsockopt(socket.SOL_SOCKET, socket.SO_LINGER, struct.pack("ii", 1, 0))
        sock.close()

    def dead_port(kind):
        tmp = socket.socket(socket.AF_INET, kind)
        tmp.bind(("127.0.0.1", 0))
        ha = tmp.getsockname()
        tmp.close()
        return ha

    cleanup = []
    try:
        if name.startswith(("client-", "incomer-")):
            ls = socket.socket()
            cleanup.append(ls)
            ls.bind(("127.0.0.1", 0))
            ls.listen(1)
            far = socket.socket()
            cleanup.append(far)
            far.connect(ls.getsockname())
            near, ca = ls.accept()
            cleanup.append(near)
            near.setblocking(False)
            rec = Rec(near)
            if name.startswith("client-"):
                t = clienting.Client(ha=far.getsockname(), bufsize=1024, store=store)
                t.cs = rec
                t.accepted = True
                site = "client"
            else:
                t = serving.Incomer(ha=near.getsockname(), bs=1024, ca=ca, cs=rec, store=store)
                site = "incomer"
            rst(far)                       # close with linger 0: the peer sends RST
            time.sleep(0.02)
            op = name.split("-", 1)[1]
            if op == "epipe-send":         # the reset is consumed by a receive; the next send hits a dead socket
                t.receive()
                t.cutoff = False
                rec.exc = None
            site += "Recv" if op == "reset-recv" else "Send"
            raised, ret = False, None
            t.store.stamp = 3.0
            tm0 = (t.timer.start, t.timer.stop)
            try:
                ret = t.receive() if op == "reset-recv" else t.send(b"abc")
            except OSError:
                raised = True
            obs = "ret=%s cut=%d open=%d tmr=%s" % ("raised" if raised else show(ret), int(bool(t.cutoff)),
                                                   int(t.cs is not None),
                                                   "same" if (t.timer.start, t.timer.stop) == tm0 else "moved")
        elif name.startswith("gram-"):
            h = udping.SocketUdpNb(ha=("127.0.0.1", 0))
            h.reopen()
            cleanup.append(h)
            dead = dead_port(socket.SOCK_DGRAM)
            h.ss.connect(dead)             # a connected UDP socket is told about ICMP port-unreachable
            h.ss.send(b"ping")
            time.sleep(0.02)
            rec = Rec(h.ss)
            h.ss = rec
            h2 = h
            h2.reopen_real, h2.reopen = h2.reopen, (lambda: True)
            stack = stacking.GramStack(handler=h2)
            raised, ret = False, None
            try:
                if name == "gram-refused-recv":
                    site = "gramRecv"
                    ret = show(stack._serviceOneReceived())
                else:
                    site = "gramSend"
                    pkt = types.SimpleNamespace(packed=b"abc")
                    stack.txPkts.append((pkt, dead))
                    stack.serviceTxPkts()
                    ret = "kept" if list(stack.txPkts) == [(pkt, dead)] else "gone"
            except OSError:
                raised = True
            obs = "ret=%s cut=0 open=%d" % ("raised" if raised else ret, int(h.ss is not None))
        else:                              # connect-refused
            dead = dead_port(socket.SOCK_STREAM)
            c = clienting.Client(ha=dead, bufsize=1024, store=store)
            c.reopen()
            rec = Rec(c.cs)
            c.cs = rec
            first = rec
            ok = None
            for _ in range(50):
                ok = c.accept()
                if c.cs is not first or ok:
                    break
                time.sleep(0.002)
            reopened = c.cs is not first
            c.close()
            try:
                first._real.close()
            except OSError:
                pass
            code = rec.codes[-1] if rec.codes else None
            if code is None:
                return None, "real-skip"
            return {"connect": code}, ("accepted" if ok else "reopenRetry" if reopened else "retry")
        if rec.exc is None:
            return None, "real-skip"
        return {"site": site, "cls": "osError", "arg0": rec.exc.args[0], "cut": 0}, obs
    finally:
        for x in cleanup:
            try:
                x.close()
            except Exception:
                pass


GRAM_ENTRIES = ["serviceTxPkts", "serviceTxPktsOnce", "serviceAllTx", "serviceAllTxOnce", "serviceAll"]


class ScriptedUdp:
    """UDP socket double: every sendto takes its answer from a script (None = sent); nothing to receive"""

    def __init__(self, script):
        self.script, self.sent, self.closed = deque(script), [], False

    def sendto(self, data, da):
        ans = self.script.popleft() if self.script else None
        if ans is not None:
            raise make_exc(*ans)
        self.sent.append((bytes(data), da))
        return len(data)

    def recvfrom(self, bs):
        raise D.oserr(errno.EAGAIN)

    def close(self):
        self.closed = True


def gram_service(entry, pkts, script):
    """queue `pkts` on a GramStack over a SocketUdpNb whose socket is a double, call one transmit entry point"""
    from ioflo.aio.proto import stacking
    from ioflo.aio.udp import udping
    handler = udping.SocketUdpNb(ha=("127.0.0.1", 0))
    handler.reopen = lambda: True
    stack = stacking.GramStack(handler=handler)
    sock = ScriptedUdp(script)
    handler.ss, handler.opened = sock, True
    for pid, dest in pkts:
        stack.txPkts.append((types.SimpleNamespace(packed=bytes([pid])), ("10.0.0.%d" % dest, 4000 + dest)))
    status = "ok"
    try:
        getattr(stack, entry)()
    except OSError:
        status = "raised"
    except Exception as ex:
        status = "ERR-" + type(ex).__name__
    fmt = lambda items: ",".join("%d:%d" % (data[0], da[1] - 4000) for data, da in items) or "."
    return "%s sent=%s q=%s" % (status, fmt(sock.sent), fmt([(p.packed, da) for p, da in stack.txPkts]))


def gram_passes(entries, pkts, script):
    """several service passes on one GramStack; per pass: status, packets sent in it, queue after it, and how many
    scripted sendto answers were left when it began"""
    from ioflo.aio.proto import stacking
    from ioflo.aio.udp import udping
    handler = udping.SocketUdpNb(ha=("127.0.0.1", 0))
    handler.reopen = lambda: True
    stack = stacking.GramStack(handler=handler)
    sock = ScriptedUdp(script)
    handler.ss, handler.opened = sock, True
    for pid, dest in pkts:
        stack.txPkts.append((types.SimpleNamespace(packed=bytes([pid])), ("10.0.0.%d" % dest, 4000 + dest)))
    fmt = lambda items: ",".join("%d:%d" % (data[0], da[1] - 4000) for data, da in items) or "."
    out = []
    for entry in entries:
        n0, left = len(sock.sent), len(sock.script)
        status = "ok"
        try:
            getattr(stack, entry)()
        except OSError:
            status = "raised"
        except Exception as ex:
            status = "ERR-" + type(ex).__name__
        out.append("%s sent=%s q=%s left=%d" % (status, fmt(sock.sent[n0:]),
                                               fmt([(p.packed, da) for p, da in stack.txPkts]), left))
    return " ; ".join(out)


def client_session(tls, ops):
    """a Client / ClientTls through close / re-open cycles; every connection gets a fresh socket double, and each
    receive / send is attributed to the double whose recv / send was really called"""
    from ioflo.aio.tcp import clienting
    from ioflo.base import storing
    store = storing.Store(stamp=0.0)
    if tls:
        t = clienting.ClientTls(context=D.Ctx(), ha=("127.0.0.1", 5001), bufsize=16, store=store)
    else:
        t = clienting.Client(ha=("127.0.0.1", 5001), bufsize=16, store=store)
    socks, out = [], []
    calls = lambda: [len(k.recv_log) + len(k.send_log) for k in socks]
    for op in ops:
        if op[0] == "reopen":
            t.reopen()                               # close() + open(): a real, unconnected socket ...
            t.cs.close()
            k = D.Sock(tls=bool(tls))                # ... replaced by the double this connection runs on
            k.connect_ex = lambda ha: 0
            k.handshakes.append(("ok",))
            socks.append(k)
            t.cs = k
            t.connect()
            out.append("opened:%d" % (len(socks) - 1) if t.connected else "ERR not connected")
        elif op[0] == "close":
            t.close()
            out.append("closed")
        else:
            is_send, ans = op[0] == "s", op[1]
            cur = socks[-1] if socks else None
            if cur is not None and not cur.closed:
                item = ("raise", make_exc(*ans)) if ans is not None else (("acc", 2) if is_send else ("data", b"xy"))
                (cur.sends if is_send else cur.recvs).append(item)
            before = calls()
            try:
                ret = t.send(b"ab") if is_send else t.receive()
                raised = None
            except OSError as ex:
                ret, raised = None, ex
            except AttributeError:
                out.append("nosock")
                continue
            except Exception as ex:
                out.append("ERR-" + type(ex).__name__)
                continue
            hit = [i for i, (a, b) in enumerate(zip(before, calls())) if b > a]
            k = hit[0] if len(hit) == 1 else -1
            if ans is None and raised is None and ret in (2, b"xy"):
                out.append("done:%d" % k)
            else:
                out.append("cls:%d:%s:%d" % (k, "raised" if raised is not None else show(ret), int(bool(t.cutoff))))
            if cur is not None:                      # answers are per call
                cur.sends.clear()
                cur.recvs.clear()
    if socks or True:
        try:
            t.close()
        except Exception:
            pass
    return " ; ".join(out) or "."


class CHECK(core.Check):
    PROPERTY = "C25"
    LEAN_MODULES = ["IofloModel.Props.C25"]
    ENGINE = "errno"
    N_QUICK = 1500
    N_THOROUGH = 30000
    N_SEARCH = 3000
    RULE = ("a case = (site, exception class, args[0], cutoff flag before): site in the 8 receive/send methods of "
            "Client/ClientTls/Incomer/IncomerTls, the 2 TLS handshakes, Acceptor.accept, SocketUdpNb.receive/send, "
            "GramStack send/receive; class in OSError, SSLError, SSLWantRead, SSLWantWrite, SSLEOF, SSLZeroReturn, "
            "non-OSError; plus Client.accept over connect_ex result codes and the errno/SSL constants. Exhaustive: all "
            "sites x classes x cutoff x args[0] in a list of ~45 errnos (quick) / every value 0..135 (thorough); random: "
            "args[0] up to 2^31. Non-trivial = the exception is one CPython can build (class/code consistent) and the "
            "site is not the bare SocketUdpNb.send; distinct by the whole case. Plus 8 scenarios on REAL loopback sockets "
            "(TCP reset seen by receive and by send on Client and Incomer, EPIPE after a reset, ICMP port-unreachable on a "
            "connected UDP socket under GramStack receive and send, connect_ex to a dead port): the exception the kernel "
            "produced is recorded and classified by the model, the observed outcome compared. Plus the datagram stack's five "
            "transmit entry points (serviceTxPkts, serviceTxPktsOnce, serviceAllTx, serviceAllTxOnce, serviceAll) over every "
            "queue of <= 3 packets to 2 destinations and every script of <= 2 (quick) / 3 (thorough) sendto answers "
            "(sent, two transient errnos, one fatal), and random longer ones: packets sent and packets still queued compared; "
            "every pair of passes on one stack (error on one pass, recovery on the next); Client and ClientTls through "
            "every history of <= 3 (quick) / 4 (thorough) receive / send / close / re-open steps with reset, would-block, "
            "EPIPE and success answers, each call attributed to the socket double that really served it.")
    TRUSTED = ["correspondence: the real methods run in-process over doubles whose socket call raises the scripted exception; "
               "ssl context stub whose wrap_socket returns the double; GramStack over a SocketUdpNb whose .ss is a double",
               "errno values are Linux's; the model's constants are compared with Python's errno/ssl modules on every run",
               "exceptions are built with args = (code, text) as CPython's socket and ssl modules do (args[0] == errno); the "
               "real-loopback scenarios check this convention and the errno values against a live kernel"]
    PARTIAL = ["C25_loss_cuts_off_partial: loss clause proved for receive/send; the TLS handshake closes the socket and "
               "re-raises on connection loss / TLS EOF (finding D26c, C25_counterexample_handshake)",
               "model = repaired ladders (fixes/D13-gramstack-receive-transient-in.patch, fixes/D26-tls-eof-cutoff.patch, "
               "fixes/D26b-tls-wouldblock-needs-sslerror.patch); on a tree without them TLS EOF, GramStack receive errors and "
               "OSError(2|3) on TLS transports are VIOLATIONs (C25_D26_orig_*, C25_D13_orig_*, C25_D26b_orig_*)",
               "EAGAIN out of sendto is re-raised by SocketUdpNb.send / GramStack (no would-block branch): modelled, outside "
               "the property's stream-transport clause"]
    TECHNIQUE = ("Lean 4 theorems over the whole errno universe (Nat) by list-membership reasoning and finite case "
                 "analysis over sites/classes + differential correspondence with exception-raising doubles")
    LEVEL_TEXT = ("Proved on the model for every errno n : Nat and every exception class: C25_loss_cuts_off_partial (all 8 "
                  "receive/send ladders: loss errno or TLS EOF => cutoff, empty/0 returned, no raise), "
                  "C25_would_block_no_state_change (all sites with a would-block branch, both versions), "
                  "C25_other_raises (full, all eight ladders), C25_plain_exact (cutoff iff errno in the loss set; would-block iff EAGAIN; raise "
                  "otherwise), C25_handshake_other_closes_and_raises, C25_gram_transient_retry (send and receive), "
                  "C25_gram_other_raises, C25_connect_classified, C25_fix_changes_nothing_else, and the as-found behaviour "
                  "C25_D26_orig_reraises_tls_eof, C25_D13_orig_receive_fatal, C25_D26b_orig_swallows_oserror. Counterexample to "
                  "the full loss statement: C25_counterexample_handshake (D26c).")
    LEVEL_NOTE = ("Trusted: Lean kernel; axioms propext, Quot.sound (Classical.choice if listed); the transcription of the "
                  "ladders, validated by the correspondence runs over all sites x classes x errnos 0..135; the doubles. Not "
                  "covered: which errors real kernels / OpenSSL actually produce; console logging branches.")

    # ------------------------------------------------------------------ cases
    def exhaustive(self, tier):
        for name in REAL_SCENARIOS:
            for rep in range(3 if tier == "thorough" else 1):
                yield {"real": name, "rep": rep}
        for name in CONSTS:
            yield {"const": name}
        # every transmit entry point of the datagram stack, every small queue, every short script of sendto answers
        answers = [None, ["osError", errno.ECONNREFUSED], ["osError", errno.EHOSTUNREACH], ["osError", errno.EPIPE]]
        queues = [[[i + 1, d] for i, d in enumerate(ds)] for n in (1, 2, 3) for ds in itertools.product((7, 8), repeat=n)]
        for entry in GRAM_ENTRIES:
            for q in queues:
                for n in range(0, (3 if tier == "thorough" else 2) + 1):
                    for sc in itertools.product(answers, repeat=n):
                        yield {"gram": entry, "pkts": q, "script": [a for a in sc]}
        # several passes on one stack: an error on one pass, recovery expected on a later one
        ans2 = [None, ["osError", errno.ECONNREFUSED], ["osError", errno.EPIPE]]
        for passes in itertools.product(GRAM_ENTRIES, repeat=2):
            for q in queues:
                for n in range(0, (3 if tier == "thorough" else 1) + 1):
                    for sc in itertools.product(ans2, repeat=n):
                        yield {"gramseq": list(passes), "pkts": q, "script": [a for a in sc]}
        # clients through close / re-open cycles
        sops = [["reopen"], ["close"], ["r", None], ["s", None], ["r", ["osError", errno.ECONNRESET]],
                ["s", ["osError", errno.EAGAIN]], ["s", ["osError", errno.EPIPE]]]
        for tls in (0, 1):
            wb = ["s", ["sslWantWrite", ssl.SSL_ERROR_WANT_WRITE]] if tls else ["s", ["osError", errno.EAGAIN]]
            alpha = [o if o[0] != "s" or o[1] is None or o[1][1] != errno.EAGAIN else wb for o in sops]
            for n in range(1, (4 if tier == "thorough" else 3) + 1):
                for seq in itertools.product(alpha, repeat=n):
                    yield {"sess": tls, "ops": [["reopen"]] + [list(o) for o in seq]}
        codes = range(0, 136) if tier == "thorough" else INTERESTING
        for code in codes:
            yield {"connect": code}
        for site in SITES:
            for cls in CLASSES:
                for n in codes:
                    for cut in (0, 1):
                        yield {"site": site, "cls": cls, "arg0": n, "cut": cut}

    def generate(self, rng, n, tier):
        for _ in range(n):
            x = rng.random()
            if x < 0.03:
                yield {"connect": rng.choice([0, errno.EISCONN, errno.EINVAL, errno.ECONNREFUSED, errno.EINPROGRESS,
                                              rng.randrange(200)])}
                continue
            if x < 0.05:
                n = rng.randrange(1, 6)
                yield {"gramseq": [rng.choice(GRAM_ENTRIES) for _ in range(rng.randrange(2, 6))],
                       "pkts": [[i + 1, rng.choice([7, 8, 9])] for i in range(n)],
                       "script": [rng.choice([None, ["osError", rng.choice(D.LOSS)], ["osError", rng.choice(D.LOSS)],
                                              ["osError", rng.choice(D.OTHER)]]) for _ in range(rng.randrange(0, n + 2))]}
                continue
            if x < 0.10:
                n = rng.randrange(1, 7)
                yield {"gram": rng.choice(GRAM_ENTRIES),
                       "pkts": [[i + 1, rng.choice([7, 8, 9])] for i in range(n)],
                       "script": [rng.choice([None, None, ["osError", rng.choice(D.LOSS + [errno.ETIME])],
                                              ["osError", rng.choice(D.OTHER + D.WOULD)]])
                                  for _ in range(rng.randrange(0, n + 2))]}
                continue
            site = rng.choice(SITES)
            cls = rng.choice(CLASSES + ["osError"] * 5)
            y = rng.random()
            if cls in SSL_CODE and y < 0.7:
                a = SSL_CODE[cls]
            elif y < 0.35:
                a = rng.choice(D.LOSS)
            elif y < 0.5:
                a = rng.choice(D.WOULD + [2, 3, 6, 8])
            elif y < 0.9:
                a = rng.randrange(0, 140)
            else:
                a = rng.randrange(0, 2 ** 31)
            yield {"site": site, "cls": cls, "arg0": a, "cut": rng.randrange(2)}

    _equiv = {}

    def equiv(self, case):
        """the scripted case a real-loopback scenario turned out to be (None: it produced no error this time)"""
        key = core.case_key(case)
        if key not in self._equiv:
            self.impl(case)
        return self._equiv[key]

    def requests(self, case):
        if "real" in case:
            eq = self.equiv(case)
            return self.requests(eq) if eq is not None else ["errno EAGAIN"]
        if "gramseq" in case:
            pk = ",".join("%d:%d" % (i, d) for i, d in case["pkts"]) or "."
            ans = " ".join("ok" if a is None else "%s:%d" % (a[0], a[1]) for a in case["script"])
            return [("gramseq %s %s %s %s" % (MODEL, ",".join(case["gramseq"]), pk, ans)).rstrip()]
        if "sess" in case:
            toks = []
            for op in case["ops"]:
                if op[0] in ("reopen", "close"):
                    toks.append(op[0])
                else:
                    toks.append("%s:ok" % op[0] if op[1] is None else "%s:%s:%d" % (op[0], op[1][0], op[1][1]))
            return ["sess %s %d %s" % (MODEL, case["sess"], " ".join(toks))]
        if "gram" in case:
            pk = ",".join("%d:%d" % (i, d) for i, d in case["pkts"]) or "."
            ans = " ".join("ok" if a is None else "%s:%d" % (a[0], a[1]) for a in case["script"])
            return [("gram %s %s %s %s" % (MODEL, case["gram"], pk, ans)).rstrip()]
        if "const" in case:
            return ["errno " + case["const"]]
        if "connect" in case:
            return ["connect %d" % case["connect"]]
        return ["%s %s %s %d %d 1" % ("classify2" if MODEL == "fixed2" else "classify",
                                       case["site"], case["cls"], case["arg0"], case["cut"])]

    def model_post(self, case, replies):
        if "real" in case:
            eq = self.equiv(case)
            if eq is None:
                return ["real-skip"]
            out = self.model_post(eq, replies)
            self._regions[core.case_key(case)] = self._regions.get(core.case_key(eq), {})
            return out
        if "site" not in case:
            return replies
        out = []
        for r in replies:
            # the outcome's name is the model's own vocabulary: compare what can be observed.  The tail carries the
            # Lean region predicates of the known findings, evaluated on this case (used by region()).
            obs, _, regions = r.partition(" | ")
            if regions:
                self._regions[core.case_key(case)] = dict(p.split("=") for p in regions.split())
            obs = obs.split(" ", 1)[1] if " " in obs else obs
            if case["site"] in DATA or case["site"] in HANDSHAKE:
                obs += " tmr=same"       # no error outcome of any ladder touches the connection's idle timer
            out.append(obs)
        return out

    # ------------------------------------------------------------------ implementation
    def _stream(self, site):
        from ioflo.aio.tcp import clienting, serving
        from ioflo.base import storing
        store = storing.Store(stamp=0.0)
        tls = "Tls" in site
        sock = D.Sock(tls=tls)
        if site.startswith("incomerTls"):
            t = serving.IncomerTls(context=D.Ctx(), ha=("127.0.0.1", 5000), bs=16, ca=("10.0.0.2", 4000), cs=sock, store=store)
        elif site.startswith("incomer"):
            t = serving.Incomer(ha=("127.0.0.1", 5000), bs=16, ca=("10.0.0.2", 4000), cs=sock, store=store)
        elif site.startswith("clientTls"):
            t = clienting.ClientTls(context=D.Ctx(), ha=("127.0.0.1", 5001), bufsize=16, store=store)
            t.cs = sock
            t.accepted = True
            t.connected = not site.endswith("Handshake")
        else:
            t = clienting.Client(ha=("127.0.0.1", 5001), bufsize=16, store=store)
            t.cs = sock
            t.accepted = True
        return t, sock

    def _gram(self, exc):
        from ioflo.aio.proto import stacking
        from ioflo.aio.udp import udping
        handler = udping.SocketUdpNb(ha=("127.0.0.1", 0))
        handler.reopen = lambda: True             # no real socket: .ss is the double
        stack = stacking.GramStack(handler=handler)
        handler.ss = UdpSock(exc)
        handler.opened = True
        return stack, handler

    def impl(self, case):
        # the transports' logging statements are code on the data path: every case runs at a verbosity of its own
        with D.console_at(D.verbosity_of(core.case_key(case))):
            return self._impl_at_level(case)

    def _impl_at_level(self, case):
        if "real" in case:
            try:
                eq, obs = real_scenario(case["real"])
            except OSError:                      # no loopback networking here: extra evidence only, never a verdict
                eq, obs = None, "real-skip"
            self._equiv[core.case_key(case)] = eq
            return [obs]
        if "gramseq" in case:
            return [gram_passes(case["gramseq"], case["pkts"], case["script"])]
        if "sess" in case:
            return [client_session(case["sess"], case["ops"])]
        if "gram" in case:
            return [gram_service(case["gram"], case["pkts"], case["script"])]
        if "const" in case:
            name = case["const"]
            return [str(getattr(ssl, name) if name.startswith("SSL_") else getattr(errno, name))]
        if "connect" in case:
            return [self._connect(case["connect"])]
        site, exc, cut = case["site"], make_exc(case["cls"], case["arg0"]), bool(case["cut"])
        ret, raised, is_open, cutoff, tmr = None, False, True, cut, ""
        try:
            if site in DATA or site in HANDSHAKE:
                t, sock = self._stream(site)
                t.cutoff = cut
                t.store.stamp = 3.0                     # later than the moment the connection's idle timer was started
                tm0 = (t.timer.start, t.timer.stop)
                try:
                    if site.endswith("Recv"):
                        sock.recvs.append(("raise", exc))
                        ret = t.receive()
                    elif site.endswith("Send"):
                        sock.sends.append(("raise", exc))
                        ret = t.send(b"abc")
                    else:
                        sock.handshakes.append(("raise", exc))
                        ret = t.serviceHandshake() if site.startswith("incomer") else t.handshake()
                finally:
                    is_open = t.cs is not None and not sock.closed
                    tmr = " tmr=" + ("same" if (t.timer.start, t.timer.stop) == tm0 else "moved")
                    cutoff = bool(t.cutoff)
            elif site == "acceptorAccept":
                from ioflo.aio.tcp import serving
                a = serving.Acceptor(ha=("127.0.0.1", 5000))
                a.ss = ListenSock(exc)
                try:
                    ret = a.accept()
                finally:
                    is_open = a.ss is not None and not a.ss.closed
            elif site in ("udpRecv", "udpSend"):
                from ioflo.aio.udp import udping
                h = udping.SocketUdpNb(ha=("127.0.0.1", 5000))
                h.ss = UdpSock(exc)
                try:
                    ret = h.receive() if site == "udpRecv" else h.send(b"abc", ("10.0.0.2", 4000))
                finally:
                    is_open = h.ss is not None and not h.ss.closed
            else:
                stack, h = self._gram(exc)
                try:
                    if site == "gramRecv":
                        ret = stack._serviceOneReceived()
                    else:
                        pkt = types.SimpleNamespace(packed=b"abc")
                        stack.txPkts.append((pkt, ("10.0.0.2", 4000)))
                        stack.serviceTxPkts()
                        ret = "kept" if list(stack.txPkts) == [(pkt, ("10.0.0.2", 4000))] else "gone"
                finally:
                    is_open = h.ss is not None and not h.ss.closed
        except Exception as ex:
            if ex is not exc:
                return ["ERR other exception %s: %s" % (type(ex).__name__, str(ex)[:80])]
            raised = True
        r = "raised" if raised else (ret if isinstance(ret, str) else show(ret))
        return ["ret=%s cut=%d open=%d%s" % (r, int(cutoff), int(is_open), tmr)]

    def _connect(self, code):
        from ioflo.aio.tcp import clienting
        from ioflo.base import storing
        c = clienting.Client(ha=("127.0.0.1", 5001), bufsize=16, store=storing.Store(stamp=0.0))
        sock = D.Sock()
        sock.connect_ex = lambda ha: code
        c.cs = sock
        c.opened = True
        try:
            ok = c.accept()
        except Exception as ex:
            return "ERR %s" % type(ex).__name__
        finally:
            reopened = c.cs is not sock
            if reopened:
                c.close()
        if ok:
            return "accepted" if c.accepted else "ERR accepted-flag"
        return "reopenRetry" if reopened else "retry"

    # ------------------------------------------------------------------ property, from Python's own names
    def _category(self, site, cls, n):
        loss = (cls == "osError" and n in D.LOSS) or (site in TLS and cls == "sslEof")
        if site in TLS:
            block = cls in ("sslWantRead", "sslWantWrite")
        else:
            block = cls == "osError" and n in (errno.EAGAIN, errno.EWOULDBLOCK)
        return "loss" if loss else "block" if block else "other"

    def oracle(self, case, out):
        if not out or out[0].startswith(("ERR", "HARNESS-EXC")):
            return "adapter: %s" % out[:1]
        if "real" in case:
            eq = self.equiv(case)
            return None if eq is None else self.oracle(eq, out)
        if "gramseq" in case:
            return self._oracle_gramseq(case, out[0])
        if "sess" in case:
            return self._oracle_sess(case, out[0])
        if "gram" in case:
            # transient destination errors are retryable: if nothing else went wrong, nothing is raised and every
            # packet has been sent or is still queued - never lost, never duplicated
            if not all(a is None or (a[0] == "osError" and a[1] in D.LOSS) for a in case["script"]):
                return None
            status, sent, q = out[0].split()
            ids = lambda f: [] if f.split("=")[1] == "." else [int(e.split(":")[0]) for e in f.split("=")[1].split(",")]
            what = "%s %s script %s" % (case["gram"], case["pkts"], case["script"])
            if status != "ok":
                return "%s: a transient destination error was fatal (%s)" % (what, status)
            if sorted(ids(sent) + ids(q)) != sorted(i for i, _ in case["pkts"]):
                return "%s: packets sent %s + still queued %s are not the packets that were queued" % (what, ids(sent), ids(q))
            return None
        if "const" in case:
            return None
        if "connect" in case:
            code = case["connect"]
            if out[0].startswith("ERR"):
                return "connect_ex result %d made Client.accept raise" % code
            if (out[0] == "accepted") != (code in (0, errno.EISCONN)):
                return "connect_ex result %d: %s" % (code, out[0])
            return None
        site, cls, n, cut = case["site"], case["cls"], case["arg0"], case["cut"]
        if not well_formed(site, cls, n):
            return None                      # not an exception the runtime can produce: correspondence only
        f = dict(p.split("=", 1) for p in out[0].split())
        cat = self._category(site, cls, n)
        raised = f["ret"] == "raised"
        what = "%s %s(%d)" % (site, cls, n)
        nothing = {"Recv": "None", "Send": "0", "Handshake": "False"}
        if site in DATA or site in HANDSHAKE:
            kind = "Recv" if site.endswith("Recv") else "Send" if site.endswith("Send") else "Handshake"
            if cat == "loss":
                if raised:
                    return "%s: connection loss raised instead of cutting off" % what
                if f["cut"] != "1":
                    return "%s: connection loss did not set cutoff" % what
                if f["ret"] not in ("b''", "0"):
                    return "%s: connection loss returned %s, not empty data" % (what, f["ret"])
            elif cat == "block":
                if raised or f["cut"] != str(cut) or f["open"] != "1" or f["ret"] != nothing[kind]:
                    return "%s: would-block changed state or raised: %s (cutoff before %d)" % (what, out[0], cut)
                if f.get("tmr", "same") != "same":
                    return "%s: would-block restarted the connection's idle timer (connection state changed)" % what
            else:
                if not raised:
                    return "%s: an error that is neither would-block nor connection loss did not propagate: %s" % (what, out[0])
                if site in DATA and (f["cut"] != str(cut) or f["open"] != "1"):
                    return "%s: a propagated error changed the transport: %s" % (what, out[0])
        elif site in ("acceptorAccept", "udpRecv"):
            if cat == "block":
                if raised or f["open"] != "1":
                    return "%s: would-block raised / closed: %s" % (what, out[0])
            elif not raised:
                return "%s: error did not propagate: %s" % (what, out[0])
        elif site in ("gramSend", "gramRecv"):
            if cls == "osError" and n in D.LOSS:
                if raised:
                    return "%s: transient destination error was fatal for the datagram stack" % what
                if site == "gramSend" and f["ret"] != "kept":
                    return "%s: packet not kept for a later try: %s" % (what, out[0])
            elif site == "gramRecv" and cat == "block" and raised:
                return "%s: would-block raised" % what
        return None

    _regions = {}

    def _oracle_gramseq(self, case, line):
        ids = lambda f: [] if f.split("=")[1] == "." else [int(e.split(":")[0]) for e in f.split("=")[1].split(",")]
        what = "%s on %s script %s" % (case["gramseq"], case["pkts"], case["script"])
        transient_only = all(a is None or (a[0] == "osError" and a[1] in D.LOSS) for a in case["script"])
        sent_all, q = [], [i for i, _ in case["pkts"]]
        for entry, seg in zip(case["gramseq"], line.split(" ; ")):
            status, sent, queue, left = seg.split()
            if transient_only and status != "ok":
                return "%s: a transient destination error was fatal in pass %s (%s)" % (what, entry, status)
            sent_all += ids(sent)
            # a transient error stays transient: a whole-queue pass in which every sendto succeeds sends everything
            if left == "left=0" and status == "ok" and not entry.endswith("Once") and ids(queue):
                return ("%s: pass %s met no send error, yet packets %s stay queued (an error of an earlier pass still "
                        "blocks their destination)" % (what, entry, ids(queue)))
            q = ids(queue)
        if transient_only and sorted(sent_all + q) != sorted(i for i, _ in case["pkts"]):
            return "%s: sent %s + still queued %s are not the packets that were queued" % (what, sent_all, q)
        if transient_only and not any(e.endswith("Once") for e in case["gramseq"]):
            # whole-queue passes keep the packets of one destination in the order they were queued
            dest = dict((i, d) for i, d in case["pkts"])
            for d in set(dest.values()):
                seen = [i for i in sent_all + q if dest[i] == d]
                if seen != [i for i, dd in case["pkts"] if dd == d]:
                    return ("%s: packets for destination %d go out / stay queued in the order %s, they were queued as %s"
                            % (what, d, seen, [i for i, dd in case["pkts"] if dd == d]))
        return None

    def _oracle_sess(self, case, line):
        tls = case["sess"]
        outs = line.split(" ; ")
        if len(outs) != len(case["ops"]):
            return "session adapter: %s" % line[:200]
        newest, is_open, cut = -1, False, 0
        for i, (op, o) in enumerate(zip(case["ops"], outs)):
            what = "op %d %s of %s" % (i, op, "ClientTls" if tls else "Client")
            if o.startswith("ERR"):
                return "%s: %s" % (what, o)
            if op[0] == "reopen":
                newest, is_open, cut = newest + 1, True, 0
                if o != "opened:%d" % newest:
                    return "%s: %s" % (what, o)
            elif op[0] == "close":
                is_open = False
            else:
                if not is_open:
                    continue                    # no socket: whatever happens is outside the property
                parts = o.split(":")
                if parts[0] == "nosock" or int(parts[1]) != newest:
                    return ("%s: the call did not reach the socket of the current connection (%d) but %s"
                            % (what, newest, o))
                site = ("clientTls" if tls else "client") + ("Send" if op[0] == "s" else "Recv")
                if op[1] is None:
                    if parts[0] != "done":
                        return "%s: the socket answered, the transport reports %s" % (what, o)
                    continue
                if parts[0] != "cls":
                    return "%s: the socket raised, the transport reports %s" % (what, o)
                cls, n = op[1]
                if not well_formed(site, cls, n):
                    cut = int(parts[3])
                    continue
                why = self.oracle({"site": site, "cls": cls, "arg0": n, "cut": cut},
                                  ["ret=%s cut=%s open=1" % (parts[2], parts[3])])
                if why is not None:
                    return "%s: %s" % (what, why)
                cut = int(parts[3])
        return None

    def region(self, finding, case):
        if "real" in case:
            case = self.equiv(case) or {}
        if "site" not in case:
            return False
        known = self._regions.get(core.case_key(case))
        if known is not None and finding["id"] in known:
            return known[finding["id"]] == "1"
        req = "region %s %s %s %d" % (finding["id"], case["site"], case["cls"], case["arg0"])
        return core.Driver(self.ENGINE).run([req]) == ["1"]

    def nontrivial(self, case, out):
        if "real" in case:
            return self.equiv(case) is not None
        if "gramseq" in case:
            return any(a is not None for a in case["script"])
        if "sess" in case:
            return sum(1 for o in case["ops"] if o[0] == "reopen") >= 2 and any(o[0] in "rs" for o in case["ops"])
        if "gram" in case:
            return any(a is not None for a in case["script"][:len(case["pkts"])])
        if "site" not in case:
            return False
        return well_formed(case["site"], case["cls"], case["arg0"]) and case["site"] != "udpSend"

    def bucket(self, case, out):
        if "real" in case:
            eq = self.equiv(case)
            return "real/%s/%s" % (case["real"], "no-error" if eq is None else
                                   eq.get("arg0", eq.get("connect")))
        if "gramseq" in case:
            return "gramseq/%d-passes/%s" % (len(case["gramseq"]), "errors" if any(case["script"]) else "clean")
        if "sess" in case:
            return "session/%s/%d-reopens" % ("tls" if case["sess"] else "plain", sum(1 for o in case["ops"] if o[0] == "reopen"))
        if "gram" in case:
            kinds = {"sent" if a is None else "transient" if a[1] in D.LOSS else "other" for a in case["script"]}
            return "gram/%s/%s" % (case["gram"], "+".join(sorted(kinds)) or "empty")
        if "site" not in case:
            return "const" if "const" in case else "connect"
        site, cls, n = case["site"], case["cls"], case["arg0"]
        grp = "data" if site in DATA else "handshake" if site in HANDSHAKE else site
        wf = "" if well_formed(site, cls, n) else "/unbuildable"
        return "%s/%s%s" % (grp, self._category(site, cls, n), wf)

    def shrink_candidates(self, case):
        if "site" in case and case["cut"]:
            c = dict(case)
            c["cut"] = 0
            yield c
