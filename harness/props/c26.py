"""C26 — a TCP server keeps one live connection entry per peer address.

Model:    lean/IofloModel/Model/Server.lean (Server / ServerTls: accept queue, .axes, .ixes, .cxes, removeIx, closeIx,
          shutdownIx, TLS handshake move), version `fixed2` = with fixes/D14-server-shutdownix-call.patch and fixes/D14b-servertls-shutdown-stale.patch
Theorems: lean/IofloModel/Props/C26.lean
Tie:      one history per case (arrivals with repeated peer addresses, accept / handshake / service calls, closes,
          shutdowns, removals) run on the real Server / ServerTls over a listen-socket double and socket doubles, and
          on the Lean driver (engine `server`); after every operation the two tables, .axes and every double's
          shutdown-count / closed flag are compared.
Oracle:   (independent of the model) on the implementation's lines: one entry per address and it is a connection to
          that address; accepting never raises for well-formed sockets; the entry is the latest accepted socket; a
          displaced entry's socket was shut down; a removed entry's socket was closed and the entry is gone.
"""
import errno, ssl, itertools, os
from collections import deque
import core
from props import _wa_doubles as D

EHA = 9                      # address id of the server itself
# which version of the model the tree is compared with: "fixed" = D14 only, "fixed2" = D14 + D14b
MODEL = os.environ.get("WA_C26_MODEL", "fixed2")


def addr(n):
    return ("127.0.0.1", 5000) if n == EHA else ("10.0.0.%d" % n, 4000 + n)


class Listen:
    def __init__(self):
        self.queue = deque()
        self.closed = False

    def accept(self):
        if self.queue:
            return self.queue.popleft()
        raise D.oserr(errno.EAGAIN)

    def shutdown(self, how):
        pass

    def close(self):
        self.closed = True


class Rig:
    def __init__(self, tls):
        from ioflo.aio.tcp import serving
        from ioflo.base import storing
        store = storing.Store(stamp=0.0)
        if tls:
            self.srv = serving.ServerTls(context=D.Ctx(), ha=addr(EHA), store=store)
        else:
            self.srv = serving.Server(ha=addr(EHA), store=store)
        self.tls = tls
        self.listen = Listen()
        self.srv.ss = self.listen
        self.socks = []
        self.ids = {}            # address tuple -> id

    SHUT_ERRORS = {"ENOTCONN": lambda: D.oserr(errno.ENOTCONN), "EBADF": lambda: D.oserr(errno.EBADF),
                   "ECONNRESET": lambda: D.oserr(errno.ECONNRESET), "EPIPE": lambda: D.oserr(errno.EPIPE),
                   "OSError": lambda: OSError("shutdown failed")}

    def arrive(self, peer, sockname, reported, hs, shut=None):
        # fresh tuple objects: `incomer.ca is sock.peer` identifies the socket an incomer was built around
        sock = D.Sock(peer=tuple(list(addr(peer))), name=tuple(list(addr(sockname))))
        sock.sid = len(self.socks)
        if shut:                  # this socket's shutdown() will raise (e.g. ENOTCONN after a reset, as Linux does)
            sock.shut_exc = self.SHUT_ERRORS[shut]()
        for c in ("" if hs == "-" else hs):
            sock.handshakes.append(("ok",) if c == "d" else ("raise", D.tls_want(0)) if c == "w"
                                   else ("raise", ssl.SSLError(1, "handshake failure")))
        self.socks.append(sock)
        for n in (peer, sockname, reported):
            self.ids[addr(n)] = n
        self.listen.queue.append((sock, addr(reported)))

    def do(self, op):
        s, name = self.srv, op[0]
        if name == "arrive":
            self.arrive(*op[1:])
        elif name == "accepts":
            s.serviceAccepts()
        elif name == "axes":
            s.serviceAxes()
        elif name == "cxes":
            s.serviceCxes()
        elif name == "connects":
            s.serviceConnects()
        elif name == "all":
            s.serviceAll()
        elif name == "closeall":
            s.closeAllIx()
        elif name == "shutdown":
            s.shutdownIx(addr(op[1]))
        elif name == "shutsend":
            s.shutdownSendIx(addr(op[1]))
        elif name == "shutrecv":
            s.shutdownReceiveIx(addr(op[1]))
        elif name == "close":
            s.closeIx(addr(op[1]))
        elif name == "remove":
            s.removeIx(addr(op[1]), shutclose=bool(op[2]))
        else:
            raise KeyError(name)

    def sid(self, ix):
        for sock in self.socks:
            if ix.ca is sock.peer:
                return sock.sid
        return -1

    def tab(self, table):
        if not table:
            return "."
        return ",".join("%s:%d:%d:%d" % (self.ids.get(ca, "?"), self.sid(ix), int(ix.cs is not None),
                                         int(bool(getattr(ix, "connected", False))))
                        for ca, ix in table.items())

    def line(self, status):
        s = self.srv
        ax = ",".join("%d:%s" % (cs.sid, self.ids.get(ca, "?")) for cs, ca in s.axes) or "."
        socks = ",".join("%d:%d" % (len(k.shutdowns), int(k.closed)) for k in self.socks) or "."
        return "%s ix=%s cx=%s ax=%s pend=%d socks=%s" % (
            status, self.tab(s.ixes), self.tab(getattr(s, "cxes", None)), ax, len(self.listen.queue), socks)


def parse(line):
    parts = line.split()
    if parts[0] == "ERR":
        status, rest = "ERR " + parts[1], parts[2:]
    else:
        status, rest = parts[0], parts[1:]
    f = dict(p.split("=", 1) for p in rest)
    def tab(s):
        out = []
        if s != ".":
            for e in s.split(","):
                ca, sid, has, conn = e.split(":")
                out.append((int(ca), int(sid), int(has), int(conn)))
        return out
    socks = [] if f["socks"] == "." else [tuple(int(x) for x in e.split(":")) for e in f["socks"].split(",")]
    return status, tab(f["ix"]), tab(f["cx"]), f["ax"], int(f["pend"]), socks


class CHECK(core.Check):
    PROPERTY = "C26"
    LEAN_MODULES = ["IofloModel.Props.C26"]
    ENGINE = "server"
    N_QUICK = 1500
    N_THOROUGH = 30000
    N_SEARCH = 3000
    RULE = ("a case = Server or ServerTls and a history over: arrive(peer, sockname, reported address, handshake script) "
            "with peers drawn from 3 addresses (so they repeat), serviceAccepts / serviceAxes / serviceCxes / "
            "serviceConnects / serviceAll, shutdownIx / shutdownSendIx / shutdownReceiveIx, closeIx, closeAllIx, removeIx(shutclose "
            "0|1); 30% of the sockets raise from shutdown() (ENOTCONN, EBADF, ECONNRESET, EPIPE, errno-less OSError) and every "
            "operation that shuts a stale entry down meets each of those. Exhaustive: every "
            "sequence of length <= 4 (quick) / <= 5 (thorough) over 9 operations, on both servers; random: histories of up "
            "to 40 operations, 5% malformed arrivals; plus every batch of 2-3 arrivals from 2 addresses drained by a single service call.  Non-trivial = some address was accepted twice or an entry was "
            "closed/removed after being accepted; distinct by the whole case.")
    TRUSTED = ["correspondence: the real Server / ServerTls run in-process with .ss replaced by a listen double and socket "
               "doubles (ssl context stub whose wrap_socket returns the double); table contents and every double's "
               "shutdown count / closed flag compared with the Lean driver `server` after every operation",
               "object identity of sockets is tracked through the identity of the tuple returned by getpeername()",
               "addresses are small integers in the model and distinct (host, port) tuples in the run"]
    PARTIAL = ["model = repaired code (fixes/D14-server-shutdownix-call.patch, fixes/D14b-servertls-shutdown-stale.patch); on a "
               "tree without them a repeated peer address is a VIOLATION (C26_D14_orig_raises, "
               "C26_D14b_orig_tls_stale_not_shut)",
               "a failed TLS handshake leaves a socket-less IncomerTls in .cxes; every later serviceCxes raises "
               "AttributeError (modelled; outside this property)",
               "closeIx leaves the closed incomer in .ixes; serviceReceivesAllIx then raises AttributeError (modelled; "
               "outside this property)"]
    TECHNIQUE = ("Lean 4 theorems (table invariant preserved by every primitive, by induction over histories and over the "
                 "accept / handshake loops) + differential correspondence with listen/socket doubles")
    LEVEL_TEXT = ("Proved on the model for all histories, Server and ServerTls, both versions: C26_ixes_keys_unique, "
                  "C26_entries_match_peer, C26_no_shared_socket; step theorems C26_accept_replaces_stale (no raise, stale socket shut down, entry "
                  "replaced in place, others untouched), C26_accept_new, C26_malformed_refused, C26_remove_closes, "
                  "C26_close_keeps_entry, C26_tls_handshake_moves; C26_displaced_are_shut (Server and ServerTls: every socket "
                  "ever entered into .ixes/.cxes is a live entry, shut, or released); as found: C26_D14_orig_raises, "
                  "C26_D14b_orig_tls_stale_not_shut. No _partial theorem.")
    LEVEL_NOTE = ("Trusted: Lean kernel; axioms propext, Quot.sound (Classical.choice if listed); transcription of serving.py "
                  "Server/ServerTls table code validated by the correspondence runs; the doubles; odict semantics as "
                  "transcribed. Not covered: real listen sockets, the TLS record layer, Peer class.")

    OPS = [["arrive", 5, EHA, 5, "d", "ENOTCONN"], ["arrive", 6, EHA, 6, "wd"], ["connects"], ["all"], ["close", 5],
           ["remove", 5, 1], ["remove", 5, 0], ["shutdown", 5], ["accepts"]]

    def exhaustive(self, tier):
        # several accepts pending when one service call drains them, repeated addresses among them
        for tls in (0, 1):
            for peers in itertools.chain(itertools.product((5, 6), repeat=2), itertools.product((5, 6), repeat=3)):
                for pre in ([], [["arrive", 5, EHA, 5, "d"], ["connects"]]):
                    for call in (["connects"], ["axes"], ["all"]):
                        yield {"tls": tls, "ops": pre + [["arrive", p, EHA, p, "d"] for p in peers] + [call, ["connects"]]}
            # a stale entry whose socket's shutdown() raises each member of the OSError family, met by every operation
            # that shuts it down: accept from the same address, removeIx, closeIx, shutdown*Ix, closeAllIx
            for err in sorted(Rig.SHUT_ERRORS):
                for touch in (["arrive", 5, EHA, 5, "d", err], ["remove", 5, 1], ["close", 5], ["shutdown", 5],
                              ["shutsend", 5], ["shutrecv", 5], ["closeall"]):
                    tail = [["connects"]] if touch[0] == "arrive" else []
                    yield {"tls": tls, "ops": [["arrive", 5, EHA, 5, "d", err], ["connects"], list(touch)] + tail +
                                               [["arrive", 5, EHA, 5, "d"], ["connects"], ["remove", 5, 1]]}
        L = 5 if tier == "thorough" else 4
        for tls in (0, 1):
            for n in range(1, L + 1):
                for seq in itertools.product(self.OPS, repeat=n):
                    if seq[0][0] != "arrive":
                        continue             # a history on an empty server starts with a connection
                    yield {"tls": tls, "ops": [list(o) for o in seq]}

    def generate(self, rng, n, tier):
        for _ in range(n):
            tls = rng.randrange(2)
            nops = rng.choice([4, 8, 16, 40])
            ops = []
            for _ in range(nops):
                x = rng.random()
                if x < 0.35:
                    peer = rng.choice([5, 6, 7])
                    y = rng.random()
                    reported = peer if y < 0.95 else rng.choice([5, 6, 7, 8])
                    sockname = EHA if y > 0.05 or y >= 0.95 else 8
                    hs = rng.choice(["d", "d", "wd", "w", "wwd", "-", "f", "wf"]) if tls else "-"
                    ops.append(["arrive", peer, sockname, reported, hs] +
                               ([rng.choice(sorted(Rig.SHUT_ERRORS))] if rng.random() < 0.3 else []))
                elif x < 0.55:
                    ops.append(["connects"])
                elif x < 0.62:
                    ops.append(["all"])
                elif x < 0.67:
                    ops.append(["axes"])
                elif x < 0.70:
                    ops.append(["accepts"])
                elif x < 0.74 and tls:
                    ops.append(["cxes"])
                elif x < 0.82:
                    ops.append(["close", rng.choice([5, 6, 7])])
                elif x < 0.92:
                    ops.append(["remove", rng.choice([5, 6, 7]), rng.choice([1, 1, 1, 0])])
                elif x < 0.97:
                    ops.append([rng.choice(["shutdown", "shutsend", "shutrecv"]), rng.choice([5, 6, 7])])
                else:
                    ops.append(["closeall"])
            yield {"tls": tls, "ops": ops}

    # ------------------------------------------------------------------ both sides
    def requests(self, case):
        out = ["reset %s %d %d" % (MODEL, case["tls"], EHA)]
        for op in case["ops"]:
            # what a socket's shutdown() raises is swallowed by the code: the model has no such parameter
            out.append(" ".join(str(x) for x in (op[:5] if op[0] == "arrive" else op)))
        peers = [op[1] for op in case["ops"] if op[0] == "arrive"]
        out.append("region D14b %d %s" % (case["tls"], " ".join(str(p) for p in peers)))
        return out

    _regions = {}

    def model_post(self, case, replies):
        self._regions[core.case_key(case)] = replies[-1]
        return replies[:-1]

    def region(self, finding, case):
        if finding["id"] != "D14b":
            return False
        r = self._regions.get(core.case_key(case))
        if r is None:
            r = core.Driver(self.ENGINE).run(self.requests(case))[-1]
        return r == "1"

    def impl(self, case):
        # the transports' logging statements are code on the data path: every case runs at a verbosity of its own
        with D.console_at(D.verbosity_of(core.case_key(case))):
            return self._impl_at_level(case)

    def _impl_at_level(self, case):
        rig = Rig(bool(case["tls"]))
        lines = ["ok"]
        for op in case["ops"]:
            status = "ok"
            try:
                rig.do(op)
            except ssl.SSLError:
                status = "ERR HandshakeError"
            except Exception as ex:
                status = "ERR " + type(ex).__name__
            lines.append(rig.line(status))
        return lines

    # ------------------------------------------------------------------ the property on the implementation
    def oracle(self, case, out):
        ops = case["ops"]
        if len(out) != len(ops) + 1 or out[0] != "ok":
            return "adapter: %d lines for %d ops: %s" % (len(out), len(ops), out[:2])
        peer_of, reported, sockname = {}, {}, {}
        nsock = 0
        prev_ix, prev_socks, prev_ax, prev_pend, prev_cx = [], [], [], 0, []
        for i, (op, line) in enumerate(zip(ops, out[1:])):
            if line.startswith("HARNESS-EXC"):
                return "op %d %s: %s" % (i, op[0], line)
            status, ix, cx, ax, pend, socks = parse(line)
            if op[0] == "arrive":
                peer_of[nsock], sockname[nsock], reported[nsock] = op[1], op[2], op[3]
                nsock += 1
            what = "op %d %s" % (i, " ".join(str(x) for x in op))
            # one entry per address, and it is a connection to that address
            keys = [e[0] for e in ix]
            if len(set(keys)) != len(keys):
                return "%s: an address occurs twice in the table: %s" % (what, keys)
            for ca, sid, has, conn in ix:
                if peer_of.get(sid) != ca:
                    return "%s: entry for address %d wraps socket %d whose peer is %s" % (what, ca, sid, peer_of.get(sid))
            sids = [e[1] for e in ix]
            if len(set(sids)) != len(sids):
                return "%s: two entries share one socket: %s" % (what, ix)
            # accepting never raises for well-formed sockets, and enters the latest socket of each address
            if op[0] in ("axes", "connects", "all"):
                waiting = prev_ax + list(range(nsock - prev_pend, nsock))     # what this call has to process
                wellformed = all(reported[s] == peer_of[s] and (not case["tls"] or sockname[s] == EHA) for s in waiting)
                excused = {"ok", "ERR HandshakeError"} | (set() if wellformed else {"ERR ValueError"})
                # AttributeError has two sources outside this property: serviceAll reading from an entry that closeIx
                # left socket-less in the table, and a TLS handshake retried on an incomer that a failed handshake closed
                closed_entry = any(e[2] == 0 for e in ix)
                dead_handshake = any(e[2] == 0 for e in cx) or any(e[2] == 0 for e in prev_cx)
                if (op[0] == "all" and closed_entry) or (case["tls"] and dead_handshake):
                    excused.add("ERR AttributeError")
                if status not in excused:
                    return "%s: accepting raised %s" % (what, status[4:])
                if status in ("ok", "ERR AttributeError") and ax == ".":
                    # every connection this call accepted is now an entry (table or pending handshakes), or - displaced
                    # by a later one from the same address - has been shut down: no accepted socket is simply dropped
                    held = {e[1] for e in ix} | {e[1] for e in cx}
                    for sk in waiting:
                        if sk not in held and socks[sk][0] == 0 and not socks[sk][1]:
                            return ("%s: accepted socket %d (address %d) is neither in the table nor shut down"
                                    % (what, sk, peer_of[sk]))
                if status == "ok" and not case["tls"]:
                    last = {}
                    for s in waiting:
                        last[peer_of[s]] = s
                    now = {ca: sid for ca, sid, _, _ in ix}
                    for ca, s in last.items():
                        if now.get(ca) != s:
                            return "%s: entry for address %d is socket %s, latest accepted is %d" % (what, ca, now.get(ca), s)
            # displaced entries are shut down; removed entries are closed and gone
            before = {ca: (sid, has) for ca, sid, has, _ in prev_ix}
            after = {ca: (sid, has) for ca, sid, has, _ in ix}
            for ca, (sid, has) in before.items():
                if ca in after and after[ca][0] != sid:
                    sh, cl = socks[sid]
                    if sh == 0 and not cl:
                        return "%s: stale entry for address %d (socket %d) was replaced without being shut down" % (what, ca, sid)
                if ca not in after:
                    if not (op[0] == "remove" and op[1] == ca):
                        return "%s: entry for address %d vanished" % (what, ca)
                    if op[2] and not socks[sid][1]:
                        return "%s: removed entry's socket %d was not closed" % (what, sid)
            # the same for a connection still handshaking in .cxes that a newer one from its address displaces
            now_ix_sids = {e[1] for e in ix}
            after_cx = {ca: sid for ca, sid, _, _ in cx}
            for ca, sid, _, _ in prev_cx:
                if sid not in now_ix_sids and after_cx.get(ca) != sid:
                    sh, cl = socks[sid]
                    if sh == 0 and not cl:
                        return ("%s: pending handshake for address %d (socket %d) was replaced without being shut down"
                                % (what, ca, sid))
            if op[0] in ("shutdown", "shutsend", "shutrecv", "close") and op[1] in before and status != "ok":
                return "%s: raised %s on a present address (whatever the socket's shutdown() raises is not the caller's business)" % (what, status)
            if op[0] == "closeall" and status != "ok":
                return "%s: raised %s" % (what, status)
            if op[0] == "remove":
                if op[1] in after:
                    return "%s: entry still in the table" % what
                if op[1] in before and status != "ok":
                    return "%s: raised %s on a present address" % (what, status)
            for sid, (sh, cl) in enumerate(socks):
                if sid < len(prev_socks) and (sh < prev_socks[sid][0] or cl < prev_socks[sid][1]):
                    return "%s: socket %d record went backwards" % (what, sid)
            prev_ix, prev_socks, prev_pend, prev_cx = ix, socks, pend, cx
            prev_ax = [] if ax == "." else [int(e.split(":")[0]) for e in ax.split(",")]
        return None

    def nontrivial(self, case, out):
        seen, twice, touched = set(), False, False
        for op in case["ops"]:
            if op[0] == "arrive":
                twice = twice or op[1] in seen
                seen.add(op[1])
            if op[0] in ("close", "remove", "closeall") and seen:
                touched = True
        return (twice or touched) and any("ix=" in l and "ix=." not in l for l in out)

    def bucket(self, case, out):
        peers = [op[1] for op in case["ops"] if op[0] == "arrive"]
        dup = len(set(peers)) != len(peers)
        err = sorted({l.split()[1] for l in out if l.startswith("ERR")})
        return "%s/%s%s" % ("tls" if case["tls"] else "plain", "dup" if dup else "nodup",
                            "/" + "+".join(err) if err else "")

    def shrink_candidates(self, case):
        ops = case["ops"]
        for i in range(len(ops)):
            c = dict(case)
            c["ops"] = ops[:i] + ops[i + 1:]
            yield c
