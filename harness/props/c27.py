"""C27 — reconnectable clients and stacks eventually reconnect.
Model: lean/IofloModel/Model/Reconnect.lean (tcp/clienting.Client connection management, TcpClientStack.serviceConnect,
       the connection part of http Patron.serviceAll, StoreTimer; exact ticks)
Theorems: lean/IofloModel/Props/C27.lean
Tie: a real Client (bare), a real TcpClientStack over it, or a real Patron over it, on a socket double whose connect_ex
     answers an errno per call (explicit phase) or behaves as a listening server of latency k (listening phase); compared
     after every call: sockets opened/closed, connect_ex calls and answers, connected/cutoff/opened flags, live socket,
     reported address, stack's local.ha.
Oracle (independent of the model): connected => reported address is the live socket's; not reconnectable + cut off =>
     no socket is opened; listening server + reconnectable + timeout elapsed => connected within k+1 further calls.
The tree this check is meant for: /repo with fix D27 (Client.serviceConnect reopens a cut off client); one known
finding, D28."""
import errno, itertools
import core

TICK = 1024.0
SRV_HA = ("127.0.0.1", 7100)
CODES = [0, errno.EISCONN, errno.EINPROGRESS, errno.EALREADY, errno.ECONNREFUSED, errno.EINVAL,
         errno.ETIMEDOUT, errno.EHOSTUNREACH, errno.ECONNABORTED]


class World:
    """socket layer double: allocates socket ids, answers connect_ex, logs events"""
    def __init__(self):
        self.next_id = 0
        self.events = []
        self.code = errno.EINPROGRESS     # answer of the next connect_ex (explicit phase)
        self.listen_k = None              # listening phase: latency
        self.hs = "k"                     # answer of the next do_handshake (explicit phase, TLS)
        self.listen_h = None              # listening phase: handshake latency (TLS)
        self.recv = "w"


class FakeConnSock:
    def __init__(self, world):
        self.w = world
        self.id = world.next_id
        world.next_id += 1
        self.calls = 0
        world.events.append("+%d" % self.id)

    def setsockopt(self, *a): pass
    def getsockopt(self, *a): return 1 << 22
    def setblocking(self, flag): pass
    def getsockname(self): return ("127.0.0.1", 50000 + self.id)
    def getpeername(self): return SRV_HA
    def shutdown(self, how): pass

    def close(self):
        self.w.events.append("-%d" % self.id)

    def connect_ex(self, ha):
        n = self.calls
        self.calls += 1
        if self.w.listen_k is not None:
            code = 0 if n + 1 >= self.w.listen_k else (errno.EINPROGRESS if n == 0 else errno.EALREADY)
        else:
            code = self.w.code
        self.w.events.append("?%d=%d" % (self.id, code))
        return code

    def send(self, data):
        return len(data)

    def recv(self, bs):
        if self.w.recv == "closed":
            return b""
        if self.w.recv == "reset":
            raise OSError(errno.ECONNRESET, "reset")
        raise BlockingIOError(errno.EAGAIN, "would block")


class TlsSock:
    """what context.wrap_socket returns: the raw double plus a scripted do_handshake"""
    def __init__(self, raw):
        self.raw = raw
        self.id = raw.id
        self.shakes = 0

    def __getattr__(self, k):
        return getattr(self.raw, k)

    def recv(self, bs):
        import ssl
        try:
            return self.raw.recv(bs)
        except BlockingIOError:               # a TLS socket reports "no data yet" as SSLWantReadError
            raise ssl.SSLWantReadError(ssl.SSL_ERROR_WANT_READ, "want read")

    def do_handshake(self):
        import ssl
        w = self.raw.w
        n = self.shakes
        self.shakes += 1
        if w.listen_h is not None:
            a = "k" if n + 1 >= w.listen_h else "w"
        else:
            a = w.hs
        w.events.append("#%d=%s" % (self.id, a))
        if a == "k":
            return
        if a == "w":
            raise (ssl.SSLWantReadError if n % 2 == 0 else ssl.SSLWantWriteError)(
                ssl.SSL_ERROR_WANT_READ if n % 2 == 0 else ssl.SSL_ERROR_WANT_WRITE, "want")
        if n % 2 == 0:
            raise ssl.SSLEOFError(ssl.SSL_ERROR_EOF, "eof in handshake")
        raise ssl.SSLError(ssl.SSL_ERROR_SSL, "handshake failure")


class CtxDouble:
    """stands for ssl.SSLContext"""
    def __init__(self):
        import ssl
        self.verify_mode = ssl.CERT_NONE
        self.check_hostname = False

    def wrap_socket(self, sock, server_side=False, do_handshake_on_connect=True, server_hostname=None):
        return TlsSock(sock)

    def load_default_certs(self, *a, **k): pass
    def load_verify_locations(self, *a, **k): pass
    def load_cert_chain(self, *a, **k): pass


class Shim:
    def __init__(self, real, factory):
        self._real, self._factory = real, factory

    def __getattr__(self, k):
        return getattr(self._real, k)

    def socket(self, *a, **k):
        return self._factory()


class CHECK(core.Check):
    PROPERTY = "C27"
    LEAN_MODULES = ["IofloModel.Props.C27"]
    ENGINE = "reconnect"
    N_QUICK = 1200
    N_THOROUGH = 30000
    N_SEARCH = 3000
    RULE = ("a real tcp Client (bare), TcpClientStack over it, or http Patron over it (non-TLS), each built in one of the documented ways (clock and connector/handler given; neither given, the object makes its own; reconnectable set by attribute; Patron with a ready connector and no store) and driven through the object's OWN clock (client.store / stack.stamper / patron.store), reconnect timeout in {0, <0, "
            "100..2048 ticks}, reconnectable or not, optional SSE retry for the Patron; explicit phase: 0..25 calls "
            "(serviceConnect / stack.serviceConnect / Patron.serviceAll with the connect_ex answer drawn from 9 errnos, clock "
            "advances, connection loss detected by receive (closed or reset), owner close/reopen); then, in ~60% of cases, a "
            "listening phase: a server of latency k in 1..4 connect_ex calls, 4..30 rounds of (advance dt; one service call) "
            "with dt constant below/above timeout/(k-1), or random. Bounded-exhaustive: kinds x reconnectable x k in 1..3 x "
            "dt in {50,100,150,250} x timeout in {200,400} x 4 ways of losing the connection, 12 rounds. Non-trivial = at least "
            "one socket reopened by the code and at least one connect_ex after it; distinct by case.")
    TRUSTED = ["correspondence: real clienting.Client (tree with fix D27) / stacking.TcpClientStack / http.clienting.Patron on a socket double "
               "(module name `socket` shimmed inside tcp.clienting for the case) vs Lean driver 'reconnect'; compared per call: "
               "sockets opened/closed, connect_ex calls with answers, .connected/.cutoff/.opened, live socket, .ca, stack local.ha",
               "time on the grid 1/1024 s; the listening server is the double's rule 'n-th connect_ex on a socket answers "
               "EINPROGRESS, EALREADY.., 0 from the k-th'; the kernel's TCP and real loopback latency are not modelled "
               "(loopback run is extra evidence only)",
               "every third random case and half of the exhaustive grid run through the TLS subclass ClientTls (context / TLS-socket "
               "doubles with a scripted do_handshake: ok, want-read/write, failure), bare, under a TcpClientStack and as an https "
               "Patron connector, including reuse after a completed handshake; the TLS record layer itself is not modelled"]
    PARTIAL = ["C27_reconnects_within_partial: liveness under the pacing hypothesis (the first k-1 service calls after a reopen "
               "come before the reconnect timer expires again); without it the client can livelock (known finding D28, "
               "C27_counterexample_livelock)",
               "fairness of the OS / network (a listening server answers within k calls) is a hypothesis, exercised only by the "
               "double and one loopback run",
               "TLS: bounded liveness for arbitrary connect/handshake latency is proved for ClientTls.serviceConnect itself "
               "(C27_tls_reconnects_within_partial, _after_cutoff_within, under the same pacing hypothesis); for a ClientTls "
               "under TcpClientStack / https Patron it is checked by correspondence + oracle only"]
    TECHNIQUE = ("Lean 4 theorems (bounded liveness by induction on the latency k under explicit environment and pacing "
                 "hypotheses; safety invariants by induction over call sequences) + differential correspondence through a socket "
                 "double + direct oracle + loopback smoke run")
    LEVEL_TEXT = ("Proved on the model for every timeout, every latency k and every schedule: C27_reconnects_within_partial (from "
                  "the state a timer-driven reopen leaves, a listening server of latency k and k-1 calls before the next expiry "
                  "=> connected after k calls, bare/stack/patron), C27_stack_reconnects_after_cutoff, "
                  "C27_patron_reconnects_after_cutoff, C27_bare_reconnects_after_cutoff (k+1 / k / k calls from the first call at "
                  "which the timer has expired), "
                  "C27_timer_reopen_restarts(_any) (that call leaves exactly that state, from any unconnected state), "
                  "C27_bare_reconnects_after_timer (end to end for a client whose attempts failed), C27_reports_live_addresses (invariant over all "
                  "histories), C27_stack_local_ha, C27_non_reconnectable_stays_closed (all histories of service calls). Full "
                  "TLS subclass: C27_tls_connected_implies_accepted (invariant over all TLS histories), "
                  "C27_tls_reopen_clears_connected, C27_tls_reconnects_after_cutoff (immediate server), "
                  "C27_tls_reconnects_within_partial and C27_tls_reconnects_after_cutoff_within (ClientTls.serviceConnect: connect "
                  "latency a, handshake latency b, paced schedule => connected after a+b-1 calls, by induction on both counters). Full statement C27_full is false on the code: C27_counterexample_livelock (D28, known finding). "
                  "C27_counterexample_asis_bare_stays_cut_off documents the behaviour before fix D27.")
    LEVEL_NOTE = ("Trusted: Lean kernel; axioms propext, Classical.choice, Quot.sound; the hand transcription of the connection "
                  "management of Client, TcpClientStack.serviceConnect and Patron.serviceAll, validated by the correspondence runs "
                  "on a socket double; liveness is relative to the stated assumptions about the server and the call schedule.")

    # ---- generation
    def _pre(self, rng, kind, lose):
        svc = {"bare": "B", "stack": "S", "patron": "H"}[kind]
        ops = []
        for _ in range(rng.randrange(0, 4)):
            ops.append("A%d" % rng.choice([0, 10, 50, 100, 300]))
            ops.append(svc + str(rng.choice([errno.EINPROGRESS, errno.EALREADY, errno.ECONNREFUSED, errno.EINVAL, errno.ETIMEDOUT])))
        if lose in ("closed", "reset"):
            ops.append(svc + str(rng.choice([0, errno.EISCONN])))
            ops.append("A%d" % rng.choice([0, 50, 500, 3000]))
            ops.append("L")
        elif lose == "ownerclose":
            ops.append(svc + "0")
            ops.append("c")
        return ops

    def _dts(self, rng, T, k, n):
        style = rng.choice(["paced", "paced", "slow", "rand", "edge"])
        t = T if T > 0 else 200
        if style == "paced":
            d = max(1, (t - 1) // max(k, 1)) if k > 1 else rng.choice([10, t, 2 * t])
            return [d] * n
        if style == "slow":
            return [t + rng.choice([0, 1, 50])] * n
        if style == "edge":
            d = t // max(k - 1, 1)
            return [d] * n
        return [rng.randrange(0, 2 * t + 1) for _ in range(n)]

    def _case(self, rng, explicit_ok=True):
        kind = rng.choice(["bare", "stack", "patron"])
        T = rng.choice([205, 205, 512, 1024, 100, 2048, 0, -100])
        rec = 1 if rng.random() < 0.8 else 0
        retry = rng.choice([None, None, None, 128, 512, 1024]) if kind == "patron" else None
        svc = {"bare": "B", "stack": "S", "patron": "H"}[kind]
        pre = []
        if explicit_ok and rng.random() < 0.5:
            for _ in range(rng.randrange(0, 26)):
                r = rng.random()
                if r < 0.35:
                    pre.append("A%d" % rng.choice([0, 1, 50, 100, 205, 300, 1000]))
                elif r < 0.80:
                    letter = svc if rng.random() < 0.85 else "B"
                    pre.append(letter + str(rng.choice(CODES)))
                elif r < 0.90:
                    pre.append("L")
                elif r < 0.95:
                    pre.append("c")
                else:
                    pre.append("o")
        else:
            pre = self._pre(rng, kind, rng.choice(["closed", "reset", "never", "ownerclose"]))
        case = {"kind": kind, "timeout": T, "rec": rec, "retry": retry, "pre": pre, "loss": rng.choice(["closed", "reset"]),
                "build": rng.choice(["given", "own", "attr", "conn"] if kind == "patron" else ["given", "own", "attr"])}
        if rng.random() < 0.6:
            k = rng.choice([1, 2, 2, 3, 4])
            case["listen"] = {"k": k, "dts": self._dts(rng, T, k, rng.randrange(4, 31))}
        return case

    def _tlsify(self, rng, case):
        """the same history through the TLS subclass: every service call also carries the answer of do_handshake"""
        c = dict(case, tls=True)
        if c["kind"] == "stack" and c.get("build") == "own":
            c["build"] = "given"                      # a stack cannot create a TLS handler itself
        hs = lambda: rng.choice("kkkkwwe") if rng.random() < 0.5 else "k"
        c["pre"] = [(t + ":" + hs()) if t[0] in "BSH" else t for t in case["pre"]]
        if c.get("listen"):
            h = rng.choice([1, 1, 2, 3])
            k = c["listen"]["k"]
            c["listen"] = {"k": k, "h": h, "dts": self._dts(rng, c["timeout"], k + h - 1, len(c["listen"]["dts"]))}
        return c

    def generate(self, rng, n, tier):
        for i in range(n):
            c = self._case(rng)
            yield self._tlsify(rng, c) if i % 3 == 2 else c

    def search(self, rng, n, tier):
        for i in range(n):
            c = self._case(rng, explicit_ok=False)
            c["rec"] = 1
            yield self._tlsify(rng, c) if i % 3 == 2 else c

    def exhaustive(self, tier):
        for kind, rec, k, d, T, lose in itertools.product(["bare", "stack", "patron"], [1, 0], [1, 2, 3],
                                                          [50, 100, 150, 250], [200, 400],
                                                          ["closed", "never", "refused", "ownerclose"]):
            svc = {"bare": "B", "stack": "S", "patron": "H"}[kind]
            pre = {"closed": [svc + "0", "A500", "L"], "never": [], "refused": [svc + "111", "A10", svc + "111"],
                   "ownerclose": [svc + "0", "c"]}[lose]
            if (k + d // 50 + T // 200) % 2:          # half of the grid through the TLS subclass (handshake latency 1..2)
                yield {"kind": kind, "timeout": T, "rec": rec, "retry": None, "tls": True,
                       "pre": [(t + ":k") if t[0] in "BSH" else t for t in pre], "loss": "closed",
                       "listen": {"k": k, "h": 1 + (d // 50) % 2, "dts": [d] * 12},
                       "build": ["given", "attr", "conn" if kind == "patron" else "given"][(k + d // 50) % 3]}
            yield {"kind": kind, "timeout": T, "rec": rec, "retry": None, "pre": pre, "loss": "closed",
                   "listen": {"k": k, "dts": [d] * 12},
                   "build": (["given", "own", "attr", "conn"] if kind == "patron" else ["given", "own", "attr"])[(k + d // 50) % (4 if kind == "patron" else 3)]}

    # ---- implementation
    def impl(self, case):
        import socket as real_socket
        from ioflo.aio.tcp import clienting
        from ioflo.aio.proto import stacking
        from ioflo.aid.timing import Stamper
        kind = case["kind"]
        world = World()
        saved = clienting.socket
        clienting.socket = Shim(real_socket, lambda: FakeConnSock(world))
        try:
            # every documented way of building the object; time is then driven through the object's OWN clock
            build = case.get("build", "given")
            T, rec = case["timeout"] / TICK, bool(case["rec"])
            stack = patron = None
            tls = bool(case.get("tls"))
            if tls:
                # the same histories through the TLS subclass: ClientTls with a context double
                mk = lambda **kw: clienting.ClientTls(context=CtxDouble(), ha=SRV_HA, **kw)
                if kind == "bare":
                    if build == "own":
                        client = mk(timeout=T, reconnectable=rec)
                    elif build == "attr":
                        client = mk(store=Stamper(stamp=0.0), timeout=T)
                        client.reconnectable = rec
                    else:
                        client = mk(store=Stamper(stamp=0.0), timeout=T, reconnectable=rec)
                    client.reopen()
                    clock = client.store
                elif kind == "stack":                    # a TLS handler can only be handed to the stack
                    st = Stamper(stamp=0.0)
                    if build == "attr":
                        h = mk(store=st, timeout=T)
                        h.reconnectable = rec
                    else:
                        h = mk(store=st, timeout=T, reconnectable=rec)
                    stack = stacking.TcpClientStack(ha=SRV_HA, stamper=st, handler=h)
                    client, clock = stack.handler, stack.stamper
                elif kind == "patron":
                    from ioflo.aio.http import clienting as hclienting
                    if build == "own":                   # https patron makes its own ClientTls and store
                        patron = hclienting.Patron(hostname=SRV_HA[0], port=SRV_HA[1], scheme="https",
                                                   context=CtxDouble(), timeout=T, reconnectable=rec)
                    elif build == "attr":
                        patron = hclienting.Patron(hostname=SRV_HA[0], port=SRV_HA[1], scheme="https",
                                                   context=CtxDouble(), store=Stamper(stamp=0.0), timeout=T)
                        patron.connector.reconnectable = rec
                    elif build == "conn":
                        patron = hclienting.Patron(connector=mk(store=Stamper(stamp=0.0), timeout=T, reconnectable=rec))
                    else:
                        st = Stamper(stamp=0.0)
                        patron = hclienting.Patron(connector=mk(store=st, timeout=T, reconnectable=rec), store=st)
                    client = patron.connector
                    patron.open()
                    clock = patron.store
                    if case.get("retry") is not None:
                        patron.respondent.evented = True
                        patron.respondent.retry = case["retry"] * 1000 // 1024
                else:
                    return ["bad-op"]
            elif kind == "bare":
                if build == "own":                       # no store given: the client makes its own
                    client = clienting.Client(ha=SRV_HA, timeout=T, reconnectable=rec)
                elif build == "attr":                    # reconnectable switched on/off by attribute
                    client = clienting.Client(ha=SRV_HA, store=Stamper(stamp=0.0), timeout=T)
                    client.reconnectable = rec
                else:
                    client = clienting.Client(ha=SRV_HA, store=Stamper(stamp=0.0), timeout=T, reconnectable=rec)
                client.reopen()
                clock = client.store
            elif kind == "stack":
                if build == "own":                       # the stack creates its handler and its stamper
                    stack = stacking.TcpClientStack(ha=SRV_HA, timeout=T)
                    stack.handler.reconnectable = rec
                elif build == "attr":                    # stamper given, handler created by the stack
                    stack = stacking.TcpClientStack(ha=SRV_HA, timeout=T, stamper=Stamper(stamp=0.0))
                    stack.handler.reconnectable = rec
                else:
                    st = Stamper(stamp=0.0)
                    stack = stacking.TcpClientStack(
                        ha=SRV_HA, stamper=st,
                        handler=clienting.Client(ha=SRV_HA, store=st, timeout=T, reconnectable=rec))
                client = stack.handler
                clock = stack.stamper
            elif kind == "patron":
                from ioflo.aio.http import clienting as hclienting
                if build == "own":                       # neither store nor connector given
                    patron = hclienting.Patron(hostname=SRV_HA[0], port=SRV_HA[1], timeout=T, reconnectable=rec)
                elif build == "attr":                    # store given, connector created by the patron
                    patron = hclienting.Patron(hostname=SRV_HA[0], port=SRV_HA[1], store=Stamper(stamp=0.0), timeout=T)
                    patron.connector.reconnectable = rec
                elif build == "conn":                    # ready-made connector, no store: the patron must run on its clock
                    patron = hclienting.Patron(
                        connector=clienting.Client(ha=SRV_HA, store=Stamper(stamp=0.0), timeout=T, reconnectable=rec))
                else:
                    st = Stamper(stamp=0.0)
                    patron = hclienting.Patron(
                        connector=clienting.Client(ha=SRV_HA, store=st, timeout=T, reconnectable=rec), store=st)
                client = patron.connector
                patron.open()
                clock = patron.store                     # the clock Patron.serviceWhile advances
                if case.get("retry") is not None:
                    patron.respondent.evented = True
                    patron.respondent.retry = case["retry"] * 1000 // 1024
            else:
                return ["bad-op"]
            world.events = []
            out = []

            def record():
                cs = client.cs
                ca = client.ca
                lha = stack.local.ha if stack is not None else None
                out.append("%s ; c=%d%s x=%d o=%d s=%s ca=%s l=%s" % (
                    " ".join(world.events) or "-", bool(client.connected),
                    (" a=%d" % bool(client.accepted)) if tls else "", bool(client.cutoff), bool(client.opened),
                    cs.id if cs is not None else "-",
                    ca[1] - 50000 if ca and ca[1] is not None else "-",
                    lha[1] - 50000 if lha and lha[1] is not None else "-"))
                world.events = []

            def service(letter):
                import ssl
                try:
                    if letter == "B":
                        client.serviceConnect()
                    elif letter == "S" and stack is not None:
                        stack.serviceConnect()
                    elif letter == "H" and patron is not None:
                        patron.serviceAll()
                    else:
                        raise KeyError("bad-op")
                except ssl.SSLError:
                    world.events.append("!")          # the handshake error escaped the service call

            for tok in case["pre"]:
                k, arg = tok[0], tok[1:]
                world.recv = "w"
                if k == "A":
                    clock.advanceStamp(int(arg) / TICK)
                elif k in "BSH":
                    code, _, hs = arg.partition(":")
                    world.code = int(code)
                    world.hs = hs or "k"
                    service(k)
                elif tok == "L":
                    world.recv = case.get("loss", "closed")
                    client.serviceReceives()
                elif tok == "c":
                    client.close()
                elif tok == "o":
                    client.reopen()
                else:
                    return ["bad-op"]
                record()
            lis = case.get("listen")
            if lis:
                world.listen_k = int(lis["k"])
                world.listen_h = int(lis.get("h", 1))
                world.recv = "w"
                letter = {"bare": "B", "stack": "S", "patron": "H"}[kind]
                for dt in lis["dts"]:
                    clock.advanceStamp(int(dt) / TICK)
                    service(letter)
                    record()
            return out or ["-"]
        except KeyError:
            return ["bad-op"]
        finally:
            clienting.socket = saved

    # ---- model
    def _req(self, case, head="run"):
        if case.get("tls"):
            head = {"run": "tls", "region D28": "regiontls D28"}[head]
        parts = [head, str(case["timeout"]), str(case["rec"]), "N" if case.get("retry") is None else str(case["retry"])]
        parts += case["pre"]
        lis = case.get("listen")
        if lis:
            parts += (["/", case["kind"], str(lis["k"])] + ([str(lis.get("h", 1))] if case.get("tls") else []) +
                      [str(d) for d in lis["dts"]])
        return " ".join(parts)

    def requests(self, case):
        for tok in case["pre"]:
            if (tok[0] == "S" and case["kind"] != "stack") or (tok[0] == "H" and case["kind"] != "patron"):
                return ["bad-request"]
        # the two region predicates ride along so that attributing a failing input costs no extra driver process
        return [self._req(case), self._req(case, "region D28")]

    _regions = {}

    def model_post(self, case, replies):
        if len(replies) == 2:
            self._regions[core.case_key(case)] = {"D28": replies[1] == "true"}
        return replies[0].split(" | ")

    # ---- oracle
    def oracle(self, case, out):
        if out and (out[0] == "bad-op" or out[0].startswith("HARNESS-EXC")):
            return None if out[0] == "bad-op" else out[0]
        lis = case.get("listen")
        n_pre = len(case["pre"])
        n = n_pre + (len(lis["dts"]) if lis else 0)
        if n == 0:
            return None
        if len(out) != n:
            return "implementation answered %d of %d calls" % (len(out), n)
        recs = []
        for line in out:
            ev, st = line.split(" ; ")
            f = dict(x.split("=") for x in st.split(" "))
            recs.append(([] if ev == "-" else ev.split(" "), f))
        # (a) a connected client reports the live socket's address; the stack's local.ha follows it
        toks = case["pre"] + (["R"] * (len(lis["dts"]) if lis else 0))
        svc = {"bare": "B", "stack": "S", "patron": "H"}[case["kind"]]
        tls = bool(case.get("tls"))
        prev_c = "0"
        established = set()      # sockets whose connect_ex (and, for TLS, handshake) has succeeded
        tcp_ok = set()
        for i, (ev, f) in enumerate(recs):
            for e in ev:
                if e.startswith("?") and e.split("=")[1] in ("0", str(errno.EISCONN)):
                    tcp_ok.add(e[1:].split("=")[0])
                    if not tls:
                        established.add(e[1:].split("=")[0])
                if e.startswith("#") and e.endswith("=k") and e[1:].split("=")[0] in tcp_ok:
                    established.add(e[1:].split("=")[0])
            if f["c"] == "1" and f["ca"] != f["s"]:
                return "call %d: connected on socket %s but reports the address of socket %s" % (i, f["s"], f["ca"])
            if f["c"] == "1" and f["s"] not in established:
                return ("call %d: reports connected on socket %s whose connect%s never completed"
                        % (i, f["s"], "/handshake" if tls else ""))
            letter = toks[i][0] if toks[i] != "R" else svc
            if prev_c == "0" and f["c"] == "1" and letter == "S" and f["l"] != f["ca"]:
                return "call %d: the stack connected on socket %s but local.ha is %s" % (i, f["ca"], f["l"])
            prev_c = f["c"]
        # (b) not reconnectable: after a cut off no socket is opened until the owner acts
        if not case["rec"]:
            cut = False
            for i, (ev, f) in enumerate(recs):
                if toks[i] in ("c", "o"):
                    cut = False
                if cut and any(e.startswith("+") for e in ev):
                    return "call %d: a client that is not reconnectable opened a socket after a cut off" % i
                if f["c"] == "1" and f["x"] == "1":
                    cut = True
                if f["x"] == "0":
                    cut = False
        # (c) listening server: connected within k + 1 calls after the reconnect timeout has elapsed
        if lis and case["rec"] and case["timeout"] > 0:
            k = int(lis["k"]) + (int(lis.get("h", 1)) - 1 if case.get("tls") else 0)   # calls a fresh socket needs
            D = max(case["timeout"], abs(case["retry"]) if case.get("retry") is not None else 0)
            t, r1 = 0, None
            for j, dt in enumerate(lis["dts"]):
                t += dt
                if t >= D:
                    r1 = j
                    break
            if r1 is not None and len(lis["dts"]) > r1 + k + 1:
                idx = n_pre + r1 + k + 1
                f = recs[idx][1]
                if not (f["c"] == "1" and f["x"] == "0"):
                    return ("server listening (latency %d calls), reconnect timeout %d elapsed at round %d, but after %d more "
                            "calls the client is still not connected (c=%s x=%s)" % (k, D, r1, k + 1, f["c"], f["x"]))
        return None

    def nontrivial(self, case, out):
        seen_open = False
        for line in out:
            if " ; " not in line:
                return False
            ev = line.split(" ; ")[0].split(" ")
            for e in ev:
                if e.startswith("+"):
                    seen_open = True
                elif e.startswith("?") and seen_open:
                    return True
        return False

    def bucket(self, case, out):
        tags = [case["kind"], "rec%d" % case["rec"],
                "T%s" % ("pos" if case["timeout"] > 0 else "zero" if case["timeout"] == 0 else "neg")]
        if case.get("listen"):
            tags.append("listen-k%d" % case["listen"]["k"])
            if out and " ; " in out[-1]:
                tags.append("ends-live" if ("c=1 x=0" in out[-1]) else "ends-down")
        tags.append("build-" + case.get("build", "given"))
        if case.get("tls"):
            tags.append("tls")
        if any(t == "L" for t in case["pre"]):
            tags.append("loss")
        if case.get("retry") is not None:
            tags.append("retry")
        return "/".join(tags)

    def region(self, finding, case):
        fid = finding.get("id")
        if fid == "D28":
            hit = self._regions.get(core.case_key(case))
            if hit is not None:
                return hit[fid]
            r = core.Driver(self.ENGINE).run([self._req(case, "region " + fid)])
            return r == ["true"]
        return False

    def shrink_candidates(self, case):
        """smaller variants that stay OUTSIDE the regions of the known findings (a shrunk replay must not drift
        into an input on which the recorded misbehaviour explains the failure)"""
        cands = []
        pre = case["pre"]
        for i in range(len(pre)):
            cands.append(dict(case, pre=pre[:i] + pre[i + 1:]))
        lis = case.get("listen")
        if lis and len(lis["dts"]) > 1:
            cands.append(dict(case, listen=dict(lis, dts=lis["dts"][:-1])))
            if lis["k"] > 1:
                cands.append(dict(case, listen=dict(lis, k=lis["k"] - 1)))
            if lis.get("h", 1) > 1:
                cands.append(dict(case, listen=dict(lis, h=lis["h"] - 1)))
        cands = [c for c in cands if self.requests(c) != ["bad-request"]]
        if not cands:
            return
        rep = core.Driver(self.ENGINE).run([self._req(c, "region D28") for c in cands])
        for c, r in zip(cands, rep):
            if r == "false":
                yield c

    # ---- extra evidence: down/up schedule over real loopback sockets
    def extra_evidence(self):
        try:
            return {"loopback": self._loopback()}
        except Exception as ex:
            return {"loopback": "not run: %s: %s" % (type(ex).__name__, ex)}

    def _loopback(self):
        import time, socket
        from ioflo.aio.tcp import clienting, serving
        from ioflo.base import storing
        s = socket.socket()
        s.bind(("127.0.0.1", 0))
        port = s.getsockname()[1]
        s.close()
        store = storing.Store(stamp=0.0)
        beta = clienting.Client(ha=("127.0.0.1", port), store=store, timeout=0.2, reconnectable=True)
        beta.reopen()
        calls_down = 0
        for _ in range(8):                       # server down: refused, reopened, never connected
            beta.serviceConnect()
            calls_down += 1
            store.advanceStamp(0.05)
            time.sleep(0.002)
        was_down = not beta.connected
        alpha = serving.Server(port=port, store=store)
        alpha.reopen()
        calls_up = 0
        try:
            for _ in range(200):
                beta.serviceConnect()
                alpha.serviceConnects()
                calls_up += 1
                if beta.connected and beta.ca in alpha.ixes:
                    break
                store.advanceStamp(0.05)
                time.sleep(0.002)
            ok = bool(beta.connected) and beta.ca == beta.cs.getsockname() and beta.ha == beta.cs.getpeername()
            return {"stayed_down_while_server_down": was_down, "connected_after_server_up": ok, "calls_after_up": calls_up}
        finally:
            beta.close()
            alpha.closeAll()
