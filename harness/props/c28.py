"""C28 — idle timeouts drop only idle connections.

Model:    lean/IofloModel/Model/Idle.lean (Incomer / IncomerTls timer + refresh, Valet / Porter serviceConnects,
          Requestant.checkPersisted), version `fixed` = with fixes/D15-incomertls-refresh.patch
Theorems: lean/IofloModel/Props/C28.lean
Tie:      one schedule per case: clock advances of the store, arrivals, serviceConnects, receptions and
          transmissions on individual connections (bytes moved, blocked, end of stream) and parsed request heads,
          run on a real Valet or Porter over Server / ServerTls with listen and socket doubles and on the Lean driver
          (engine `idle`); after every operation the table (timeout, timer stop, cutoff, persisted per connection) and
          the connections closed by that operation are compared.  Times are multiples of 1/8 s (exact in binary64).
Oracle:   (independent of the model) from the schedule and the double's view: a connection that was closed without
          having been cut off must have moved no byte for at least the configured timeout, the timeout must be
          positive, and the connection must not be HTTP-persistent.
"""
import errno, itertools
from collections import deque
import core
from props import _wa_doubles as D

Q = 0.125                   # seconds per tick (dyadic: float arithmetic on stamps is exact)
HA = ("127.0.0.1", 8080)


def peer(i):
    return ("10.0.%d.%d" % (i // 250, i % 250 + 1), 4000 + i)


def request_text(ver, cl, ka, body):
    """a complete HTTP request and what its head says: (bytes, chunked, has a usable length)"""
    lines = ["%s /idle HTTP/%s" % ("POST" if body in ("len", "badlen", "chunked") else "GET",
                                    "1.1" if ver == "11" else "1.0"), "Host: example"]
    conn = (["Keep-Alive"] if ka else []) + (["close"] if cl else [])
    if conn:
        lines.append("Connection: " + ", ".join(conn))
    payload = b""
    if body == "len":
        lines.append("Content-Length: 3")
        payload = b"abc"
    elif body == "badlen":
        lines.append("Content-Length: abc")
    elif body == "chunked":
        lines.append("Transfer-Encoding: chunked")
        payload = b"3\r\nabc\r\n0\r\n\r\n"
    text = "\r\n".join(lines).encode("ascii") + b"\r\n\r\n" + payload
    chunked = body == "chunked"
    # no Content-Length and not chunked: "assume no body so length 0"; an unparsable one: length None
    has_length = body in ("none", "len")
    return text, chunked, has_length


class Listen:
    def __init__(self):
        self.queue = deque()

    def accept(self):
        if self.queue:
            return self.queue.popleft()
        raise D.oserr(errno.EAGAIN)

    def shutdown(self, how):
        pass

    def close(self):
        pass


def ticks(x):
    t = x / Q
    return str(int(t)) if t == int(t) else repr(x)


class Rig:
    def __init__(self, tls, front, T, servant=0, app0=0):
        from ioflo.aio.http import serving
        from ioflo.aio.tcp import serving as tcpserving
        from ioflo.base import storing
        self.store = storing.Store(stamp=0.0)           # the TCP server's store: the incomers' timers read it
        if servant:
            # the HTTP server is handed a ready servant that has a store of its own; the HTTP server's store is
            # another object, at another stamp, advanced independently (`ticka`)
            self.app_store = storing.Store(stamp=app0 * Q)
            if tls:
                srv = tcpserving.ServerTls(context=D.Ctx(), store=self.store, ha=HA, timeout=T * Q)
            else:
                srv = tcpserving.Server(store=self.store, ha=HA, timeout=T * Q)
            kw = dict(servant=srv, store=self.app_store, ha=HA, timeout=T * Q)
        else:
            self.app_store = self.store
            kw = dict(store=self.store, ha=HA, timeout=T * Q, scheme="https" if tls else "http")
            if tls:
                kw["context"] = D.Ctx()
        self.h = serving.Valet(**kw) if front == "valet" else serving.Porter(**kw)
        self.front = front
        self.listen = Listen()
        self.h.servant.ss = self.listen
        self.tls = tls
        self.socks = []

    def ix(self, i):
        return self.h.servant.ixes.get(peer(i)) if i < len(self.socks) else None

    def requestant(self, i):
        if self.front == "valet":
            return self.h.reqs.get(peer(i))
        st = self.h.stewards.get(peer(i))
        return st.requestant if st is not None else None

    def do(self, op):
        name = op[0]
        if name == "tick":
            self.store.stamp = self.store.stamp + op[1] * Q
        elif name == "ticka":
            if self.app_store is not self.store:
                self.app_store.stamp = self.app_store.stamp + op[1] * Q
        elif name == "arrive":
            sock = D.Sock(peer=peer(len(self.socks)), name=HA)
            sock.handshakes.append(("ok",))
            self.socks.append(sock)
            self.listen.queue.append((sock, sock.peer))
        elif name == "connects":
            self.h.serviceConnects()
        elif name in ("rx", "eof", "tx", "txb"):
            ix = self.ix(op[1])
            if ix is None:
                return
            sock = self.socks[op[1]]
            if name == "rx":
                if op[2]:
                    sock.recvs.append(("data", b"r" * op[2]))
                ix.serviceReceives()
            elif name == "eof":
                sock.recvs.append(("data", b""))
                ix.serviceReceives()
            elif name == "tx":
                sock.sends.append(("acc", op[2]))
                ix.tx(b"t" * op[2])
                ix.serviceTxes()
                sock.sends.clear()
            else:
                ix.tx(b"t" * op[2])
                ix.serviceTxes()
        elif name == "req":
            ix, req = self.ix(op[1]), self.requestant(op[1])
            if ix is None or req is None:
                return
            text, _, _ = request_text(*op[2:])
            if not ix.cutoff:
                del ix.rxbs[:]             # the application has consumed what `rx` operations delivered earlier,
                req.makeParser()           # and waits for a new message
            self.socks[op[1]].recvs.append(("data", text))
            ix.serviceReceives()           # bytes arrive (nothing is read on a cut-off connection) ...
            req.parse()                    # ... and the head is parsed: parseHead -> checkPersisted
        elif name == "cp":
            req = self.requestant(op[1])
            if req is None or self.ix(op[1]) is None:
                return
            ver, cl, ka, ch, ln = op[2:]
            req.version = {"11": (1, 1), "10": (1, 0)}.get(ver, (2, 0))
            req.headers = {}
            if cl or ka:
                req.headers["connection"] = ", ".join((["Keep-Alive"] if ka else []) + (["close"] if cl else []))
            req.chunked = bool(ch)
            req.length = 10 if ln else None
            req.checkPersisted()
        else:
            raise KeyError(name)

    def table(self):
        out = []
        for i in range(len(self.socks)):
            ix = self.ix(i)
            if ix is None:
                continue
            out.append((i, ix))
        return out

    def line(self, before):
        now = self.store.stamp
        conns = []
        for i, ix in self.table():
            req = self.requestant(i)
            p = req.persisted if req is not None else None
            conns.append("%d:%s:%s:%d:%s" % (i, ticks(ix.timeout), ticks(ix.timer.stop), int(bool(ix.cutoff)),
                                             "N" if p is None else "T" if p else "F"))
        present = {i for i, _ in self.table()}
        closed = ["%d:%s:%d" % (i, ticks(now), int(bool(ix.cutoff))) for i, ix in before if i not in present]
        return "now=%s conns=%s closed=%s" % (ticks(now), ",".join(conns) or ".", ",".join(closed) or ".")


def parse(line):
    f = dict(p.split("=", 1) for p in line.split())
    conns = {}
    if f["conns"] != ".":
        for e in f["conns"].split(","):
            i, to, stop, cut, p = e.split(":")
            conns[int(i)] = (to, stop, int(cut), p)
    closed = []
    if f["closed"] != ".":
        for e in f["closed"].split(","):
            i, at, cut = e.split(":")
            closed.append((int(i), at, int(cut)))
    return f["now"], conns, closed


class CHECK(core.Check):
    PROPERTY = "C28"
    LEAN_MODULES = ["IofloModel.Props.C28"]
    ENGINE = "idle"
    N_QUICK = 1500
    N_THOROUGH = 30000
    N_SEARCH = 3000
    RULE = ("a case = (plain or TLS server, Valet or Porter, timeout T in ticks of 1/8 s) and a schedule over: tick d, arrive, "
            "serviceConnects, rx i n / tx i n (n bytes moved, 0 = would block), txb (blocked send), eof i, cp i (a parsed "
            "request head: HTTP version, Connection: close / keep-alive, chunked, content-length). Exhaustive: every "
            "schedule of length <= 3 (quick) / <= 4 (thorough) over 10 operations after [arrive, connects], on all four "
            "server kinds, built both ways - the HTTP server makes its own servant (one store), or is handed a ready "
            "Server / ServerTls that has its own store while the HTTP server's store starts at another stamp and advances "
            "at another rate (`ticka`); random: up to 4 connections, 40 operations, T in {0, 3, 8, 16}. Non-trivial = bytes moved on a "
            "connection after its accept tick and a serviceConnects ran at least T ticks after the accept (so the first "
            "timer alone would have closed it), or a persisted connection outlived T; distinct by the whole case.")
    TRUSTED = ["correspondence: the real Valet / Porter over Server / ServerTls run in-process with listen and socket doubles "
               "(ssl context stub whose wrap_socket returns the double; handshake answers 'done'); the store's stamp is the "
               "clock and is set by the harness in multiples of 1/8 s, so the float arithmetic of StoreTimer is exact",
               "`req` feeds real request bytes through the double and calls the connection's Requestant.parse() (real "
               "parseHead -> checkPersisted); `cp` sets version / headers / chunked / length on that Requestant and calls "
               "checkPersisted() directly; the full HTTP parser is properties C29-C31",
               "bytes moved = what the socket double accepted / returned"]
    PARTIAL = ["model = repaired IncomerTls (fixes/D15-incomertls-refresh.patch); on the unpatched tree a busy TLS connection "
               "closed T after accept is a VIOLATION (C28_D15_orig_tls_drops_busy)",
               "real time (wall clock, OS scheduling) and IEEE rounding of non-dyadic stamps are outside the model",
               "Steward.refresh() refers to an undefined name `incomer` (NameError) - reachable only from a subclass that "
               "streams (pour with a responder that has not ended); not modelled",
               "closing a connection because its response ended (non-persistent request) is properties C30/C31, not modelled"]
    TECHNIQUE = ("Lean 4 theorems (per-connection invariant stop = last activity + T, preserved by every operation; "
                 "induction over schedules) + differential correspondence with a stepped store clock and socket doubles")
    LEVEL_TEXT = ("Proved on the model for all schedules, Valet and Porter, plain server and TLS server with the D15 repair: "
                  "C28_closed_only_if_idle (every closing is a cutoff or happened >= T after the last byte, with the check "
                  "on and the connection not persisted), C28_activity_restarts, C28_persisted_never_idled (both versions), "
                  "C28_persist_rule, C28_idle_is_closed, C28_tls_like_plain (repaired TLS = plain, every schedule); as found: "
                  "C28_D15_orig_tls_drops_busy. No _partial theorem.")
    LEVEL_NOTE = ("Trusted: Lean kernel; axioms propext, Quot.sound (Classical.choice if listed); transcription of the timer / "
                  "refresh / serviceConnects / checkPersisted code validated by the correspondence runs; the doubles; exact "
                  "time in the model vs binary64 on a dyadic grid in the run. Not covered: real sockets and clocks, the TLS "
                  "record layer, HTTP parsing, response-driven closes.")

    OPS = [["tick", 1], ["tick", 7], ["connects"], ["rx", 0, 5], ["tx", 0, 5], ["txb", 0, 5], ["eof", 0],
           ["req", 0, "11", 0, 0, "none"], ["req", 0, "10", 0, 0, "len"], ["arrive"]]

    def exhaustive(self, tier):
        L = 4 if tier == "thorough" else 3
        k = 0
        for tls in (0, 1):
            for front in ("valet", "porter"):
                for n in range(1, L + 1):
                    for seq in itertools.product(self.OPS, repeat=n):
                        k += 1
                        servant = k % 2
                        yield {"tls": tls, "front": front, "T": 8, "servant": servant,
                               "app0": [0, 3, 8, 100][(k // 2) % 4] if servant else 0,
                               "ops": [["arrive"], ["connects"]] + [list(o) for o in seq] + [["connects"]]}

    def generate(self, rng, n, tier):
        for _ in range(n):
            T = rng.choice([0, 3, 8, 8, 16])
            nconn = 0
            ops = []
            servant = rng.randrange(2)
            app0 = rng.choice([0, 1, T, 100]) if servant else 0
            for _ in range(rng.choice([6, 12, 24, 40])):
                x = rng.random()
                i = rng.randrange(max(nconn, 1))
                if x < 0.12 and nconn < 4:
                    ops.append(["arrive"])
                    nconn += 1
                elif x < 0.34:
                    ops.append(["connects"])
                elif x < 0.58:
                    ops.append(["tick", rng.choice([1, 1, 2, max(T - 1, 1), T or 5, T + 1, rng.randrange(1, 20)])])
                    if servant and rng.random() < 0.7:      # the two stores advance at different rates
                        ops.append(["ticka", rng.choice([0, ops[-1][1], 2 * ops[-1][1], rng.randrange(1, 40)])])
                elif x < 0.70:
                    ops.append(["rx", i, rng.choice([0, 1, 5, 100])])
                elif x < 0.82:
                    ops.append(["tx", i, rng.choice([0, 1, 5, 100])])
                elif x < 0.86:
                    ops.append(["txb", i, rng.choice([1, 5])])
                elif x < 0.90:
                    ops.append(["eof", i])
                elif x < 0.95:
                    ops.append(["cp", i, rng.choice(["11", "11", "10", "xx"]), rng.randrange(2) if rng.random() < 0.4 else 0,
                                rng.randrange(2), rng.randrange(2), rng.randrange(2)])
                else:
                    ops.append(["req", i, rng.choice(["11", "11", "10"]), rng.randrange(2) if rng.random() < 0.4 else 0,
                                rng.randrange(2), rng.choice(["none", "none", "len", "badlen", "chunked"])])
            yield {"tls": rng.randrange(2), "front": rng.choice(["valet", "porter"]), "T": T, "servant": servant,
                   "app0": app0, "ops": ops}

    # ------------------------------------------------------------------ both sides
    def requests(self, case):
        out = ["reset fixed %d %s %d" % (case["tls"], case["front"], case["T"])]
        for op in case["ops"]:
            if op[0] == "req":
                text, ch, ln = request_text(*op[2:])
                out.append("req %d %d %s %d %d %d %d" % (op[1], len(text), op[2], op[3], op[4], int(ch), int(ln)))
            else:
                out.append(" ".join(str(x) for x in op))
        return out

    def impl(self, case):
        # the transports' logging statements are code on the data path: every case runs at a verbosity of its own
        with D.console_at(D.verbosity_of(core.case_key(case))):
            return self._impl_at_level(case)

    def _impl_at_level(self, case):
        rig = Rig(bool(case["tls"]), case["front"], case["T"], case.get("servant", 0), case.get("app0", 0))
        lines = ["ok"]
        for op in case["ops"]:
            before = rig.table()
            try:
                rig.do(op)
            except Exception as ex:
                lines.append("ERR %s: %s" % (type(ex).__name__, str(ex)[:60]))
                continue
            lines.append(rig.line(before))
        return lines

    # ------------------------------------------------------------------ the property on the implementation
    def oracle(self, case, out):
        ops, T = case["ops"], case["T"]
        if len(out) != len(ops) + 1 or out[0] != "ok":
            return "adapter: %d lines for %d ops: %s" % (len(out), len(ops), out[:2])
        last, now = {}, 0
        prev = {}
        for i, (op, line) in enumerate(zip(ops, out[1:])):
            what = "op %d %s" % (i, " ".join(str(x) for x in op))
            if line.startswith(("ERR", "HARNESS-EXC")):
                return "%s: %s" % (what, line)
            if op[0] == "tick":
                now += op[1]
            tnow, conns, closed = parse(line)
            if tnow != str(now):
                return "%s: store stamp is %s ticks, schedule says %d" % (what, tnow, now)
            # bytes moved: what the double accepted / returned on a connection that was there and not cut off
            if op[0] in ("rx", "tx") and op[2] > 0 and op[1] in prev and prev[op[1]][2] == 0:
                last[op[1]] = now
            if op[0] == "req" and op[1] in prev and prev[op[1]][2] == 0:
                last[op[1]] = now
            for cid in conns:
                last.setdefault(cid, now)           # first seen = accepted in this call
            for cid, at, cut in closed:
                last.setdefault(cid, now)
                if op[0] != "connects":
                    return "%s: connection %d closed outside serviceConnects" % (what, cid)
                if cut and case["front"] == "valet":
                    continue                        # closed because the peer went away, not for idleness
                idle = now - last[cid]
                persisted = prev.get(cid, (None, None, None, "N"))[3] == "T"
                if T <= 0:
                    return "%s: connection %d closed by the idle timer although the timeout is 0" % (what, cid)
                if idle < T:
                    return ("%s: connection %d closed for idleness %d ticks after its last byte (timeout %d)"
                            % (what, cid, idle, T))
                if persisted:
                    return "%s: persisted connection %d closed by the idle timer" % (what, cid)
            # ... and an idle connection IS dropped: one that was in the table before this serviceConnects, has its idle
            # check on (timeout not switched off by persistence) and moved no byte for at least T, must not survive it
            if op[0] == "connects" and T > 0:
                for cid, (to, stop, cutf, p) in prev.items():
                    if cid in conns and to != "0" and now - last.get(cid, now) >= T:
                        return ("%s: connection %d moved no byte for %d ticks (timeout %d) and was not dropped"
                                % (what, cid, now - last[cid], T))
            for cid in prev:
                if cid not in conns and cid not in [c[0] for c in closed]:
                    return "%s: connection %d vanished without being reported closed" % (what, cid)
            prev = conns
        return None

    def nontrivial(self, case, out):
        T = case["T"]
        if T <= 0:
            return False
        now, accept, moved_late, survived = 0, {}, set(), False
        for op, line in zip(case["ops"], out[1:]):
            if not line.startswith("now="):
                return False
            if op[0] == "tick":
                now += op[1]
            _, conns, closed = parse(line)
            for cid in conns:
                accept.setdefault(cid, now)
            if op[0] in ("rx", "tx", "req") and (op[0] == "req" or op[2] > 0) and op[1] in accept and now > accept[op[1]]:
                moved_late.add(op[1])
            if op[0] == "connects":
                for cid, (to, stop, cut, p) in conns.items():
                    if now >= accept[cid] + T and (cid in moved_late or p == "T"):
                        survived = True
        return survived

    def bucket(self, case, out):
        kinds = {op[0] for op in case["ops"]}
        closed = any("closed=" in l and not l.endswith("closed=.") for l in out)
        return "%s/%s%s/T%d/%s%s" % ("tls" if case["tls"] else "plain", case["front"],
                                     "+servant@%d" % case.get("app0", 0) if case.get("servant") else "", case["T"],
                                   "persist" if "cp" in kinds else "nopersist", "/closed" if closed else "")

    def shrink_candidates(self, case):
        ops = case["ops"]
        for i in range(len(ops)):
            c = dict(case)
            c["ops"] = ops[:i] + ops[i + 1:]
            yield c
