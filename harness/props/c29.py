"""C29 — HTTP messages parse the same however their bytes arrive.
Model: lean/IofloModel/Model/HttpLex.lean (parseLine, parseLeader, parseChunk, start lines) and
       lean/IofloModel/Model/HttpMsg.lean (Requestant / Respondent parseHead, parseBody, Parsent.parseMessage)
Theorems: lean/IofloModel/Props/C29.lean
Tie: a serving.Requestant / clienting.Respondent of the working tree is fed the pieces of a byte stream
     (msg.extend + parse() per piece, close(), makeParser() for the next pipelined message); the parser fields
     are compared with the Lean model.
Oracle (independent of the model): for generated well-formed messages the fields after any split must equal the
     fields after one receive of the whole stream, must equal the content the message was rendered from, and the
     bytes after the message must be left in the buffer."""
import itertools, os
import core

METHODS = ["GET", "HEAD", "PUT", "PATCH", "POST", "DELETE", "OPTIONS", "TRACE", "CONNECT"]


def hx(b):
    return bytes(b).hex() if b else "-"


def unhx(s):
    return b"" if s == "-" else bytes.fromhex(s)


def lat(s):
    """str (latin-1 decoded by the parser) -> hex"""
    return "N" if s is None else hx(s.encode("iso-8859-1"))


def tfn(v):
    return "N" if v is None else ("T" if v else "F")


class _Incomer(object):
    """stands for the tcp Incomer: Requestant.checkPersisted assigns .timeout"""
    def __init__(self):
        self.timeout = 1.0
        self.ca = ("127.0.0.1", 1)


def run_impl(kind, method, ops, maxline=65536):
    """ops: bytes = msg.extend + parse(); "c" = close(); "n" = makeParser() + parse(); "m" = makeParser(); "p" = parse()"""
    from ioflo.aio.http import httping, serving, clienting
    old = httping.MAX_LINE_SIZE
    httping.MAX_LINE_SIZE = maxline
    try:
        msg = bytearray()
        if kind == "req":
            p = serving.Requestant(msg=msg, incomer=_Incomer())
        else:
            p = clienting.Respondent(msg=msg, method=method)
        escaped = None
        for op in ops:
            if op == "c":
                p.close()
                continue
            if op == "m":                      # makeParser() only: what Patron.serviceResponse does
                p.makeParser()
                continue
            if op == "n":
                p.makeParser()
            elif op != "p":
                msg.extend(op)
            try:
                p.parse()
            except StopIteration:
                if escaped is None:
                    escaped = "StopIteration"
            except Exception as ex:
                if escaped is None:
                    escaped = type(ex).__name__
        out = ["state escaped=%s ended=%s errored=%s parser=%s" % (
            escaped or "~", tfn(p.ended), tfn(p.errored), "none" if p.parser is None else "live")]
        ver = "N" if p.version is None else "%d%d" % tuple(p.version)
        if kind == "req":
            out.append("start %s %s %s" % (lat(p.method), lat(p.url), ver))
        else:
            out.append("start %s %s %s" % (ver, "N" if p.status is None else "%d" % p.status, lat(p.reason)))
        out.append("flags chunked=%s length=%s persisted=%s" % (
            tfn(p.chunked), "N" if p.length is None else "%d" % p.length, tfn(p.persisted)))
        if p.headers is None:
            out.append("hdrs N")
        else:
            for k, v in p.headers.items():
                out.append("hdr %s %s" % (lat(k), lat(v)))
        out.append("body %s" % hx(p.body))
        if p.parms is None:
            out.append("parms N")
        else:
            for k, v in p.parms.items():
                out.append("parm %s %s" % (lat(k) if isinstance(k, str) else "B" + hx(k), "~" if v is None else lat(v) if isinstance(v, str) else "B" + hx(v)))
        if p.trails is None:
            out.append("trails N")
        else:
            for k, v in p.trails.items():
                out.append("trail %s %s" % (lat(k), lat(v)))
        out.append("left %s" % hx(msg))
        if kind == "rsp" and p.evented:
            # an event-stream response: what the Respondent shows of its event source
            out.append("sse retry=%d leid=%s" % (p.retry, "N" if p.leid is None else hx(p.leid.encode("utf-8"))))
            for e in p.events:
                u = lambda x: "N" if x is None else hx(x.encode("utf-8"))
                out.append("ev %s %s %s" % (u(e["id"]), u(e["name"]), u(e["data"])))
        return out
    finally:
        httping.MAX_LINE_SIZE = old


# ------------------------------------------------------------------ generation of well-formed messages

NAMES = ["Host", "Accept", "X-Custom", "User-Agent", "Cookie", "x-lower", "ETag", "X-\xc9t\xe9", "Date", "Server"]
VALUES = ["example.com", "example.com:8080", "*/*", "a=b; c=d", "Mon, 01 Jan 2024 00:00:00 GMT", "", "x", "caf\xe9",
          "text/html;q=0.9, */*;q=0.8", "\"quoted: value\"", "a  b", "1"]
OWS = ["", " ", " ", "  ", "\t", " \t "]
TARGETS = ["/", "/index.html", "/a/b?x=1&y=2", "/p%20q?z=%C3%A9#frag", "*", "http://example.com/abs?q=1",
           "http://example.com:8080/", "/caf\xe9", "/a:b", "//double"]
BODIES = [b"", b"x", b"hello world", b"{\"a\": 1}", b"line1\r\nline2\r\n", b"0\r\n\r\n", b"\r\n\r\n", b"\x00\xff\x80binary",
          b"GET / HTTP/1.1\r\n\r\n", b"5\r\nhello\r\n", b"a" * 50]


def lodict_items(pairs):
    keys, vals = [], {}
    for k, v in pairs:
        k = k.lower()
        if k not in vals:
            keys.append(k)
        vals[k] = v
    return [[k, vals[k]] for k in keys]


def gen_headers(rng, n):
    hs = []
    for _ in range(n):
        hs.append((rng.choice(NAMES), rng.choice(OWS), rng.choice(VALUES), rng.choice(["", "", " ", "\t"])))
    return hs


def render_headers(hs):
    return b"".join(("%s:%s%s%s\r\n" % h).encode("iso-8859-1") for h in hs)


def gen_chunked(rng, body):
    """-> (bytes, parms pairs, trailer pairs)"""
    out = bytearray()
    parms = []
    i = 0
    cuts = sorted(rng.sample(range(1, len(body)), min(len(body) - 1, rng.choice([0, 1, 2, 3])))) if len(body) > 1 else []
    chunks = [body[a:b] for a, b in zip([0] + cuts, cuts + [len(body)])] if body else []
    for c in chunks:
        size = rng.choice(["%x", "%X", "0%x", "%x "]) % len(c)
        ext = ""
        if rng.random() < 0.4:
            es = []
            for _ in range(rng.choice([1, 1, 2])):
                n = rng.choice(["a", "name", "x-y", "q"])
                if rng.random() < 0.6:
                    v = rng.choice(["1", "val", "\"q\"", "b c"])
                    es.append(rng.choice(["%s=%s", " %s = %s ", "%s=%s"]) % (n, v))
                    parms.append((n, v))
                else:
                    es.append(n)
                    parms.append((n, None))
            ext = ";" + ";".join(es)
        out += (size + ext).encode() + b"\r\n" + c + b"\r\n"
    last = rng.choice(["0", "0", "00", "0 "])
    if rng.random() < 0.3:
        last += ";last=1"
        parms.append(("last", "1"))
    out += last.encode() + b"\r\n"
    trails = []
    for _ in range(rng.choice([0, 0, 0, 1, 2])):
        n = rng.choice(["X-Trailer", "Checksum", "x-t"])
        v = rng.choice(["abc", "1", "a: b", ""])
        o = rng.choice(OWS)
        trails.append((n, o, v, ""))
    out += render_headers(trails) + b"\r\n"
    pm = {}
    pk = []
    for k, v in parms:
        if k not in pm:
            pk.append(k)
        pm[k] = v
    return bytes(out), [[k, pm[k]] for k in pk], lodict_items([(n, v) for n, o, v, t in trails])


def gen_message(rng, kind):
    """-> dict(stream=bytes of the message, expect=..., method=..., needs_close=bool)"""
    hs = gen_headers(rng, rng.choice([0, 1, 2, 3, 5]))
    body = rng.choice(BODIES) if rng.random() < 0.8 else bytes(rng.randrange(256) for _ in range(rng.randrange(1, 40)))
    method = "GET"
    needs_close = False
    if kind == "req":
        m = rng.choice(METHODS)
        t = rng.choice(TARGETS)
        v = rng.choice(["HTTP/1.1", "HTTP/1.1", "HTTP/1.0"])
        start = ("%s %s %s" % (m, t, v)).encode("iso-8859-1")
        exp_start = [m, t, "10" if v == "HTTP/1.0" else "11"]
        mode = rng.choice(["none", "length", "length", "chunked", "chunked"])
    else:
        v = rng.choice(["HTTP/1.1", "HTTP/1.1", "HTTP/1.0"])
        st = rng.choice([200, 200, 201, 404, 500, 301, 204, 304, 206])
        reason = rng.choice(["OK", "Not Found", "", "Moved Permanently", "Internal Server Error"])
        start = ("%s %d %s" % (v, st, reason)).encode() if reason or rng.random() < 0.5 else ("%s %d" % (v, st)).encode()
        exp_start = ["10" if v == "HTTP/1.0" else "11", "%d" % st, reason]
        method = rng.choice(["GET", "GET", "GET", "POST", "HEAD"])
        mode = rng.choice(["close", "length", "length", "chunked", "chunked"])
        if st in (204, 304) or method == "HEAD":
            mode = "empty"
    parms = trails = None
    if mode == "length":
        hs.insert(rng.randrange(len(hs) + 1), (rng.choice(["Content-Length", "content-length", "CONTENT-LENGTH"]),
                                               rng.choice(OWS), "%d" % len(body), ""))
        wire = body
    elif mode == "chunked":
        hs.insert(rng.randrange(len(hs) + 1), (rng.choice(["Transfer-Encoding", "transfer-encoding"]), rng.choice(OWS),
                                               rng.choice(["chunked", "Chunked", "CHUNKED"]), ""))
        wire, parms, trails = gen_chunked(rng, body)
        if not trails:
            trails = None
    elif mode == "none":
        body, wire = b"", b""
    elif mode == "empty":
        body, wire = b"", b""
        if rng.random() < 0.5:
            hs.append(("Content-Length", " ", "0" if st != 304 or True else "0", ""))
    else:  # close
        wire = body
        needs_close = True
    if rng.random() < 0.3:
        hs.append(("Connection", " ", rng.choice(["close", "keep-alive", "Keep-Alive"]), ""))
    if rng.random() < 0.3:
        hs.append(("Content-Type", rng.choice(OWS), rng.choice(["application/json", "text/plain; charset=utf-8", "text/html", "text/plain; foo", "text/plain;",
                                                                "application/json;charset", "text/plain; charset=\"utf-8\"; x", "a/b;;"]), ""))
    pre = b""
    if kind == "rsp" and rng.random() < 0.08:
        pre = b"HTTP/1.1 100 Continue\r\n" + rng.choice([b"", b"X-Wait: 1\r\n"]) + b"\r\n"
    stream = pre + start + b"\r\n" + render_headers(hs) + b"\r\n" + wire
    expect = {"start": exp_start, "headers": lodict_items([(n, v) for n, o, v, t in hs]), "body": hx(body),
              "parms": parms, "trails": trails}
    return {"stream": stream, "expect": expect, "method": method, "needs_close": needs_close, "mode": mode}


def pieces_of(stream, cuts):
    out, a = [], 0
    for c in list(cuts) + [len(stream)]:
        out.append(stream[a:c])
        a = c
    return out


class CHECK(core.Check):
    PROPERTY = "C29"
    LEAN_MODULES = ["IofloModel.Props.C29"]
    ENGINE = "httpmsg"
    N_QUICK = 1000
    N_THOROUGH = 60000
    N_SEARCH = 3000
    RULE = ("well-formed requests (all 9 methods; origin, asterisk and absolute targets; HTTP/1.0 and 1.1) and responses "
            "(statuses incl. 204/304, answers to HEAD, empty reason, optional 100-Continue preface) rendered from "
            "abstract content: header lines `name:` OWS value OWS with OWS in {none, blank, blanks, tab}, duplicate and "
            "latin-1 names/values; body by Content-Length, by chunks (hex sizes in several spellings, extensions with "
            "and without values, last chunk with extensions, 0-2 trailer lines) or until close; followed by 0-20 bytes "
            "of the next message; cut at 0-9 random positions (search: next to CR/LF); pipelined second message via "
            "makeParser(); byte-level damage of such messages (30%) with lowered MAX_LINE_SIZE and close() for the "
            "model/code tie; exhaustive: fixed short messages of every shape under every split into <= 3 pieces; "
            "non-trivial = message parsed to the end without error from >= 2 pieces; distinct by (kind, stream, cuts)")
    TRUSTED = ["correspondence: serving.Requestant / clienting.Respondent of the working tree (msg.extend + parse() per "
               "piece, close(), makeParser()) vs the Lean model (driver engine 'httpmsg'): start line fields, headers in "
               "order, chunked/length/persisted, body, chunk extension parms, trailers, ended/errored, escaped exception "
               "class, unconsumed buffer",
               "CPython bytes.find, str.split/strip/lower/partition on latin-1 text, int(str), int(str, 16); "
               "urllib.parse.urlsplit / unquote (only `urlsplit raises ValueError` is modelled, for targets whose "
               "netloc has no brackets and no non-ASCII characters)",
               "the Requestant's incomer is a stub object with a .timeout attribute",
               "the tree checked is /repo with fixes D19-parseline-earliest-eol, D16-parseleader-colon, "
               "D29a-chunk-ext-unhashable, D29b-respondent-100-continue applied, D18-parsemessage-valueerror, "
               "D29c-parsemessage-reset-parms-trails applied (all committed in /repo)"]
    PARTIAL = ["the shape theorems (C29_request_fixed_length … C29_split_independent) take as hypotheses what the parser's "
               "own line functions read in each line (ReqHead, RspHead, Chunk.wf); C29_canonical_message_split_independent "
               "has none: for canonically written requests / responses (origin-form target, HTTP/1.0 or 1.1, three-digit "
               "status other than 1xx/204/304, framing header first, other headers not touching framing or content type, "
               "Content-Length or chunked with extensions and trailers) every condition is about the bytes; canonical "
               "messages with absolute-form targets, read-until-close bodies, 100-Continue prefaces or a Content-Type "
               "header are covered only by the shape theorems",
               "lines are CRLF terminated, contain no bare CR/LF and are shorter than MAX_LINE_SIZE (at exactly "
               "MAX_LINE_SIZE bytes + CR the code's LineTooLong test depends on whether the LF has arrived)",
               "histories of a reused parser (close / makeParser / idle parse in the orders Patron and Valet produce) are "
               "in the model and judged by the oracle; the theorems cover makeParser + parse (C29_reused_parser_is_fresh)",
               "responses with Content-Type text/event-stream are in the model (event source = Model/Sse.lean; events, retry "
               "and last id compared) but the split theorems are stated for non-evented messages; request targets "
               "whose netloc has brackets or non-ASCII characters are explicitly outside the model ('unmodelled')"]
    TECHNIQUE = ("Lean 4 theorems (generic script theorem for a resumable parser: a stream that is a sequence of segments "
                 "each consumed whole and waited for on every proper prefix is parsed to the same state under every "
                 "split; instantiated for start line, header lines, chunk size/data/end, trailers, fixed-length and "
                 "until-close bodies; fuel adequacy by a measure) + differential correspondence")
    LEVEL_TEXT = ("Full proof on the model of the repaired parsers, for every split of the stream into receives: a "
                  "well-formed request or response with fixed-length body (C29_request_fixed_length, "
                  "C29_response_fixed_length), chunked body with extensions and trailers (C29_request_chunked, "
                  "C29_response_chunked) or body until close (C29_response_until_close) is parsed without error to "
                  "exactly its start line fields, header dictionary, body, extension parameters and trailers, and the "
                  "bytes after the message stay in the buffer; any two splits of such a stream give the same complete "
                  "parser state (C29_split_independent); header lines are read the same with or without white space "
                  "after the colon (C29_header_ows); request lines are read as their tokens (C29_request_line), hexadecimal "
                  "chunk sizes as their value with or without extensions (C29_chunk_size_line, C29_chunk_ext), status lines "
                  "as (version, code, reason words) for any reason bytes (C29_status_line); composed: canonically written "
                  "messages are parsed independently of the split with no hypothesis about what any parser function "
                  "returns (C29_canonical_message_split_independent). All of this holds from any fresh parser state, in "
                  "particular for the next message on a reused parser (C29_reused_parser_is_fresh, "
                  "C29_next_message_split_independent).")
    LEVEL_NOTE = ("Trusted: Lean kernel; axioms propext, Classical.choice, Quot.sound; the hand transcription of "
                  "httping/serving/clienting parsers validated by the correspondence runs; CPython str/bytes/int "
                  "primitives and urlsplit. Line-level reading of status lines and chunk size lines enters the theorems "
                  "as hypotheses about the model's own line functions. Holds for the tree with the fix patches D19, D16, "
                  "D29a, D29b.")

    def _mk(self, kind, method, stream, cuts, rest=b"", close=False, expect=None, maxline=65536, nxt=False):
        c = {"kind": kind, "method": method, "max": maxline, "stream": hx(stream), "rest": hx(rest), "cuts": list(cuts),
             "close": bool(close), "next": bool(nxt)}
        if expect is not None:
            c["expect"] = expect
        return c

    def generate(self, rng, n, tier):
        for i in range(n):
            r = rng.random()
            if r < 0.3:
                yield self._mutated(rng)
                continue
            if r < 0.38:
                yield self._pipelined(rng)
                continue
            if r < 0.46:
                yield self._history(rng)
                continue
            kind = rng.choice(["req", "rsp"])
            m = gen_message(rng, kind)
            rest = rng.choice([b"", b"", b"GET /next HTTP/1.1\r\n", b"\r\n", b"X", b"HTTP/1.1 200 OK\r\n\r\n"]) if not m["needs_close"] else b""
            total = m["stream"] + rest
            k = rng.choice([0, 1, 1, 2, 2, 3, 5, 9])
            cuts = sorted(rng.sample(range(len(total) + 1), min(k, len(total) + 1)))
            if cuts and rng.random() < 0.3:      # an empty piece = a parse() pass with no new bytes
                cuts = sorted(cuts + [rng.choice(cuts) for _ in range(rng.choice([1, 2]))])
            yield self._mk(kind, m["method"], m["stream"], cuts, rest=rest, close=m["needs_close"], expect=m["expect"])

    def _outside(self, kind, stream):
        """inputs the model declares 'unmodelled' (kept out of the generated cases)"""
        if kind == "req":
            first = stream.split(b"\n", 1)[0]
            return b"//" in first and any(c >= 128 or c in b"[]" for c in first)
        return False          # event-stream responses are in the model now

    FIXED = [
        # (kind, method, stream, close, expect)
        ("req", "GET", b"POST /u HTTP/1.1\r\nTransfer-Encoding:chunked\r\n\r\n2;a=b\r\nhi\r\n0\r\nT: 1\r\n\r\n", False,
         {"start": ["POST", "/u", "11"], "headers": [["transfer-encoding", "chunked"]], "body": "6869",
          "parms": [["a", "b"]], "trails": [["t", "1"]]}),
        ("rsp", "GET", b"HTTP/1.0 200 OK\r\nA:b\r\n\r\nbody\r\n", True,
         {"start": ["10", "200", "OK"], "headers": [["a", "b"]], "body": "626f64790d0a", "parms": None, "trails": None}),
        ("rsp", "GET", b"HTTP/1.1 404 Not Found\r\nContent-Length: 2 \r\n\r\nno", False,
         {"start": ["11", "404", "Not Found"], "headers": [["content-length", "2"]], "body": "6e6f", "parms": None,
          "trails": None}),
        ("rsp", "GET", b"HTTP/1.1 100 Continue\r\n\r\nHTTP/1.1 200 OK\r\nContent-Length:1\r\n\r\nz", False,
         {"start": ["11", "200", "OK"], "headers": [["content-length", "1"]], "body": "7a", "parms": None, "trails": None}),
        ("rsp", "GET", b"HTTP/1.1 200 OK\r\ntransfer-encoding: Chunked\r\n\r\n1\r\nx\r\n00;q\r\n\r\n", False,
         {"start": ["11", "200", "OK"], "headers": [["transfer-encoding", "Chunked"]], "body": "78",
          "parms": [["q", None]], "trails": None}),
        ("req", "GET", b"PUT /a HTTP/1.1\r\nContent-Length:3\r\nHost: h\r\n\r\nabc", False,
         {"start": ["PUT", "/a", "11"], "headers": [["content-length", "3"], ["host", "h"]], "body": "616263",
          "parms": None, "trails": None}),
        ("req", "GET", b"GET / HTTP/1.0\r\nA:\r\n\r\n", False,
         {"start": ["GET", "/", "10"], "headers": [["a", ""]], "body": "-", "parms": None, "trails": None}),
        ("rsp", "HEAD", b"HTTP/1.1 200 OK\r\nContent-Length: 5\r\n\r\n", False,
         {"start": ["11", "200", "OK"], "headers": [["content-length", "5"]], "body": "-", "parms": None, "trails": None}),
        ("rsp", "GET", b"HTTP/1.1 204 No Content\r\n\r\n", False,
         {"start": ["11", "204", "No Content"], "headers": [], "body": "-", "parms": None, "trails": None}),
    ]

    def exhaustive(self, tier):
        fixed = self.FIXED if tier == "thorough" else self.FIXED[:3]
        for kind, method, stream, close, expect in fixed:
            rest = b"" if close else b"NX"
            n = len(stream + rest)
            for i in range(n + 1):
                for j in range(i, n + 1):
                    yield self._mk(kind, method, stream, [i, j], rest=rest, close=close, expect=expect)
        for c in self._fixed_histories(tier):
            yield c

    def _fixed_histories(self, tier):
        first = {"stream": b"HTTP/1.0 200 OK\r\nA:b\r\n\r\nbody", "needs_close": True, "method": "GET"}
        nxt = [{"stream": b"HTTP/1.1 200 OK\r\nContent-Length: 3\r\n\r\nabc", "needs_close": False, "method": "GET",
                "expect": {"start": ["11", "200", "OK"], "headers": [["content-length", "3"]], "body": "616263",
                           "parms": None, "trails": None}},
               {"stream": b"HTTP/1.1 200 OK\r\nTransfer-Encoding: chunked\r\n\r\n2\r\nhi\r\n0\r\n\r\n", "needs_close": False,
                "method": "GET", "expect": {"start": ["11", "200", "OK"], "headers": [["transfer-encoding", "chunked"]],
                                            "body": "6869", "parms": [], "trails": None}}]
        for m2 in nxt:
            n = len(m2["stream"])
            for between in (["m"], ["m", "c"], ["m", "c", "c"], ["m", "p"], ["n"], ["n", "p"]):
                for i in range(n + 1):
                    js = range(i, n + 1) if tier == "thorough" else (i, min(n, i + 7))
                    for j in js:
                        yield self._history(None, kind="rsp", m1=first, m2=m2, between=between, cuts2=[i, j])
        reqs = [{"stream": b"GET /a HTTP/1.1\r\nHost: h\r\n\r\n", "needs_close": False, "method": "GET"},
                {"stream": b"POST /b HTTP/1.1\r\nContent-Length:2\r\n\r\nhi", "needs_close": False, "method": "GET",
                 "expect": {"start": ["POST", "/b", "11"], "headers": [["content-length", "2"]], "body": "6869",
                            "parms": None, "trails": None}}]
        n = len(reqs[1]["stream"])
        for between in (["m"], ["m", "p"], ["m", "p", "p"], ["n"]):
            for i in range(0, n + 1, 1 if tier == "thorough" else 3):
                yield self._history(None, kind="req", m1=reqs[0], m2=reqs[1], between=between, cuts2=[i, i])

    def search(self, rng, n, tier):
        for i in range(n):
            kind = rng.choice(["req", "rsp"])
            m = gen_message(rng, kind)
            rest = b"" if m["needs_close"] else rng.choice([b"", b"\r\n", b"GET / HTTP/1.1\r\n"])
            total = m["stream"] + rest
            pos = [k for k in range(1, len(total)) if total[k - 1:k] in b"\r\n" or total[k:k + 1] in b"\r\n"]
            cuts = sorted(set(rng.sample(pos, min(len(pos), rng.choice([1, 2, 3, 4])))))
            yield self._mk(kind, m["method"], m["stream"], cuts, rest=rest, close=m["needs_close"], expect=m["expect"])

    def shrink_candidates(self, case):
        cuts = case["cuts"]
        for i in range(len(cuts)):
            c = dict(case); c["cuts"] = cuts[:i] + cuts[i + 1:]
            yield c
        if case.get("rest", "-") != "-":
            c = dict(case); c["rest"] = "-"
            total = len(unhx(case["stream"]))
            c["cuts"] = [x for x in cuts if x <= total]
            yield c

    def _mutated(self, rng):
        """byte-level damage to a valid message: the model must follow the code there too"""
        kind = rng.choice(["req", "rsp"])
        m = gen_message(rng, kind)
        b = bytearray(m["stream"])
        for _ in range(rng.choice([1, 1, 2, 3])):
            if not b:
                break
            i = rng.randrange(len(b))
            r = rng.random()
            if r < 0.3:
                b[i] = rng.choice(b"\r\n :;=0aAxX-_ \t\x85\xa0\xff\x00")
            elif r < 0.5:
                del b[i:i + rng.choice([1, 1, 2, 5])]
            elif r < 0.8:
                b[i:i] = rng.choice([b"\r", b"\n", b"\r\n", b" ", b":", b";", b"0x", b"-", b"_", b"\xe9", b"\x00", b"HTTP/1.1", b"  "])
            else:
                j = rng.randrange(len(b))
                b[i:i] = b[j:j + 6]
        extra = rng.random()
        closeit = m["needs_close"] or extra < 0.15
        total = bytes(b)
        if self._outside(kind, total):
            total = m["stream"]
        k = rng.choice([0, 1, 2, 3])
        cuts = sorted(rng.sample(range(len(total) + 1), min(k, len(total) + 1)))
        return self._mk(kind, m["method"], total, cuts, close=closeit, maxline=rng.choice([65536, 65536, 65536, 40, 12]))

    def _pipelined(self, rng):
        """two messages on one connection: the parser is reused (makeParser) as soon as the first is complete"""
        kind = rng.choice(["req", "rsp"])
        m1 = gen_message(rng, kind)
        m2 = gen_message(rng, kind)
        while m1["needs_close"] or m1["method"] != m2["method"]:
            m1 = gen_message(rng, kind)
        total = m1["stream"] + m2["stream"]
        k = rng.choice([0, 1, 2, 3, 5])
        cuts = sorted(rng.sample(range(len(total) + 1), min(k, len(total) + 1)))
        # makeParser() right after the receive that completes message 1
        ends = list(cuts) + [len(total)]
        nxt = next(i for i, e in enumerate(ends) if e >= len(m1["stream"]))
        c = self._mk(kind, m2["method"] if kind == "rsp" else "GET", total, cuts, close=m2["needs_close"], expect=m2["expect"])
        c["next"] = True
        c["next_at"] = nxt
        return c

    def _history(self, rng, kind=None, m1=None, m2=None, between=None, cuts2=None):
        """a reused parser as its owner drives it.  Patron (rsp): response 1 (maybe read until close: close(), parse()),
        serviceResponse re-makes the parser (makeParser only), serviceAll may call close() again while the connector
        is still cut off, then the next response arrives.  Valet (req): serviceReps re-makes the parser, serviceReqs
        calls parse() on every pass whether or not bytes came."""
        kind = kind or rng.choice(["req", "rsp"])
        if m1 is None:
            m1 = gen_message(rng, kind)
            m2 = gen_message(rng, kind)
            while m1["method"] != m2["method"] or (kind == "req" and m1["needs_close"]):
                m1 = gen_message(rng, kind)
        ops = []
        s1 = m1["stream"]
        for p in pieces_of(s1, sorted(rng.sample(range(len(s1) + 1), rng.choice([0, 1, 2]))) if rng else []):
            ops.append("f" + hx(p))
        if m1["needs_close"]:
            ops += ["c", "p"]
        if between is None:
            if kind == "rsp":
                between = ["m"] + ["c"] * rng.choice([0, 1, 1, 2])
            else:
                between = ["m"] + ["p"] * rng.choice([0, 1, 2])
        ops += between
        h2 = len(ops)
        s2 = m2["stream"]
        if cuts2 is None:
            cuts2 = sorted(rng.sample(range(len(s2) + 1), min(len(s2) + 1, rng.choice([0, 1, 2, 3]))))
            if cuts2 and rng.random() < 0.4:
                cuts2 = sorted(cuts2 + [rng.choice(cuts2)])
        for p in pieces_of(s2, cuts2):
            ops.append("f" + hx(p))
        if m2["needs_close"]:
            ops += ["c", "p"]
        return {"kind": kind, "method": m2["method"], "max": 65536, "history": ops, "h2": h2, "expect": m2["expect"],
                "stream": hx(s2), "rest": "-", "cuts": list(cuts2), "close": m2["needs_close"], "next": False}

    def _ops(self, case):
        if "history" in case:
            return [o if o in ("c", "p", "m", "n") else unhx(o[1:]) for o in case["history"]]
        total = unhx(case["stream"]) + unhx(case["rest"])
        ops = list(pieces_of(total, case["cuts"]))
        if case.get("next"):
            at = case.get("next_at", len(ops) - 1)
            ops = ops[:at + 1] + ["n"] + ops[at + 1:]
        if case.get("close"):
            ops += ["c", "p"]
        return ops

    def impl(self, case):
        return run_impl(case["kind"], case["method"], self._ops(case), case["max"])

    def requests(self, case):
        ops = [o if isinstance(o, str) else "f" + hx(o) for o in self._ops(case)]
        return ["%s %s %d %s" % (case["kind"], case["method"], case["max"], " ".join(ops))]

    def model_post(self, case, replies):
        return replies[0].split(" | ")

    def oracle(self, case, out):
        exp = case.get("expect")
        if exp is None:
            return None
        if out and out[0].startswith("HARNESS-EXC"):
            return "adapter raised: " + out[0]
        total = unhx(case["stream"]) + unhx(case["rest"])
        if "history" in case:
            h = case["history"]
            tail = ["c", "p"] if case.get("close") else []
            whole = run_impl(case["kind"], case["method"],
                             [o if o in ("c", "p", "m", "n") else unhx(o[1:]) for o in h[:case["h2"]]] + [total] + tail, case["max"])
        else:
            whole = run_impl(case["kind"], case["method"], [total] + (["n"] if case.get("next") else []) +
                             (["c", "p"] if case.get("close") else []), case["max"])
        if out != whole:
            d = [(a, b) for a, b in zip(out, whole) if a != b][:2]
            return "split-dependent: cuts %r: %r" % (case["cuts"], d or (out[-2:], whole[-2:]))
        want = ["state escaped=~ ended=T errored=F parser=none"]
        if out[0] != want[0]:
            return "well-formed message not parsed to the end: %s" % out[0]
        es = exp["start"]
        wstart = [lat(es[0]), lat(es[1]), es[2]] if case["kind"] == "req" else [es[0], es[1], lat(es[2])]
        if out[1].split()[1:] != wstart:
            return "start line fields %r, content %r" % (out[1], exp["start"])
        hdrs = [l for l in out if l.startswith("hdr ")]
        if hdrs != ["hdr %s %s" % (lat(k), lat(v)) for k, v in exp["headers"]]:
            return "headers %r differ from content %r" % (hdrs[:4], exp["headers"][:4])
        body = [l for l in out if l.startswith("body ")][0]
        if body != "body " + exp["body"]:
            return "body %s differs from content %s" % (body[:60], exp["body"][:60])
        if exp["parms"] is not None:
            pm = [l for l in out if l.startswith("parm ")]
            if pm != ["parm %s %s" % (lat(k), "~" if v is None else lat(v)) for k, v in exp["parms"]]:
                return "chunk extension parms %r differ from content %r" % (pm, exp["parms"])
        tr = [l for l in out if l.startswith("trail")]
        wtr = ["trails N"] if exp["trails"] is None else ["trail %s %s" % (lat(k), lat(v)) for k, v in exp["trails"]]
        if tr != wtr:
            return "trailers %r differ from content %r" % (tr, wtr)
        if exp["parms"] is None and not any(l.startswith("parms N") for l in out) and "chunked=T" not in out[2]:
            return "chunk extension parms %r on a message that has none" % [l for l in out if l.startswith("parm")]
        if out[-1] != "left " + case["rest"]:
            return "bytes after the message not left in the buffer: %s, sent %s" % (out[-1], case["rest"])
        return None

    def nontrivial(self, case, out):
        return out[0].startswith("state escaped=~ ended=T errored=F") and len(case["cuts"]) >= 1

    def bucket(self, case, out):
        st = out[0].replace("state ", "")
        fl = out[2] if len(out) > 2 else ""
        mode = "chunked" if "chunked=T" in fl else "length" if "length=N" not in fl else "nolength"
        return "%s/%s/pieces%d/%s%s" % (case["kind"], mode, min(len(case["cuts"]) + 1, 4), st,
                                        "/expect" if "expect" in case else "")
