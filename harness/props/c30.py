"""C30 — HTTP requests and WSGI responses survive the round trip.

Model:    lean/IofloModel/Model/HttpCodec.lean (packChunk/parseChunk, packHeader/parseLeader, Requester.build,
          Requestant.parseHead/parseBody, Valet.buildEnviron, Responder.start/build/write/service,
          Respondent.parseHead/parseBody; urllib.parse is a parameter, json text an input)
Theorems: lean/IofloModel/Props/C30.lean
Tie:      four kinds of cases, each run through the REAL code of $IOFLO_REPO and through the model:
          chunk   packChunk(data) and parseChunk(packed + rest)
          header  packHeader lines and parseLeader of the block
          request Requester(...).build() -> bytes (the Requester made directly or by a Patron that builds its own
                  connector or is handed a plain / TLS one); Requestant parse of those bytes; buildEnviron of a real
                  Valet constructed in every way (own transport or a supplied tcp Server / ServerTls, scheme given or
                  derived), and what Valet and Porter settle on as scheme, TLS and port
          response a scripted WSGI application served by the real Responder (fake connection collecting .tx,
                  fixed clock for the Date header) -> bytes; Respondent parse of those bytes; optionally a SECOND
                  response behind it in the same buffer, parsed by the same Respondent driven the way Patron drives it:
                  answers to HEAD, 204, 304 followed by another response on the connection
          session 2-4 requests of one REAL Patron to one REAL Valet on one keep-alive connection (socket-pair doubles):
                  per request its bytes, what the server's reused Requestant parsed and the environment the WSGI
                  application was called with; the model's connection (serveConnection) is asked after each request
          plus a malformed stream (raw bytes to the three parsers).
Oracle:   the round trip stated directly on the implementation's output, independent of the model.
"""
import json, re, datetime, types, io
from urllib.parse import parse_qsl, urlsplit as _urlsplit
import core
from props import httpb_doubles as D

FIXED_NOW = datetime.datetime(2026, 1, 2, 3, 4, 5)
DATE = "Fri, 02 Jan 2026 03:04:05 GMT"
METHODS = ["GET", "HEAD", "PUT", "PATCH", "POST", "DELETE", "OPTIONS", "TRACE", "CONNECT"]


def hx(s):
    b = s.encode("utf-8") if isinstance(s, str) else bytes(s)
    return b.hex() if b else "-"


def hb(h):
    return b"" if h in ("", "-") else bytes.fromhex(h)


def fmt_headers(items):
    items = list(items)
    return "%d%s" % (len(items), "".join(" %s %s" % (hx(k), hx(v)) for k, v in items))


def fmt_parms(parms):
    items = list((parms or {}).items())
    t = lambda x: x if isinstance(x, str) else bytes(x)
    return "%d%s" % (len(items), "".join(" %s %s" % (hx(t(k)), "~" if v is None else hx(t(v))) for k, v in items))


def optbool(v):
    return "~" if v is None else ("1" if v else "0")


def err_name(ex):
    from ioflo.aio.http import httping
    if isinstance(ex, httping.HTTPException):
        return "err http"
    if isinstance(ex, UnicodeError):
        return "err UnicodeError"
    return "err " + type(ex).__name__


class _Conn:
    """stands for an Incomer: collects what the responder queues, has the attributes the parsers touch"""
    def __init__(self):
        self.txes = []
        self.timeout = 1.0
        self.ca = ("127.0.0.1", 50000)

    def tx(self, data):
        self.txes.append(bytes(data))


class _FakeDatetimeModule:
    class datetime(datetime.datetime):
        @classmethod
        def utcnow(cls):
            return FIXED_NOW


class CHECK(core.Check):
    PROPERTY = "C30"
    LEAN_MODULES = ["IofloModel.Props.C30"]
    ENGINE = "httpcodec"
    N_QUICK = 500
    N_THOROUGH = 20000
    N_SEARCH = 1500
    RULE = ("four case kinds from one PRNG: chunk (binary data 0..3000 bytes + arbitrary rest), header blocks (token "
            "names in mixed case, latin-1 values with blanks, ':' and ',' inside, str/int/bytes values, "
            "duplicates), requests (all 9 methods, unicode paths with blanks and reserved characters, query names that "
            "are URL tokens with arbitrary unicode values, query inside the path, user headers, binary bodies, JSON "
            "values, form args with arbitrary keys/values; server end: Valet/Porter building their own transport or handed a "
            "plain/TLS one, scheme '', http, https, port given or default, incompatible pairs; client end: bare Requester or "
            "Patron with own / supplied plain / supplied TLS connector) and WSGI responses — one, or two in a row on one "
            "connection parsed by one reused Respondent; request method GET/POST/PUT/HEAD; statuses incl. 204 and 304 with "
            "body-less applications — (Content-Length given / chunked / streamed "
            "until close / empty / HTTPError before and after the first write / return value / empty yields / pieces "
            "exceeding Content-Length); sessions of 2-4 requests on one keep-alive connection whose methods, header sets "
            "(growing and shrinking, auth/cookie/etag headers), query strings, bodies and content types differ, "
            "answered with bodies of 2-5000 bytes (Content-Length or chunked), the last request optionally `Connection: close`, "
            "over server-side sockets that take only 7-1000 bytes per non-blocking send (or nothing every other time); "
            "~12% malformed stream (raw bytes to parseChunk, parseLeader, the request and "
            "response parsers). Non-trivial = a message was built and parsed back completely; distinct by content")
    TRUSTED = ["correspondence: the real packChunk/parseChunk/packHeader/parseLeader, Requester.build, Requestant, "
               "Valet.buildEnviron (called on a stand-in for the Valet), Responder (stand-in connection collecting .tx, "
               "fixed clock for Date), Respondent of $IOFLO_REPO run in-process on the same inputs as the Lean model",
               "urllib.parse (urlsplit, quote, unquote, quote_plus, unquote_plus) enters the model as the parameter `Std`, "
               "instantiated from the calls the implementation made; json.dumps output is an input of the model",
               "oracle uses CPython's parse_qsl / json.loads as the reference readers of query strings, form bodies and JSON",
               "the model describes Requester.build as repaired by fixes/D30a (form values quoted separately; integrated in /repo) "
               "and a reused parser as repaired by fixes/D30b (jsoned reset per message)",
               "the transports handed to Valet/Porter/Patron are the real tcp Server/ServerTls (constructed, never opened; one "
               "shared TLS context) and the Client doubles of httpb_doubles"]
    PARTIAL = ["C30_built_request_roundtrip_partial: Requester.build's assembly (request line + packHeader line per entry + body) "
               "is proved to parse back, given that the entries' lines are well-formed header lines that frame the body; that "
               "buildParts chooses such entries (Content-Length exactly for a non-empty body) and that urlsplit/quote/unquote/"
               "quote_plus round-trip paths and query values is established by the correspondence runs, not in Lean",
               "response direction: Responder.service -> wire -> Respondent is proved end to end in all three framing modes "
               "(C30_responder_frames_chunked, _length, _until_close) for applications that call start_response once and yield "
               "non-empty pieces (making up exactly the Content-Length when one is given); for HTTPError responses and "
               "applications that yield more or fewer bytes than they declared the responder-to-wire step is correspondence "
               "only (the wire-to-client step is proved)",
               "whole-buffer parsing only (arrival in pieces is C29); multipart/form-data bodies (random boundary), server "
               "sent events, idna fallbacks, AttributiveGenerator overrides, a negative chunk size (Python then slices from the end "
               "of the buffer; for such raw inputs nothing is compared) are outside the model"]
    TECHNIQUE = ("Lean 4 theorems about byte-level codecs (round trips by induction over lists; structural line splitter; "
                 "hex/decimal numerals) + differential correspondence of the builders and parsers of both directions")
    LEVEL_TEXT = ("Proved on the model, for all inputs and every behaviour of urllib.parse: parseChunk(packChunk(b)+rest) = "
                  "(len b, b, rest) (C30_chunk_roundtrip) and a whole chunked body of any number of pieces "
                  "(C30_chunked_body_roundtrip); a block of up to 100 packHeader lines parses back to the lower-cased dict, "
                  "last duplicate wins (C30_header_roundtrip); a request on the wire (any of the 9 methods, any visible-ASCII "
                  "target, such header lines, Content-Length framing) is parsed by Requestant into the same method, target, "
                  "headers and body with the rest untouched (C30_request_wire_roundtrip); a response on the wire is parsed by "
                  "Respondent into the same status, reason, headers and body in each framing mode: Content-Length, chunked, "
                  "until close (C30_response_wire_length / _chunked / _until_close); the WSGI environment built from a parsed "
                  "request carries its method, path, query, scheme, body, Content-Type/Length and every header "
                  "(C30_environ_consistent); on a keep-alive connection the environment of request n is buildEnviron of request n "
                  "whatever came before, and each of its keys is a per-request key or the HTTP_ key of a header request n "
                  "itself carries (C30_environ_per_request); however a Valet/Porter is constructed its scheme is https with TLS and port 443 "
                  "or http without TLS and port 80, a supplied transport dictating which (C30_server_scheme), so that "
                  "wsgi.url_scheme is http or https, https exactly for TLS (C30_valet_environ_scheme); a response without a body "
                  "(HEAD, 204, 304) leaves what follows its head — after the chunk terminator if chunked — untouched for the "
                  "next response (C30_response_wire_bodiless, C30_response_wire_chunked); and a WSGI application without Content-Length served by Responder.service is "
                  "read back by the client with the same status, headers and body (C30_responder_frames_chunked), as is one with a "
                  "Content-Length that its pieces make up (C30_responder_frames_length) and one streamed to a peer that takes "
                  "no chunks, complete once the connection is closed (C30_responder_frames_until_close). Partial: "
                  "C30_built_request_roundtrip_partial (what Requester.build assembles parses back, given well-formed entries).")
    LEVEL_NOTE = ("Trusted: Lean kernel; axioms propext, Classical.choice, Quot.sound; the hand transcription of httping.py, "
                  "clienting.py (Requester, Respondent) and serving.py (Requestant, Responder, buildEnviron) validated only "
                  "by the correspondence runs (which also tie the builders to the wire format the theorems speak about); "
                  "CPython's urllib.parse and json (parameters / inputs of the model); stand-ins for connection, clock, Valet.")

    def __init__(self):
        self._trace = {}

    # ------------------------------------------------------------------ generation
    TOKCH = "abcdefghijklmnopqrstuvwxyzABCDEFGHIJKLMNOPQRSTUVWXYZ0123456789-_.~!#$%&'*+^`|"   # RFC 7230 tchar
    VALS = ["", "1", "v", "a b", "é", "中文", "a&b", "a=b", "a+b", "100%", "x/y?z", "#h", "~._-", "true", " ", " lead",
            "trail ", "a;b", "%41", "\U0001F600", "q\"uote", "back\\slash", "tab\there"]

    def _token(self, rng, n=None):
        n = n or rng.choice([1, 2, 3, 5, 9])
        return "".join(rng.choice(self.TOKCH) for _ in range(n))

    def _urltoken(self, rng):
        return "".join(rng.choice("abcdefghijklmnopqrstuvwxyzABCDEFGHIJKLMNOPQRSTUVWXYZ0123456789-._~")
                       for _ in range(rng.choice([1, 2, 3, 5, 9])))

    def _hname(self, rng):
        base = rng.choice(["X-Thing", "accept", "Content-Type", "x_y", "ETag", "x-1a2B", "Cookie", "content-md5"])
        return base if rng.random() < 0.6 else self._token(rng)

    def _hvalue(self, rng):
        n = rng.choice([0, 1, 3, 8, 20])
        s = "".join(chr(rng.choice([rng.randrange(32, 127), rng.randrange(160, 256), 32, 58, 44, 9])) for _ in range(n))
        return s.strip()      # a field value has no surrounding blanks (RFC 7230 OWS is not part of the value)

    def _path(self, rng):
        alphabet = ["a", "b", "Z", "9", "-", "_", ".", "~", "é", "中", " ", "+", "%", "=", "&", "!", ":", "@", ";", ",",
                    "'", "(", ")", "*", "$", "\U0001F600", "\"", "<", "\\"]
        segs = ["".join(rng.choice(alphabet) for _ in range(rng.choice([1, 2, 4]))) for _ in range(rng.choice([1, 1, 2, 3]))]
        return "/" + "/".join(segs) + ("/" if rng.random() < 0.15 else "")

    def _json(self, rng, depth=0):
        k = rng.randrange(8 if depth < 2 else 6)
        if k == 0:
            return rng.choice([None, True, False])
        if k == 1:
            return rng.randrange(-1000, 1000)
        if k == 2:
            return rng.choice([0.5, -2.25, 1e10, 3.0])
        if k in (3, 4, 5):
            return rng.choice(self.VALS)
        if k == 6:
            return [self._json(rng, depth + 1) for _ in range(rng.randrange(3))]
        return {rng.choice(self.VALS + ["k", "n"]): self._json(rng, depth + 1) for _ in range(rng.randrange(3))}

    def _request(self, rng):
        method = rng.choice(METHODS + ["get", "Post"])
        path = self._path(rng)
        pathq = []
        if rng.random() < 0.2:                              # query given inside the path
            pathq = [[k, rng.choice(self.VALS)] for k in rng.sample(["p", "q1", "z.z"], rng.choice([1, 2]))]
            from urllib.parse import quote_plus
            path += "?" + "&".join("%s=%s" % (k, quote_plus(v)) for k, v in pathq)
        qargs = [[self._urltoken(rng) if rng.random() < 0.5 else rng.choice(["k", "q", "name", "id"]), rng.choice(self.VALS)]
                 for _ in range(rng.choice([0, 0, 1, 2, 3]))]
        seen, q2 = set(), []
        for k, v in qargs:
            if k not in seen and k not in [x[0] for x in pathq]:
                seen.add(k)
                q2.append([k, v])
        headers = []
        for _ in range(rng.choice([0, 0, 1, 2, 4])):
            kind = rng.choice(["s", "s", "s", "i", "b"])
            v = self._hvalue(rng) if kind == "s" else (rng.randrange(100000) if kind == "i" else
                                                       bytes(rng.randrange(33, 127) for _ in range(rng.randrange(6))).hex())
            name = self._hname(rng)
            if name.lower() == "content-type" and kind != "s":
                kind, v = "s", "text/x-thing"          # a content type is text
            headers.append([name, kind, v])
        mode = rng.choice(["none", "body", "body", "data", "fargs"])
        case = {"kind": "request", "host": rng.choice(["a.test", "10.0.0.9", "localhost"]),
                "port": rng.choice([80, 8080, 443]), "scheme": rng.choice(["http", "https"]), "method": method,
                "path": path, "pathq": pathq, "qargs": q2, "headers": headers, "body": "", "data": None, "fargs": None,
                "has_data": False}
        # every way of constructing the two ends: the server builds its own transport or is handed one (plain / TLS),
        # with the scheme given or left to be derived; the request comes from a bare Requester or from a Patron that
        # builds its own connector or is handed one
        servant = rng.choice([None, None, "plain", "tls"])
        sscheme = rng.choice(["", "", "http", "https"]) if servant is None else rng.choice(
            ["", "", "https" if servant == "tls" else "http"])
        if servant and rng.random() < 0.06:
            sscheme = "http" if servant == "tls" else "https"          # incompatible with the servant: refused
        case["server"] = {"servant": servant, "scheme": sscheme, "port": rng.choice([None, 8080])}
        connector = rng.choice([None, None, "plain", "tls"])
        case["client"] = {"via": rng.choice(["requester", "patron"]), "connector": connector,
                          "scheme_given": rng.random() < 0.5}
        if case["client"]["via"] == "patron" and connector:
            case["scheme"] = "https" if connector == "tls" else "http"
        if mode == "body":
            case["body"] = bytes(rng.randrange(256) for _ in range(rng.choice([1, 2, 17, 300]))).hex()
        elif mode == "data":
            case["data"] = self._json(rng)
            if case["data"] is None:              # `data=None` is the API's way of saying "no data"
                case["data"] = [None]
            case["has_data"] = True
        elif mode == "fargs":
            keys = rng.sample(["a", "b c", "k", "é", "x&y", "e=f", "p+q", "100%"], rng.choice([1, 2, 3]))
            case["fargs"] = [[k, rng.choice(self.VALS)] for k in keys]
        return case

    BODILESS = ("204", "304")

    def _response(self, rng, follow=True):
        """one exchange on a connection; with `next` the response that follows it on the same connection"""
        case = self._response1(rng)
        if follow and rng.random() < 0.5:
            case["next"] = self._response1(rng)
        return case

    def _response1(self, rng):
        mode = rng.choice(["length", "length", "chunked", "chunked", "streamed", "empty", "error", "error-late", "over"])
        pieces = [bytes(rng.randrange(256) for _ in range(rng.choice([1, 2, 10, 200]))) for _ in range(rng.choice([1, 2, 3]))]
        if rng.random() < 0.3:
            pieces.insert(rng.randrange(len(pieces) + 1), b"")
        status = rng.choice(["200 OK", "201 Created", "404 Not Found", "500 Internal Server Error", "299 Custom  Reason",
                             "200", "400 Bad Request", "204 No Content", "304 Not Modified", "204"])
        method = rng.choice(["GET", "GET", "POST", "PUT", "HEAD", "HEAD"])
        if method == "HEAD" or status.split()[0] in self.BODILESS:
            # a response without a body (answer to HEAD, 204, 304): the application produces no body bytes
            pieces = [b""] * rng.choice([0, 1, 2])
            mode = rng.choice(["chunked", "chunked", "empty", "length", "streamed", "error"])
        total = b"".join(pieces)
        headers = [[self._hname(rng), self._hvalue(rng)] for _ in range(rng.choice([0, 1, 2]))]
        headers = [h for h in headers if h[0].lower() not in ("content-length", "transfer-encoding", "content-type", "a:b")]
        if rng.random() < 0.5:
            headers.append(["Content-Type", rng.choice(["text/plain", "application/json; charset=utf-8", "application/octet-stream"])])
        case = {"kind": "response", "mode": mode, "status": status, "headers": headers, "chunkable": True,
                "method": method, "items": [], "start": True}
        items = [["Y", p.hex()] for p in pieces]
        if mode == "length":
            # (in answer to HEAD the declared length is that of the body a GET would have had)
            case["headers"].append(["Content-Length", str(len(total) if method != "HEAD" else rng.choice([0, 5, 1234]))])
        elif mode == "over":
            n = rng.randrange(len(total) + 1)
            case["headers"].append(["content-length", str(n)])
        elif mode == "streamed":
            case["chunkable"] = False
        elif mode == "empty":
            items = []
            if rng.random() < 0.5:
                case["headers"].append(["Content-Length", "0"])
        elif mode == "error":
            items = [["Y", ""]] * rng.choice([0, 1]) + [self._error(rng)]
            case["start"] = rng.random() < 0.5
        elif mode == "error-late":
            items = items[:1] + [self._error(rng)] + items[1:]
        if mode in ("chunked", "streamed", "length") and rng.random() < 0.2 and total:
            ret = bytes(rng.randrange(256) for _ in range(3))
            items.append(["S", ret.hex()])
            if mode == "length" and method != "HEAD":
                case["headers"][-1][1] = str(len(total) + 3)
        case["items"] = items
        return case

    def _session(self, rng):
        """2-4 requests on ONE keep-alive connection of one Patron to one Valet, with header sets, methods, bodies, query
        strings and content types that differ from request to request (also shrinking ones)"""
        reqs = []
        for _ in range(rng.choice([2, 2, 3, 4])):
            r = self._request(rng)
            for k in ("kind", "host", "port", "scheme", "server", "client"):
                r.pop(k, None)
            if rng.random() < 0.35:
                r["headers"] = []                          # a bare request after (or before) ones with headers
            elif rng.random() < 0.5:
                r["headers"].append([rng.choice(["X-Auth-Token", "If-None-Match", "Cookie", "X-Trace"]), "s",
                                     rng.choice(["secret", "\"abc\"", "a=b; c=d", "1"])])
            # the response the application gives: a body of `resp` bytes, with a Content-Length or chunked
            r["resp"] = rng.choice([2, 2, 40, 700, 4000])
            r["rcl"] = rng.random() < 0.5
            reqs.append(r)
        case = {"kind": "session", "scheme": rng.choice(["", "http"]), "requests": reqs}
        if rng.random() < 0.5:
            # the last request asks for the connection to be closed after its response (a non-persistent request)
            reqs[-1]["headers"] = [h for h in reqs[-1]["headers"] if h[0].lower() != "connection"] + [["Connection", "s", "close"]]
        if rng.random() < 0.6:
            # throttled server-side sockets: a non-blocking send takes `scap` bytes (and every other one nothing): responses
            # larger than that need several service passes to go out — also the last one before the connection is closed
            case["scap"] = rng.choice([7, 64, 300, 1000])
            case["seagain"] = rng.random() < 0.3
        return case

    def _anycase(self, rng, name):
        return "".join(c.upper() if rng.random() < 0.5 else c.lower() for c in name)

    def _error(self, rng):
        """an HTTPError: response header names are case-insensitive, so every spelling is generated"""
        hdrs = []
        if rng.random() < 0.5:
            hdrs.append([self._anycase(rng, "content-type"),
                         rng.choice(["application/problem+json", "text/html; charset=utf-8", "application/json", "text/x-err"])])
        for _ in range(rng.choice([0, 0, 1, 2])):
            name = self._hname(rng)
            if name.lower() not in ("content-length", "transfer-encoding", "content-type"):
                hdrs.append([self._anycase(rng, name) if rng.random() < 0.5 else name, self._hvalue(rng)])
        rng.shuffle(hdrs)
        return ["E", rng.choice([400, 401, 404, 418, 500, 503]), rng.choice(["", "Nope", "Bad  thing"]),
                rng.choice(["", "Title é"]), rng.choice(["", "some detail\nline two"]), rng.choice([None, 7, -3]), hdrs]

    def _one(self, rng, malformed):
        if malformed:
            k = rng.choice(["rawchunk", "rawleader", "rawreq", "rawresp"])
            frags = [b"\r\n", b"\n", b"\r", b": ", b":", b";", b"=", b"0", b"a", b"FF", b"ff", b" ", b"GET", b"HTTP/1.1", b"HTTP/1.0",
                     b"200", b"/p", b"Content-Length: 3", b"Transfer-Encoding: chunked", b"x", b"\xff", b"1", b"3\r\nabc\r\n",
                     b"0\r\n\r\n", b"Host: h", b"100 Continue", b"HTTP/1.1 204 No\r\n\r\n", b"Connection: close", b"zz",
                     b"0x", b"0X", b"_", b"+", b"-", b"\t"]
            raw = b"".join(rng.choice(frags) for _ in range(rng.choice([1, 3, 6, 12])))
            return {"kind": k, "raw": raw.hex(), "method": rng.choice(["GET", "HEAD"]), "closed": rng.random() < 0.4}
        k = rng.choice(["chunk", "header", "request", "request", "request", "response", "response", "response", "session",
                        "session"])
        if k == "session":
            return self._session(rng)
        if k == "chunk":
            n = rng.choice([0, 1, 2, 15, 16, 17, 255, 256, 3000, rng.randrange(300)])
            mode = rng.randrange(3)
            data = bytes([rng.choice([13, 10, 48, 59])]) * n if mode == 0 else bytes(rng.randrange(256) for _ in range(n))
            rest = bytes(rng.randrange(256) for _ in range(rng.choice([0, 0, 2, 9])))
            return {"kind": "chunk", "data": data.hex(), "rest": rest.hex()}
        if k == "header":
            hs = []
            for _ in range(rng.choice([0, 1, 2, 3, 6])):
                vals = []
                for _ in range(rng.choice([1, 1, 1, 2, 3])):
                    kind = rng.choice(["s", "s", "i", "b"])
                    vals.append([kind, self._hvalue(rng) if kind == "s" else (rng.randrange(10 ** 6) if kind == "i" else
                                                                               bytes(rng.randrange(33, 127) for _ in range(4)).hex())])
                if len(vals) > 1:          # the joined field value must not begin or end with a blank
                    for i in (0, -1):
                        if vals[i][0] == "s" and not vals[i][1]:
                            vals[i] = ["i", rng.randrange(10)]
                hs.append([self._hname(rng), vals])
            rest = bytes(rng.randrange(256) for _ in range(rng.choice([0, 0, 5])))
            return {"kind": "header", "headers": hs, "rest": rest.hex()}
        if k == "request":
            return self._request(rng)
        return self._response(rng)

    def generate(self, rng, n, tier):
        for i in range(n):
            yield self._one(rng, malformed=(rng.random() < 0.12))

    def search(self, rng, n, tier):
        for i in range(n):
            yield self._one(rng, malformed=(rng.random() < 0.2))

    def exhaustive(self, tier):
        # every chunk length 0..(40 | 600) with a fixed pattern, every single header value byte, every method
        top = 600 if tier == "thorough" else 40
        for n in range(top + 1):
            yield {"kind": "chunk", "data": bytes((i * 7 + 13) % 256 for i in range(n)).hex(), "rest": "0d0a"}
        for b in range(256):
            if chr(b).isspace():       # surrounding blanks are not part of a field value
                continue
            yield {"kind": "header", "headers": [["X-B", [["s", chr(b)]]]], "rest": ""}
        for name in ("content-type", "Content-Type", "CONTENT-TYPE", "Content-type", "cOnTeNt-TyPe", None):
            for start in (True, False):
                hdrs = [] if name is None else [[name, "application/problem+json"]]
                yield {"kind": "response", "mode": "error", "status": "200 OK", "headers": [["X-A", "v"]], "chunkable": True,
                       "method": "GET", "start": start,
                       "items": [["E", 404, "", "T", "d", None, hdrs + [["X-Err", "1"]]]]}
        for servant in (None, "plain", "tls"):
            for sscheme in ("", "http", "https"):
                for port in (None, 8080):
                    for via, connector, given in (("requester", None, True), ("patron", None, True), ("patron", None, False),
                                                  ("patron", "plain", False), ("patron", "tls", False), ("patron", "tls", True)):
                        cs = "https" if connector == "tls" else "http"
                        yield {"kind": "request", "host": "a.test", "port": 8080, "scheme": cs, "method": "POST",
                               "path": "/a/b", "pathq": [], "qargs": [["x", "1"]], "headers": [], "body": "7061796c6f6164",
                               "data": None, "fargs": None, "has_data": False,
                               "server": {"servant": servant, "scheme": sscheme, "port": port},
                               "client": {"via": via, "connector": connector, "scheme_given": given}}
        base = {"pathq": [], "qargs": [], "headers": [], "body": "", "data": None, "fargs": None, "has_data": False}
        rich = dict(base, method="POST", path="/login", qargs=[["next", "/home"]], body="7061796c6f6164",
                    headers=[["X-Auth-Token", "s", "secret"], ["If-None-Match", "s", "\"abc\""], ["Content-Type", "s", "text/x-thing"]])
        jsn = dict(base, method="PUT", path="/doc", data={"a": [1, 2]}, has_data=True, headers=[["X-Trace", "s", "1"]])
        form = dict(base, method="POST", path="/form", fargs=[["a", "1"], ["b c", "d&e"]])
        bare = dict(base, method="GET", path="/bare")
        head = dict(base, method="HEAD", path="/h", qargs=[["q", "1"]])
        for seq in ([rich, bare], [bare, rich, bare], [jsn, bare], [form, head, bare], [rich, jsn, form, bare], [jsn, form],
                    [head, rich, head]):
            for scheme in ("", "http"):
                yield {"kind": "session", "scheme": scheme, "requests": [json.loads(json.dumps(r)) for r in seq]}
        for scap in (None, 16, 500):
            for eag in (False, True):
                for size in (2, 900, 5000):
                    for rcl in (True, False):
                        for closing in (True, False):
                            last = dict(bare, resp=size, rcl=rcl,
                                        headers=[["Connection", "s", "close"]] if closing else [])
                            c = {"kind": "session", "scheme": "http",
                                 "requests": [json.loads(json.dumps(dict(rich, resp=300, rcl=True))), json.loads(json.dumps(last))]}
                            if scap:
                                c["scap"], c["seagain"] = scap, eag
                            elif eag:
                                continue
                            yield c
        for m in METHODS:
            for mode in ("none", "body"):
                yield {"kind": "request", "host": "a.test", "port": 80, "scheme": "http", "method": m, "path": "/p/é q",
                       "pathq": [], "qargs": [["k", "a&b=c"]], "headers": [["X-A", "s", "v"]],
                       "body": "00ff" if mode == "body" else "", "data": None, "fargs": None, "has_data": False}

    # ------------------------------------------------------------------ implementation adapter
    def _std_lines(self, calls):
        std, seen = [], set()
        for name, args, res in calls:
            if name == "urlsplit" and len(args) == 1 and isinstance(args[0], str):
                try:
                    port = res.port
                    port = "~" if port is None else str(port)
                except ValueError:
                    port = "!"
                hn = res.hostname
                l = "std urlsplit %s %s %s %s %s %s %s %s %s" % (hx(args[0]), hx(res.scheme), hx(res.netloc), hx(res.path),
                                                                hx(res.query), hx(res.fragment), "~" if hn is None else hx(hn),
                                                                port, hx(res.geturl()))
            elif name in ("unquote", "quote", "quote_plus", "unquote_plus") and len(args) == 1 and isinstance(args[0], str):
                l = "std %s %s %s" % (name, hx(args[0]), hx(res))
            else:
                continue
            if l not in seen:
                seen.add(l)
                std.append(l)
        return std

    def _fmt_res_chunk(self, gen_result, raw):
        size, parms, trails, chunk = gen_result
        return "ok %d P %s T %s %s R %s" % (size, fmt_parms(parms), fmt_headers(trails.items()), hx(bytes(chunk)), hx(bytes(raw)))

    def _drive(self, gen):
        """run a parser generator once on a complete buffer: value, or None if it wants more"""
        r = next(gen)
        gen.close()
        return r

    def _parse_request(self, raw):
        from ioflo.aio.http import serving
        conn = _Conn()
        q = serving.Requestant(msg=bytearray(raw), incomer=conn)
        for _ in range(3):
            q.parse()
            if q.ended:
                break
        return q

    def _fmt_request(self, q):
        if not q.ended:
            return "need"
        if q.errored:
            return "err http"
        port = q.port
        return "ok %s %s %d.%d %s %s %s %s %s %s H %s %s %s P %s T %s %s %s R %s" % (
            hx(q.method), hx(q.url), q.version[0], q.version[1], hx(q.path), hx(q.scheme),
            "~" if q.hostname is None else hx(q.hostname), "~" if port is None else port, hx(q.query), hx(q.fragment),
            fmt_headers(q.headers.items()), "1" if q.chunked else "0", hx(bytes(q.body)), fmt_parms(q.parms),
            fmt_headers((q.trails or {}).items()), optbool(q.jsoned), "1" if q.persisted else "0", hx(bytes(q.msg)))

    _CTX = []

    @classmethod
    def _ctx(cls):
        """one TLS context for all the (never opened) TLS transports: building one per case is slow"""
        if not cls._CTX:
            import ssl
            cls._CTX.append(ssl.create_default_context(purpose=ssl.Purpose.CLIENT_AUTH))
        return cls._CTX[0]

    @classmethod
    def _servant(cls, sv, port):
        """a transport constructed by the caller (never opened): the real tcp Server / ServerTls"""
        from ioflo.aio import tcp
        if sv is None:
            return None
        ha = ("127.0.0.1", port or (443 if sv == "tls" else 80))
        return tcp.ServerTls(ha=ha, context=cls._ctx()) if sv == "tls" else tcp.Server(ha=ha)

    def _servers(self, sv):
        """what the two server constructors settle on: Valet's scheme, TLS flag and port, Porter's TLS flag and port"""
        from ioflo.aio.http import serving
        from ioflo.aio import tcp
        kw = {} if sv["servant"] or sv["scheme"] != "https" else {"context": self._ctx()}
        try:
            v = serving.Valet(servant=self._servant(sv["servant"], sv["port"]), scheme=sv["scheme"], ha=("127.0.0.1", sv["port"]), **kw)
            pt = serving.Porter(servant=self._servant(sv["servant"], sv["port"]), scheme=sv["scheme"], ha=("127.0.0.1", sv["port"]), **kw)
        except ValueError as ex:
            return err_name(ex)
        tls = lambda x: "1" if isinstance(x.servant, tcp.ServerTls) else "0"
        if (tls(v) == "1") != bool(v.secured) or (tls(pt) == "1") != bool(pt.secured):
            return "HARNESS-EXC secured flag and transport type disagree"
        return "ok %s %s %d P %s %d" % (hx(v.scheme), tls(v), v.servant.ha[1], tls(pt), pt.servant.ha[1])

    def _fmt_environ(self, case, q):
        from ioflo.aio.http import serving
        sv = case.get("server")
        if sv is None:       # cases recorded before the constructor paths were added
            valet = types.SimpleNamespace(scheme=case["scheme"], servant=types.SimpleNamespace(name="srv", eha=("127.0.0.1", 8080)))
            env = serving.Valet.buildEnviron(valet, q)
        else:
            kw = {} if sv["servant"] or sv["scheme"] != "https" else {"context": self._ctx()}
            valet = serving.Valet(servant=self._servant(sv["servant"], sv["port"]), scheme=sv["scheme"],
                                  ha=("127.0.0.1", sv["port"]), **kw)
            env = valet.buildEnviron(q)
        keep = []
        for k, v in env.items():
            if k in ("wsgi.url_scheme", "REQUEST_METHOD", "SERVER_PROTOCOL", "SCRIPT_NAME", "PATH_INFO", "QUERY_STRING",
                     "CONTENT_TYPE", "CONTENT_LENGTH") or k.startswith("HTTP_"):
                keep.append((k, "s:" + hx(v)))
            elif k == "wsgi.input":
                keep.append((k, "b:" + hx(v.read())))
        return "ok %d%s" % (len(keep), "".join(" %s %s" % (hx(k), v) for k, v in keep)), env

    def _run(self, case):
        from ioflo.aio.http import clienting as hc, serving, httping
        from ioflo.aid.odicting import odict
        kind = case["kind"]
        lines, calls = [], []
        info = {}
        with D.recorded(calls, [hc, serving, httping]):
            if kind == "chunk":
                data, rest = hb(case["data"]), hb(case["rest"])
                packed = httping.packChunk(data)
                lines.append(hx(packed))
                lines.append(self._parse_chunk(bytearray(packed + rest)))
            elif kind == "rawchunk":
                lines.append(self._parse_chunk(bytearray(hb(case["raw"]))))
            elif kind == "header":
                packed = []
                for name, vals in case["headers"]:
                    try:
                        args = [v if k == "s" else (int(v) if k == "i" else hb(v)) for k, v in vals]
                        l = httping.packHeader(name, *args)
                        packed.append(l)
                        lines.append(hx(l))
                    except Exception as ex:
                        lines.append(err_name(ex))
                raw = b"".join(l + b"\r\n" for l in packed) + b"\r\n" + hb(case["rest"])
                lines.append(self._parse_leader(bytearray(raw)))
            elif kind == "rawleader":
                lines.append(self._parse_leader(bytearray(hb(case["raw"]))))
            elif kind == "request":
                msg = None
                try:
                    hdrs = odict()
                    for name, k, v in case["headers"]:
                        hdrs[name] = v if k == "s" else (int(v) if k == "i" else hb(v))
                    kw = dict(method=case["method"],
                              path=case["path"], qargs=odict((k, v) for k, v in case["qargs"]), headers=hdrs,
                              body=hb(case["body"]), data=case["data"] if case["has_data"] else None,
                              fargs=None if case["fargs"] is None else odict((k, v) for k, v in case["fargs"]))
                    cl = case.get("client") or {"via": "requester"}
                    if cl["via"] == "patron":
                        # the Patron constructs the Requester: from hostname/port/scheme, or from the connector handed in
                        net = D.Net({"a.test": "10.0.0.1", "localhost": "127.0.0.1"})
                        with D.patched(net) as (C, T):
                            if cl["connector"]:
                                kw["connector"] = (T if cl["connector"] == "tls" else C)(host=case["host"], port=case["port"])
                                if cl["scheme_given"]:
                                    kw["scheme"] = case["scheme"]
                            else:
                                kw.update(hostname=case["host"], port=case["port"])
                                if cl["scheme_given"] or case["scheme"] == "https":
                                    kw["scheme"] = case["scheme"]
                            r = hc.Patron(**kw).requester
                        info["requester"] = (r.hostname, r.port, r.scheme)
                    else:
                        r = hc.Requester(hostname=case["host"], port=case["port"], scheme=case["scheme"], **kw)
                    info["headers_after_init"] = list(r.headers.items())
                    msg = r.build()
                    lines.append("ok %s %s Q %s" % (hx(msg), hx(r.path), fmt_headers((k, str(v)) for k, v in r.qargs.items())))
                except Exception as ex:
                    lines.append(err_name(ex))
                if msg is not None:
                    info["msg"] = msg
                    try:
                        q = self._parse_request(msg)
                        lines.append(self._fmt_request(q))
                        if q.ended and not q.errored:
                            info["q"] = q
                            try:
                                l, env = self._fmt_environ(case, q)
                                lines.append(l)
                                info["env"] = env
                            except Exception as ex:
                                lines.append(err_name(ex))
                        else:
                            lines.append(lines[-1])
                    except Exception as ex:
                        lines.append(err_name(ex))
                        lines.append(err_name(ex))
                else:
                    lines += ["skipped", "skipped"]
                if case.get("server"):
                    lines.append(self._servers(case["server"]))
            elif kind == "session":
                self._run_session(case, lines, info)
            elif kind == "rawreq":
                try:
                    lines.append(self._fmt_request(self._parse_request(hb(case["raw"]))))
                except Exception as ex:
                    lines.append(err_name(ex))
            elif kind == "response":
                self._run_responses(case, lines, info)
            elif kind == "rawresp":
                try:
                    lines.append(self._fmt_response(self._parse_response(hb(case["raw"]), case["method"], case["closed"])))
                except Exception as ex:
                    lines.append(err_name(ex))
        return lines, self._std_lines(calls), info

    ENV_KEYS = ("wsgi.url_scheme", "REQUEST_METHOD", "SERVER_PROTOCOL", "SCRIPT_NAME", "PATH_INFO", "QUERY_STRING",
                "CONTENT_TYPE", "CONTENT_LENGTH")

    def _env_line(self, env):
        keep = []
        for k, v in env.items():
            if k in self.ENV_KEYS or k.startswith("HTTP_"):
                keep.append((k, "s:" + hx(v)))
            elif k == "wsgi.input":
                keep.append((k, "b:" + hx(v.read())))
        return "ok %d%s" % (len(keep), "".join(" %s %s" % (hx(k), v) for k, v in keep))

    @staticmethod
    def _resp_body(i, n):
        return bytes((i * 31 + j * 7 + 3) % 256 for j in range(n))

    def _run_session(self, case, lines, info):
        """the REAL Patron and the REAL Valet (Valet.serviceReqs / serviceReps, one Requestant and one Responder per
        connection, reused) over the socket-pair doubles: the requests go out one after the other on one keep-alive
        connection; recorded per request: its bytes, what the server's Requestant parsed, and the environment the WSGI
        application was called with"""
        from ioflo.aio.http import clienting as hc, serving as hs
        from ioflo.aid.odicting import odict
        seen = []                      # per application call: (parsed request line, environ line, snapshot)
        net = D.Net({"a.test": "10.0.0.1"})
        if case.get("scap"):
            net.server_send_cap, net.server_send_eagain = case["scap"], bool(case.get("seagain"))

        def app(environ, start_response):
            q = list(valet.reqs.values())[0]
            snap = dict((k, v) for k, v in environ.items() if k != "wsgi.input")
            line = self._env_line(environ)
            snap["wsgi.input"] = hb(line.split(" b:")[1].split()[0]) if " b:" in line else b""
            seen.append((self._fmt_request(q), line, snap, dict(q.headers.items()), q.method, q.path, q.query, bytes(q.body)))
            r = case["requests"][len(seen) - 1] if len(seen) <= len(case["requests"]) else {}
            body = self._resp_body(len(seen) - 1, r.get("resp", 2))
            start_response("200 OK", [("Content-Length", str(len(body)))] if r.get("rcl", True) else [])
            if q.method == "HEAD":         # headers as for GET, no body
                return []
            return [body[:len(body) // 2], body[len(body) // 2:]]

        with D.patched(net):
            S = D.server_class(net)
            valet = hs.Valet(app=app, servant=S(ha=("10.0.0.1", 8080)), scheme=case["scheme"])
            valet.open()
            p = hc.Patron(hostname="a.test", port=8080)
            p.open()
            sent = []
            tx = p.connector.tx
            p.connector.tx = lambda data: (sent.append(bytes(data)), tx(data))[1]
            try:
                for i, r in enumerate(case["requests"]):
                    hdrs = odict()
                    for name, k, v in r["headers"]:
                        hdrs[name] = v if k == "s" else (int(v) if k == "i" else hb(v))
                    n_sent, n_seen, n_resp = len(sent), len(seen), len(p.responses)
                    try:
                        p.request(method=r["method"], path=r["path"], qargs=odict((k, v) for k, v in r["qargs"]), headers=hdrs,
                                  body=hb(r["body"]), data=r["data"] if r["has_data"] else None,
                                  fargs=None if r["fargs"] is None else odict((k, v) for k, v in r["fargs"]))
                        rounds = 12
                        if case.get("scap"):
                            rounds += (2 if case.get("seagain") else 1) * ((r.get("resp", 2) + 400) // case["scap"] + 4)
                        for _ in range(rounds):
                            p.serviceAll()
                            valet.serviceAll()
                            if len(p.responses) > n_resp:
                                break
                    except Exception as ex:
                        lines += [err_name(ex), "skipped", "skipped"]
                        break
                    if len(sent) != n_sent + 1:
                        lines += ["HARNESS-EXC %d messages sent for request %d" % (len(sent) - n_sent, i), "skipped", "skipped"]
                        break
                    lines.append("ok %s" % hx(sent[-1]))
                    if len(seen) != n_seen + 1:
                        lines += ["need", "need"]         # the server did not hand the request to the application
                        break
                    lines += [seen[-1][0], seen[-1][1]]
                for _ in range(4):         # let a requested close happen
                    try:
                        valet.serviceAll()
                        p.serviceAll()
                    except OSError:
                        break
                info["sent"], info["seen"] = sent, seen
                info["responses"] = [(x["status"], bytes(x["body"]), bool(x["errored"])) for x in p.responses]
                info["server_open"] = len(valet.servant.ixes)
                info["connections"] = len([e for e in net.log if e[0] == "CONNECT"])
            finally:
                try:
                    valet.servant.closeAllIx()
                except Exception:
                    pass
                net.shutdown()

    @staticmethod
    def _until_close(wire):
        head = wire.split(b"\r\n\r\n")[0].lower()
        return b"\r\ncontent-length:" not in head and b"\r\ntransfer-encoding: chunked" not in head

    @staticmethod
    def _snap(p):
        return types.SimpleNamespace(status=p.status, reason=p.reason, headers=dict(p.headers.items()), body=bytes(p.body),
                                     msg=bytes(p.msg), ended=p.ended, errored=p.errored, jsoned=p.jsoned)

    def _run_responses(self, case, lines, info):
        """the response (and the one that follows it on the same connection, if any) written by the real Responder;
        all of it is in the client's buffer; ONE Respondent parses the responses one after the other the way Patron
        drives it (makeParser after each response, reinit(method=…) for the next request)"""
        from ioflo.aio.http import clienting as hc
        seq = [case] + ([case["next"]] if case.get("next") else [])
        wires = []
        for c in seq:
            try:
                out, ended = self._serve(c)
                wires.append((out, ended, None))
            except Exception as ex:
                wires.append((None, False, err_name(ex)))
        info["wires"] = wires
        out, ended, err = wires[0]
        lines.append(err if err else "ok %s %s" % ("1" if ended else "0", hx(out)))
        if out is None:
            lines.append("skipped")
            return
        closed = self._until_close(out)
        follow = len(seq) > 1 and not closed and ended and wires[1][0] is not None
        info["closed"], info["follow"] = closed, follow
        raw = out + (wires[1][0] if follow else b"")
        info["raw1"] = raw
        p = None
        try:
            p = self._parse_response(raw, case["method"], closed)
            lines.append(self._fmt_response(p))
            info["p"] = self._snap(p)
        except Exception as ex:
            lines.append(err_name(ex))
        if not follow:
            return
        out2, ended2, _ = wires[1]
        lines.append("ok %s %s" % ("1" if ended2 else "0", hx(out2)))
        if p is None or not p.ended:
            lines.append("skipped")
            return
        closed2 = self._until_close(out2)
        info["closed2"], info["rest1"] = closed2, bytes(p.msg)
        try:
            p.makeParser()
            p.reinit(method=seq[1]["method"])
            for _ in range(3):
                p.parse()
                if p.ended:
                    break
            if not p.ended and closed2:
                p.close()
                for _ in range(3):
                    p.parse()
                    if p.ended:
                        break
            lines.append(self._fmt_response(p))
            info["p2"] = self._snap(p)
        except Exception as ex:
            lines.append(err_name(ex))

    def _parse_chunk(self, raw):
        from ioflo.aio.http import httping
        try:
            r = self._drive(httping.parseChunk(raw))
            return "need" if r is None else self._fmt_res_chunk(r, raw)
        except Exception as ex:
            return err_name(ex)

    def _parse_leader(self, raw):
        from ioflo.aio.http import httping
        try:
            r = self._drive(httping.parseLeader(raw))
            return "need" if r is None else "ok H %s R %s" % (fmt_headers(r.items()), hx(bytes(raw)))
        except Exception as ex:
            return err_name(ex)

    def _serve(self, case):
        from ioflo.aio.http import serving, httping
        conn = _Conn()
        items = case["items"]

        def app(environ, start_response):
            if case["start"]:
                start_response(case["status"], [(k, v) for k, v in case["headers"]])
            for it in items:
                if it[0] == "Y":
                    yield hb(it[1])
                elif it[0] == "S":
                    return hb(it[1])
                elif it[0] == "X":
                    raise RuntimeError("application failure")
                else:
                    _, status, reason, title, detail, fault, hdrs = it
                    raise httping.HTTPError(status, reason=reason, title=title, detail=detail, fault=fault,
                                            headers=[(k, v) for k, v in hdrs])
        saved = serving.datetime
        serving.datetime = _FakeDatetimeModule
        try:
            r = serving.Responder(incomer=conn, app=app, environ={"REQUEST_METHOD": case["method"]}, chunkable=case["chunkable"])
            for _ in range(len(items) + 3):
                if r.ended:
                    break
                r.service()
        finally:
            serving.datetime = saved
        return b"".join(conn.txes), r.ended

    def _parse_response(self, raw, method, closed):
        from ioflo.aio.http import clienting as hc
        p = hc.Respondent(msg=bytearray(raw), method=method)
        for _ in range(3):
            p.parse()
            if p.ended:
                break
        if not p.ended and closed:
            p.close()
            for _ in range(3):
                p.parse()
                if p.ended:
                    break
        return p

    def _fmt_response(self, p):
        if not p.ended:
            return "need"
        if p.errored:
            return "err http"
        if p.evented:
            return "err out-of-model"
        return "ok %d.%d %d %s H %s %s %s P %s T %s %s %s %s R %s" % (
            p.version[0], p.version[1], p.status, hx(p.reason), fmt_headers(p.headers.items()), "1" if p.chunked else "0",
            hx(bytes(p.body)), fmt_parms(p.parms), fmt_headers((p.trails or {}).items()), optbool(p.jsoned),
            "1" if p.persisted else "0", "1" if p.redirectant else "0", hx(bytes(p.msg)))

    def impl(self, case):
        lines, std, info = self._run(case)
        self._trace[core.case_key(case)] = (std, lines, info)
        return lines

    # ------------------------------------------------------------------ model side
    def requests(self, case):
        key = core.case_key(case)
        if key not in self._trace:
            self.safe_impl(case)
        std, impl_lines, info = self._trace.get(key, ([], [], {}))
        kind = case["kind"]
        out = ["begin"] + std
        if kind == "chunk":
            out.append("packchunk %s" % (case["data"] or "-"))
            out.append("parsechunk %s" % hx(self._model_packed_chunk(case)))
        elif kind == "rawchunk":
            out.append("parsechunk %s" % (case["raw"] or "-"))
        elif kind == "header":
            ok_lines = []
            for (name, vals), l in zip(case["headers"], impl_lines):
                out.append("packheader %s %s" % (hx(name), " ".join("%s:%s" % (k, hx(v) if k == "s" else (v if k == "i" else (v or "-")))
                                                                    for k, v in vals)))
                if not l.startswith("err"):
                    ok_lines.append(hb(l))
            raw = b"".join(l + b"\r\n" for l in ok_lines) + b"\r\n" + hb(case["rest"])
            out.append("parseleader %s" % hx(raw))
        elif kind == "rawleader":
            out.append("parseleader %s" % (case["raw"] or "-"))
        elif kind == "request":
            hdrs = info.get("headers_after_init")
            if hdrs is None:       # the constructor itself raised: nothing to ask the model
                hdrs = []
            hs = " ".join("%s %s" % (hx(k), "s:" + hx(v) if isinstance(v, str) else ("i:%d" % v if isinstance(v, int)
                                                                                      else "b:" + hx(v))) for k, v in hdrs)
            js = "~"
            if case["has_data"]:
                js = hx(json.dumps(case["data"], separators=(",", ":")))
            fa = "~" if case["fargs"] is None else "%d %s" % (len(case["fargs"]), " ".join("%s %s" % (hx(k), hx(v)) for k, v in case["fargs"]))
            rhost, rport, rscheme = info.get("requester") or (case["host"], case["port"], case["scheme"])
            out.append(("build %s %d %s %s %s - %s %s Q %d %s H %d %s F %s" % (
                hx(rhost), rport, hx(rscheme), hx(case["method"].upper()), hx(case["path"]),
                case["body"] or "-", js, len(case["qargs"]), " ".join("%s %s" % (hx(k), hx(v)) for k, v in case["qargs"]),
                len(hdrs), hs, fa)).replace("  ", " ").strip())
            if "msg" in info:
                out.append("parsereq %s" % hx(info["msg"]))
                sv = case.get("server")
                if sv is None:
                    out.append("environ %s %s" % (hx(case["scheme"]), hx(info["msg"])))
                else:
                    svt = "~" if sv["servant"] is None else ("1" if sv["servant"] == "tls" else "0")
                    out.append("valetenviron %s %s %s" % (svt, hx(sv["scheme"]), hx(info["msg"])))
            if case.get("server"):
                sv = case["server"]
                svt = "~" if sv["servant"] is None else ("1" if sv["servant"] == "tls" else "0")
                out.append("server %s %s %s" % (svt, hx(sv["scheme"]), "~" if sv["port"] is None else sv["port"]))
        elif kind == "session":
            sent = info.get("sent", [])
            for i, msg in enumerate(sent):
                out.append("parsereq %s" % hx(msg))
                # the model's connection (`serveConnection`) after requests 0..i — proved to depend on request i only
                out.append("connenviron 0 %s %s" % (hx(case["scheme"]), " ".join(hx(m) for m in sent[:i + 1])))
        elif kind == "rawreq":
            out.append("parsereq %s" % (case["raw"] or "-"))
        elif kind == "response":
            out.append(self._respond_line(case))
            if info.get("raw1") is not None:
                out.append("parseresp %s %d %s" % (hx(case["method"]), 1 if info["closed"] else 0, hx(info["raw1"])))
            if info.get("follow"):
                nxt = case["next"]
                out.append(self._respond_line(nxt))
                if "rest1" in info:      # the second parse starts from what the implementation's first parse left
                    out.append("parseresp %s %d %s" % (hx(nxt["method"]), 1 if info["closed2"] else 0, hx(info["rest1"])))
        elif kind == "rawresp":
            out.append("parseresp %s %d %s" % (hx(case["method"]), 1 if case["closed"] else 0, case["raw"] or "-"))
        return out

    def _respond_line(self, case):
        start = "~" if not case["start"] else "%s %d %s" % (hx(case["status"]), len(case["headers"]),
                                                             " ".join("%s %s" % (hx(k), hx(v)) for k, v in case["headers"]))
        items = []
        for it in case["items"]:
            if it[0] in ("Y", "S"):
                items.append("%s %s" % (it[0], it[1] or "-"))
            elif it[0] == "X":
                items.append("X")
            else:
                _, status, reason, title, detail, fault, hdrs = it
                from ioflo.aio.http import httping
                reason_eff = httping.HTTPError(status, reason=reason).reason
                items.append("E %d %s %s %s %s %d %s" % (status, hx(reason_eff), hx(title), hx(detail),
                                                         "~" if fault is None else fault, len(hdrs),
                                                         " ".join("%s %s" % (hx(k), hx(v)) for k, v in hdrs)))
        return ("respond %d %s %s %s" % (1 if case["chunkable"] else 0, hx(DATE), start, " ".join(items))).replace("  ", " ").strip()

    def _model_packed_chunk(self, case):
        data = hb(case["data"])
        return ("%x\r\n" % len(data)).encode() + data + b"\r\n" + hb(case["rest"])

    def model_post(self, case, replies):
        k = 0
        while k < len(replies) and replies[k] == "ok":
            k += 1
        out = list(replies[k:])
        if case["kind"].startswith("raw") and "err out-of-model" in out:
            # the model says explicitly that this input is outside what it transcribes (a negative chunk size, an event
            # stream): nothing to compare — the implementation's own lines stand in (such a case never counts as non-trivial)
            impl_lines = self._trace.get(core.case_key(case), (None, [], None))[1]
            out = [impl_lines[i] if (l == "err out-of-model" and i < len(impl_lines)) else l for i, l in enumerate(out)]
        if case["kind"] == "request":
            server = None
            if case.get("server") and out:
                server = out.pop()           # the model has one decision function for Valet and Porter
                t = server.split()
                if t[0] == "ok":
                    server = "ok %s %s %s P %s %s" % (t[1], t[2], t[3], t[2], t[3])
            while len(out) < 3:
                out.append("skipped" if len(out) < 2 or not out[0].startswith("ok") else out[-1])
            if len(out) == 3 and not out[1].startswith("ok"):
                out[2] = out[1]
            if server is not None:
                out.append(server)
        if case["kind"] == "session":
            # the implementation reports per request: the bytes (an input of the model), the parse, the environ
            key = core.case_key(case)
            info = self._trace.get(key, (None, None, {}))[2]
            impl_lines = self._trace.get(key, (None, [], None))[1]
            res, k2 = [], 0
            for j in range(0, len(impl_lines), 3):
                if impl_lines[j].startswith("ok ") and k2 + 1 < len(out):
                    res += [impl_lines[j], out[k2], out[k2 + 1]]
                    k2 += 2
                else:
                    res += impl_lines[j:j + 3]
            return res
        if case["kind"] == "response":
            if len(out) < 2:
                out.append("skipped")
            if len(out) == 3:
                out.append("skipped")
        return out

    # ------------------------------------------------------------------ oracle
    def oracle(self, case, out):
        kind = case["kind"]
        if any(l.startswith("HARNESS-EXC") for l in out):
            return "harness exception: %s" % [l for l in out if l.startswith("HARNESS-EXC")][0]
        if kind == "chunk":
            data, rest = hb(case["data"]), hb(case["rest"])
            want = "ok %d P 0 T 0 %s R %s" % (len(data), hx(data), hx(rest))
            if out[1] != want:
                return "parseChunk(packChunk(data) + rest) gives %s, expected %s" % (out[1][:80], want[:80])
            return None
        if kind == "header":
            if any(l.startswith("err") for l in out[:-1]):
                return None            # a header that cannot be packed (non latin-1 value …): no round trip to speak of
            want = {}
            for name, vals in case["headers"]:
                parts = [v if k == "s" else (str(v) if k == "i" else hb(v).decode("latin-1")) for k, v in vals]
                want[name.lower()] = ", ".join(parts)
            if len(want) > 100:
                return None
            w = "ok H %s R %s" % (fmt_headers(want.items()), hx(hb(case["rest"])))
            got = out[-1]
            if self._hdr_set(got) != self._hdr_set(w):
                return "parseLeader(packHeader lines) gives %s, expected %s" % (got[:100], w[:100])
            return None
        if kind == "request":
            return self._oracle_request(case, out)
        if kind == "response":
            return self._oracle_response(case, out)
        if kind == "session":
            return self._oracle_session(case, out)
        return None                    # malformed stream: only model == implementation is demanded

    @staticmethod
    def _hdr_set(line):
        t = line.split()
        if t[:2] != ["ok", "H"]:
            return line
        n = int(t[2])
        pairs = [(t[3 + 2 * i], t[4 + 2 * i]) for i in range(n)]
        return (sorted(pairs), tuple(t[3 + 2 * n:]))

    def _oracle_request(self, case, out):
        key = core.case_key(case)
        info = self._trace.get(key, (None, None, {}))[2]
        if not out[0].startswith("ok"):
            return "Requester.build failed: %s" % out[0]
        if not out[1].startswith("ok"):
            return "the server could not parse the built request: %s" % out[1]
        q, env = info.get("q"), info.get("env")
        if q is None:
            return "no parsed request"
        method = case["method"].upper()
        if q.method != method:
            return "method %r parsed as %r" % (method, q.method)
        path = case["path"].partition("?")[0]
        if q.path != path:
            return "path %r parsed as %r" % (path, q.path)
        want_q = [(k, v) for k, v in case["pathq"]] + [(k, v) for k, v in case["qargs"]]
        got_q = parse_qsl(q.query, keep_blank_values=True)
        if len(got_q) != len(want_q) or dict(got_q) != dict(want_q):     # two sources (path and qargs): as a mapping
            return "query args %r parsed as %r (query string %r)" % (want_q, got_q, q.query)
        for name, k, v in case["headers"]:
            text = v if k == "s" else (str(v) if k == "i" else hb(v).decode("latin-1"))
            last = [x for x in case["headers"] if x[0].lower() == name.lower()][-1]
            if last[0] != name or last[1] != k or last[2] != v:
                continue                   # overridden by a later header of the same name
            if name.lower() == "content-type" and (case["has_data"] or case["fargs"] is not None) and method != "GET":
                continue                   # replaced by the builder, by design
            if q.headers.get(name) != text:
                return "header %r: %r parsed as %r" % (name, text, q.headers.get(name))
        body = bytes(q.body)
        if method == "GET":
            want_body = b""
        elif case["has_data"]:
            try:
                if json.loads(body.decode("utf-8")) != case["data"]:
                    return "JSON data %r arrives as %r" % (case["data"], body[:80])
            except ValueError:
                return "JSON data %r arrives as %r" % (case["data"], body[:80])
            if "application/json" not in q.headers.get("content-type", ""):
                return "JSON body without application/json content type"
            want_body = body
        elif case["fargs"] is not None:
            got = parse_qsl(body.decode("utf-8"), keep_blank_values=True)
            if got != [(k, v) for k, v in case["fargs"]]:
                return "form args %r arrive as %r (body %r)" % (case["fargs"], got, body[:80])
            if "application/x-www-form-urlencoded" not in q.headers.get("content-type", ""):
                return "form body without form content type"
            want_body = body
        else:
            want_body = hb(case["body"])
        if body != want_body:
            return "body %r parsed as %r" % (want_body[:40], body[:40])
        # the two ends as constructed
        sv, cl = case.get("server"), case.get("client") or {}
        want_scheme = case["scheme"]
        if sv is not None:
            tls = sv["servant"] == "tls" if sv["servant"] else sv["scheme"] == "https"
            want_scheme = "https" if tls else "http"
            if sv["servant"] and sv["scheme"] and sv["scheme"] != want_scheme:
                if out[3] == "err ValueError" and out[2] == "err ValueError":
                    return None          # a scheme that contradicts the supplied transport is refused
                return "servant %s accepted with scheme %r: %s" % (sv["servant"], sv["scheme"], out[3])
            port = sv["port"] or (443 if tls else 80)
            want = "ok %s %d %d P %d %d" % (hx(want_scheme), tls, port, tls, port)
            if out[3] != want:
                return "Valet/Porter(servant=%s, scheme=%r, port=%r) settle on %s, expected %s (scheme tls port)" % (
                    sv["servant"], sv["scheme"], sv["port"], out[3], want)
        if cl.get("via") == "patron" and cl.get("connector"):
            if q.headers.get("host") != "%s:%d" % (case["host"], case["port"]):
                return "request built by a Patron over a supplied connector has Host %r, connector is %s:%d" % (
                    q.headers.get("host"), case["host"], case["port"])
        # the WSGI environment is consistent with the request
        if env is None:
            return "no WSGI environment"
        env_in = env["wsgi.input"].getvalue()
        checks = [("REQUEST_METHOD", method), ("PATH_INFO", path), ("wsgi.url_scheme", want_scheme),
                  ("SERVER_PROTOCOL", "HTTP/1.1"), ("CONTENT_LENGTH", str(len(body))),
                  ("CONTENT_TYPE", q.headers.get("content-type", ""))]
        for k, v in checks:
            if env.get(k) != v:
                return "environ[%r] = %r, expected %r" % (k, env.get(k), v)
        if dict(parse_qsl(env["QUERY_STRING"], keep_blank_values=True)) != dict(want_q):
            return "environ QUERY_STRING %r does not carry %r" % (env["QUERY_STRING"], want_q)
        if env_in != body:
            return "environ wsgi.input %r is not the body" % env_in[:40]
        for k, v in q.headers.items():
            if env.get("HTTP_" + k.replace("-", "_").upper()) != v:
                return "environ lacks header %r" % k
        return None

    def _oracle_session(self, case, out):
        """each request of the connection arrives as itself and the application is shown an environment that speaks
        of THIS request only: nothing of an earlier request on the connection is carried over, on either side"""
        info = self._trace.get(core.case_key(case), (None, None, {}))[2]
        seen = info.get("seen") or []
        if info.get("connections", 1) != 1:
            return "the requests went over %d connections, not one keep-alive connection" % info["connections"]
        scheme = "http"
        for i, r in enumerate(case["requests"]):
            lines = out[3 * i:3 * i + 3]
            if len(lines) < 3 or not lines[0].startswith("ok"):
                return "request %d could not be built/sent: %s" % (i, lines[:1])
            if not lines[1].startswith("ok") or not lines[2].startswith("ok") or i >= len(seen):
                return "request %d did not reach the application: %s / %s" % (i, lines[1][:40], lines[2][:40])
            _pl, _el, env, qh, qmethod, qpath, qquery, qbody = seen[i]
            method = r["method"].upper()
            path = r["path"].partition("?")[0]
            if qmethod != method or qpath != path:
                return "request %d: %s %r parsed as %s %r" % (i, method, path, qmethod, qpath)
            want_q = [(k, v) for k, v in r["pathq"]] + [(k, v) for k, v in r["qargs"]]
            got_q = parse_qsl(qquery, keep_blank_values=True)
            if len(got_q) != len(want_q) or dict(got_q) != dict(want_q):
                return "request %d: query args %r parsed as %r" % (i, want_q, got_q)
            # headers: the given ones arrive, and nothing else but what the builder adds for THIS request
            given = {}
            for name, k, v in r["headers"]:
                given[name.lower()] = v if k == "s" else (str(v) if k == "i" else hb(v).decode("latin-1"))
            bodied = method != "GET" and (r["has_data"] or r["fargs"] is not None)
            for k, v in given.items():
                if k == "content-type" and bodied:
                    continue
                if qh.get(k) != v:
                    return "request %d: header %r: %r arrives as %r" % (i, k, v, qh.get(k))
            extra = set(qh) - set(given) - {"host", "accept-encoding", "content-length", "content-type"}
            if extra:
                return "request %d arrives with headers it was not given: %s" % (i, sorted(extra))
            if "content-type" in qh and "content-type" not in given and not bodied:
                return "request %d arrives with a Content-Type (%r) it was not given" % (i, qh["content-type"])
            if method == "GET":
                if qbody:
                    return "request %d: GET arrives with a body" % i
            elif r["has_data"]:
                try:
                    if json.loads(qbody.decode("utf-8")) != r["data"]:
                        return "request %d: JSON data %r arrives as %r" % (i, r["data"], qbody[:60])
                except ValueError:
                    return "request %d: JSON data %r arrives as %r" % (i, r["data"], qbody[:60])
            elif r["fargs"] is not None:
                if parse_qsl(qbody.decode("utf-8"), keep_blank_values=True) != [(k, v) for k, v in r["fargs"]]:
                    return "request %d: form args %r arrive as %r" % (i, r["fargs"], qbody[:60])
            elif qbody != hb(r["body"]):
                return "request %d: body %r arrives as %r" % (i, hb(r["body"])[:30], qbody[:30])
            # the environment: a function of this request (and the connection's constants) only
            want = {"REQUEST_METHOD": method, "PATH_INFO": path, "QUERY_STRING": qquery, "wsgi.url_scheme": scheme,
                    "SERVER_PROTOCOL": "HTTP/1.1", "CONTENT_TYPE": qh.get("content-type", ""),
                    "CONTENT_LENGTH": str(len(qbody)), "wsgi.input": qbody}
            for k, v in want.items():
                if env.get(k) != v:
                    return "request %d: environ[%r] = %r, the request says %r" % (i, k, env.get(k), v)
            http_keys = {"HTTP_" + k.replace("-", "_").upper(): v for k, v in qh.items()}
            for k, v in http_keys.items():
                if env.get(k) != v:
                    return "request %d: environ lacks header %s = %r (has %r)" % (i, k, v, env.get(k))
            stale = sorted(k for k in env if k.startswith("HTTP_") and k not in http_keys)
            if stale:
                return "request %d: environ carries %s, which this request did not send (an earlier request on the " \
                       "connection did)" % (i, stale)
        # the responses: every one arrives complete — however many sends the server's socket needed, and also the one
        # after which the server closes the connection (a response is delimited, never cut short by the close)
        resps = info.get("responses") or []
        for i, r in enumerate(case["requests"]):
            want = b"" if r["method"].upper() == "HEAD" else self._resp_body(i, r.get("resp", 2))
            if i >= len(resps):
                return "the response to request %d (%d bytes, %s) never arrived complete; %d of %d responses delivered" % (
                    i, len(want), "Content-Length" if r.get("rcl", True) else "chunked", len(resps), len(case["requests"]))
            st, body, errored = resps[i]
            if st != 200 or errored or body != want:
                return "the response to request %d arrived as status %s, %d of %d body bytes, errored=%s" % (
                    i, st, len(body), len(want), errored)
        closing = any(h[0].lower() == "connection" and str(h[2]).lower() == "close" for h in case["requests"][-1]["headers"])
        if closing and info.get("server_open"):
            return "the last request asked for Connection: close but the server kept the connection"
        if not closing and not info.get("server_open"):
            return "the server closed a connection nobody asked it to close"
        return None

    def _oracle_response(self, case, out):
        key = core.case_key(case)
        info = self._trace.get(key, (None, None, {}))[2]
        wires = info.get("wires") or []
        follow = info.get("follow")
        # what must be left in the buffer after the first response: exactly the bytes of the response that follows
        rest = wires[1][0] if follow else b""
        why = self._judge_response(case, out[0], out[1], info.get("p"), rest)
        if why == "no-opinion":
            return None
        if why:
            return why
        if follow:
            nxt = case["next"]
            why = self._judge_response(nxt, out[2], out[3], info.get("p2"), b"")
            if why and why != "no-opinion":
                return "after the %s response to %s, the next response on the connection: %s" % (
                    case["status"].split()[0], case["method"], why)
        return None

    def _judge_response(self, case, serve_line, parse_line, p, rest):
        items = case["items"]
        if not case["start"] and not (items and [i for i in items if i[0] != "Y" or i[1]][:1] and
                                      [i for i in items if i[0] != "Y" or i[1]][0][0] == "E"):
            return "no-opinion"          # an application that never calls start_response: not a WSGI response
        if not serve_line.startswith("ok"):
            return "Responder failed: %s" % serve_line
        if serve_line.split()[1] != "1":
            return "no-opinion"          # the application promised more bytes than it produced: no complete response
        # what the application said
        first = [i for i in items if i[0] != "Y" or i[1]]
        status, headers, body = case["status"], list(case["headers"]), b""
        is_error = bool(first and first[0][0] == "E")
        if is_error:
            from ioflo.aio.http import httping
            _, st, reason, title, detail, fault, hdrs = first[0]
            ex = httping.HTTPError(st, reason=reason, title=title, detail=detail, fault=fault, headers=hdrs)
            status = "%d %s" % (ex.status, ex.reason)
            headers = list(hdrs)
            body = ex.render()
        else:
            for it in items:
                if it[0] == "Y":
                    body += hb(it[1])
                elif it[0] == "S":
                    body += hb(it[1])
                    break
                else:
                    break                # an error after the head went out ends the body there
            cl = [v for k, v in headers if k.lower() == "content-length"]
            if cl and case["method"] != "HEAD":
                if int(cl[-1]) > len(body) and int(status.split()[0]) not in (204, 304):
                    return "no-opinion"      # the application promised more bytes than it produced
                body = body[:int(cl[-1])]
        if p is None or not parse_line.startswith("ok"):
            return "the client could not parse the response: %s" % parse_line
        code = int(status.split()[0])
        bodiless = case["method"] == "HEAD" or code in (204, 304)
        if bodiless and body:
            return "no-opinion"          # a body where HTTP allows none (an HTTPError page in answer to HEAD): no demand
        if p.status != code:
            return "status %r parsed as %r" % (status, p.status)
        if " ".join(status.split()[1:]) != " ".join(p.reason.split()):
            return "reason of %r parsed as %r" % (status, p.reason)
        want_h = {}
        for k, v in headers:
            want_h[k.lower()] = v
        if is_error:
            # rules for a raised HTTPError: the error's own Content-Type (in any spelling) wins, text/plain is only the
            # default; Content-Length is that of the rendered body
            want_h.setdefault("content-type", "text/plain")
            want_h["content-length"] = str(len(body))
        for k, v in want_h.items():
            if p.headers.get(k) != v:
                return "header %r: %r parsed as %r" % (k, v, p.headers.get(k))
        if "content-type" not in want_h and p.jsoned:
            return "a response without Content-Type is taken for JSON (jsoned=%r)" % p.jsoned
        if p.body != body:
            return "body %r (%d bytes) parsed as %r (%d bytes)" % (body[:30], len(body), p.body[:30], len(p.body))
        if p.msg != rest:
            return "after the response %d bytes are left in the buffer (%r…), the next response is %d bytes" % (
                len(p.msg), p.msg[:12], len(rest))
        return None

    # ------------------------------------------------------------------ bookkeeping
    def nontrivial(self, case, out):
        k = case["kind"]
        if k == "chunk":
            return out[1].startswith("ok") and case["data"] != ""
        if k == "header":
            return out[-1].startswith("ok") and len(case["headers"]) > 0
        if k == "request":
            return out[0].startswith("ok") and out[1].startswith("ok")
        if k == "response":
            return out[0].startswith("ok 1") and out[1].startswith("ok") and (len(out) < 4 or out[3].startswith("ok"))
        if k == "session":
            return len(out) == 3 * len(case["requests"]) and all(l.startswith("ok") for l in out)
        return False

    def bucket(self, case, out):
        k = case["kind"]
        if k == "response":
            return "response:" + ("HEAD:" if case["method"] == "HEAD" else "") + case["status"].split()[0][:1] + ("+next:" if case.get("next") else ":") + case["mode"] + ("" if out[-1].startswith("ok") else ":" + out[-1].split()[0] + out[-1][3:12])
        if k == "session":
            sizes = [len(r["headers"]) for r in case["requests"]]
            shrinks = any(b < a for a, b in zip(sizes, sizes[1:]))
            return "session:%d%s%s" % (len(case["requests"]), ":shrinking-headers" if shrinks else "",
                                       "" if all(l.startswith("ok") for l in out) else ":" + [l for l in out if not l.startswith("ok")][0][:12])
        if k == "request":
            mode = "data" if case["has_data"] else ("fargs" if case["fargs"] is not None else ("body" if case["body"] else "none"))
            return "request:" + mode
        return k + ":" + out[-1].split(" ")[0] + (out[-1][3:16] if out[-1].startswith("err") else "")

    def shrink_candidates(self, case):
        k = case["kind"]
        c = json.loads(json.dumps(case))
        if k == "request":
            for field, empty in (("headers", []), ("qargs", []), ("pathq", None), ("body", ""), ("fargs", None)):
                if case.get(field):
                    d = json.loads(json.dumps(case))
                    if field == "pathq":
                        d["pathq"] = []
                        d["path"] = d["path"].partition("?")[0]
                    else:
                        d[field] = empty
                    yield d
            for i in range(len(case["headers"])):
                d = json.loads(json.dumps(case)); del d["headers"][i]; yield d
            for i in range(len(case["qargs"])):
                d = json.loads(json.dumps(case)); del d["qargs"][i]; yield d
            if case["fargs"]:
                for i in range(len(case["fargs"])):
                    d = json.loads(json.dumps(case)); del d["fargs"][i]; yield d
            if len(case["path"]) > 2 and not case["pathq"]:
                d = json.loads(json.dumps(case)); d["path"] = "/p"; yield d
        elif k == "session":
            n = len(case["requests"])
            for i in range(n):
                if n > 1:
                    d = json.loads(json.dumps(case)); del d["requests"][i]; yield d
            for i, r in enumerate(case["requests"]):
                sub = dict(r, kind="request")
                for cand in self.shrink_candidates(sub):
                    if cand.get("kind") == "request":
                        c2 = dict(cand); c2.pop("kind", None)
                        d = json.loads(json.dumps(case)); d["requests"][i] = c2; yield d
        elif k == "response":
            if case.get("next"):
                d = json.loads(json.dumps(case)); del d["next"]; yield d
                yield json.loads(json.dumps(case["next"]))
                for sub in self.shrink_candidates(case["next"]):
                    d = json.loads(json.dumps(case)); d["next"] = sub; yield d
            for i in range(len(case["items"])):
                d = json.loads(json.dumps(case)); del d["items"][i]; yield d
            for i in range(len(case["headers"])):
                if case["headers"][i][0].lower() != "content-length":
                    d = json.loads(json.dumps(case)); del d["headers"][i]; yield d
        elif k == "header":
            for i in range(len(case["headers"])):
                d = json.loads(json.dumps(case)); del d["headers"][i]; yield d
        elif k == "chunk":
            b = hb(case["data"])
            if len(b) > 1:
                d = dict(case); d["data"] = b[:len(b) // 2].hex(); yield d
        elif "raw" in case:
            b = hb(case["raw"])
            for i in range(len(b)):
                d = dict(case); d["raw"] = (b[:i] + b[i + 1:]).hex(); yield d
