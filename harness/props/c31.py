"""C31 — keep-alive connections carry N requests to N ordered, framed responses.

Model:    lean/IofloModel/Model/KeepAlive.lean (Patron.serviceAll / Valet.serviceAll on one persistent connection,
          Responder start/write/service with its Content-Length accounting and chunking, the client's response
          delimiting; schedules = arbitrary interleavings of the two serviceAll calls)
Theorems: lean/IofloModel/Props/C31.lean
Tie:      the REAL Patron and the REAL Valet of $IOFLO_REPO (real Requester/Respondent/Requestant/Responder, real tcp
          Client/Server/Incomer classes over socket-pair doubles) serve N queued requests with a scripted WSGI
          application under the case's schedule; after every serviceAll call the number of delivered responses and of
          application calls, and at the end the delivered responses and the framing of every response head seen on the
          wire, are compared with the model.  Thorough tier: some cases are repeated over real loopback TCP sockets
          (oracle only).
Oracle:   independent of the model: exactly N responses, in request order, each carrying the identity of its own
          request and the body its application produced, every head on the wire delimited by Content-Length or
          chunking, client idle at the end.
"""
import json, re
import core
from props import httpb_doubles as D


def hb(h):
    return b"" if h in ("", "-") else bytes.fromhex(h)


def wire_framings(wire, bodyless=()):
    """independent reader of the server->client byte stream: the framing of each response head; `bodyless[i]` says
    that the i-th response has no body whatever its Content-Length says (204 / 304 / answer to HEAD)"""
    out, i = [], 0
    while i < len(wire):
        j = wire.find(b"\r\n\r\n", i)
        if j < 0:
            out.append("?")
            break
        head = wire[i:j].lower()
        nobody = len(out) < len(bodyless) and bodyless[len(out)]
        m = re.search(rb"\r\ncontent-length:\s*(\d+)", head)
        if b"\r\ntransfer-encoding: chunked" in head:
            out.append("C")
            k = j + 4
            while True:                       # skip the chunks
                e = wire.find(b"\r\n", k)
                if e < 0:
                    return out
                n = int(wire[k:e].split(b";")[0], 16)
                k = e + 2 + n + 2
                if n == 0:
                    break
            i = k
        elif m:
            out.append("L%d" % int(m.group(1)))
            i = j + 4 + (0 if nobody else int(m.group(1)))
        else:
            out.append("U")
            break
    return out


class CHECK(core.Check):
    PROPERTY = "C31"
    LEAN_MODULES = ["IofloModel.Props.C31"]
    ENGINE = "keepalive"
    N_QUICK = 300
    N_THOROUGH = 6000
    N_SEARCH = 800
    RULE = ("N = 1..6 requests (GET or HEAD) queued on one Patron, each answered by a scripted WSGI application: fixed length "
            "(Content-Length = total, or fewer than the bytes yielded), streamed without a length (1-4 pieces), empty "
            "(no yield; with and without Content-Length: 0), 204 / 304 (with and without a length), answers to HEAD "
            "(Content-Length announced or not, no body), with empty yields in between; in 40% of the cases the wire "
            "lets only 0..200 bytes through per service pass (requests and responses arrive split at arbitrary byte "
            "positions; every cut position 1..40/90 exhaustively); schedule = random string "
            "of client/server serviceAll calls (runs of one side, strict alternation, server-first) followed by enough "
            "alternation to finish; 30% of the cases are pipelines of 2-5 requests (any response kinds) in which one or two "
            "requests carry `Connection: close` at any position (every position of 2-5 request pipelines and every response "
            "kind of the close request exhaustively; some with a throttled wire; 60% with throttled server-side sockets that "
            "take 16-400 bytes per non-blocking send, or nothing every other time, and responses of up to 3000 bytes: the closing "
            "response too must arrive complete); non-trivial = N >= 2 and all N responses "
            "delivered (close pipelines: the run settled and the responses up to the close request were delivered); "
            "distinct by content")
    TRUSTED = ["correspondence: real Patron + real Valet of $IOFLO_REPO (all real HTTP classes; tcp Client/Server/Incomer "
               "subclasses in which only open/accept are replaced) over socket.socketpair doubles, DNS double, scripted "
               "application; per-serviceAll comparison of delivered/served counts with the Lean model, final comparison of "
               "the delivered responses and of the framing of every head on the wire (read by an independent byte reader)",
               "the model describes the code as repaired by fixes/D17 (Responder.reset recomputes chunkable) and fixes/D31b (delivered body "
               "is a copy)",
               "pipelines with `Connection: close` are compared with the pipeline-level model on their outcome (requests handed to "
               "the application, connection left open or closed by the server, delivered responses), under random schedules and "
               "throttled wires; the relay double passes the server's close on (the client then reads end of stream and meets EPIPE "
               "on a later send — a transport error that, per C25, propagates out of Patron.serviceAll: tolerated by the oracle "
               "exactly when requests were left to send after the close request)"]
    PARTIAL = ["arrival in fragments is exercised against the real code with a throttled wire but compared with the model "
               "and judged by the oracle only on the outcome (the per-pass trace is compared for unthrottled cases): the "
               "model is message-level, independence of the split points is C29's theorem",
               "message-level model: response heads and chunk framing are abstract items (their byte-level round trip is C30); "
               "one connection, HTTP/1.1 requests, applications that call start_response once and yield at least Content-Length "
               "bytes; timeouts, TLS, server sent events and connection loss are not modelled",
               "`Connection: close` is modelled at the level of whole requests (pipeline model: one request after the other, as "
               "Patron sends them): that the outcome does not depend on the order of the two parties' service calls is proved "
               "for pipelines without close requests (C31_n_in_n_out_ordered + C31_pipeline_agrees_when_good) and exercised, "
               "not proved, for pipelines with them",
               "outside the property's quantifier, observed on the unchanged code and NOT part of the generator or theorems: an "
               "application that raises before start_response makes every later Valet.serviceAll raise AssertionError; one that "
               "raises after start_response is answered as a complete (empty or truncated) 200; one that yields fewer bytes than "
               "its Content-Length leaves the client waiting for ever (later requests never sent) — the pipeline model only "
               "says that such a pipeline stops there; a yield before start_response raises AssertionError out of serviceAll "
               "(proposed repairs, not applied: fixes/D31c, D31e, D31f)"]
    TECHNIQUE = ("Lean 4 theorems over a two-party state machine with FIFO wires (invariant over all schedules, progress "
                 "under alternation) + differential correspondence against the real client and server under random schedules")
    LEVEL_TEXT = ("Proved on the model for every application (that yields at least the Content-Length it announces, and no "
                  "body at all for 204 / 304 responses and answers to HEAD requests, which may be mixed in freely), every "
                  "list of requests and EVERY schedule of client/server serviceAll calls: each response head written is "
                  "delimited by Content-Length or chunking, never 'until close' (C31_every_response_framed); the items "
                  "queued for one request parse back, however they are grouped on arrival, to exactly one response with "
                  "that request's tag and body and nothing left over (C31_response_stream_roundtrip); at every moment the "
                  "client's response queue is the expected responses of the first k requests, in order, each attributed to "
                  "its own request (C31_responses_in_request_order, by a three-phase invariant over both parties and both "
                  "wires); and after any prefix schedule followed by sum(yields+4) alternations all N responses have been "
                  "delivered and the client is idle (C31_n_in_n_out_ordered, by a rank that no step increases and every "
                  "client+server pair lowers). `Connection: close` inside a pipeline (pipeline-level model, every application, any "
                  "positions): the server handles exactly the requests up to and including the first that ends the pipeline, none "
                  "after it, the deliveries are what the client makes of the items written for each handled request, and the "
                  "server closes iff a handled request asked for it (C31_pipeline_stops_at_first_end); for well-behaved "
                  "applications every request up to and including the first close request is answered with its expected "
                  "response, in order, and the connection is closed iff some request asked for it (C31_close_ends_pipeline); "
                  "every head written is length- or chunk-framed (C31_pipeline_responses_framed); without close requests the "
                  "pipeline model delivers exactly the step model's responses (C31_pipeline_agrees_when_good).")
    LEVEL_NOTE = ("Trusted: Lean kernel; axioms propext, Classical.choice, Quot.sound; hand transcription of Patron.serviceAll, "
                  "Valet.serviceAll, Responder (as repaired by fixes/D17, D31b) validated by the correspondence runs; socket-pair "
                  "and DNS doubles; the kernel's TCP only in the loopback repetition.")

    def __init__(self):
        self._loop = {"run": 0, "ok": 0, "skipped": None}
        self._client_gone = {}

    # ------------------------------------------------------------------ generation
    def _app(self, rng):
        kind = rng.choice(["fixed", "fixed", "streamed", "streamed", "empty", "over", "nocontent", "notmodified", "head"])
        pieces = [bytes(rng.randrange(256) for _ in range(rng.choice([1, 2, 7, 40]))) for _ in range(rng.choice([1, 1, 2, 3, 4]))]
        if rng.random() < 0.25:
            pieces.insert(rng.randrange(len(pieces) + 1), b"")
        total = sum(len(p) for p in pieces)
        status, head = 200, False
        if kind == "fixed":
            cl = total
        elif kind == "over":
            cl = rng.randrange(total + 1)
        elif kind == "empty":
            pieces, cl = ([b""] if rng.random() < 0.3 else []), rng.choice([None, None, 0])
        elif kind in ("nocontent", "notmodified"):
            # a status that never has a body: the application yields nothing (or empty strings); with or without a length
            status = 204 if kind == "nocontent" else 304
            pieces, cl = ([b""] if rng.random() < 0.3 else []), rng.choice([None, None, 0, 5 if kind == "notmodified" else 0])
        elif kind == "head":
            # answer to a HEAD request: headers as for GET (a Content-Length may be announced), no body
            head = True
            pieces, cl = ([b""] if rng.random() < 0.3 else []), rng.choice([None, 0, 7, 1234])
        else:
            cl = None
        return {"cl": cl, "pieces": [p.hex() for p in pieces], "status": status, "head": head}

    def _schedule(self, rng, apps):
        work = sum(len(a["pieces"]) + 3 for a in apps) + 4
        style = rng.choice(["alt", "random", "runs", "server-first", "random"])
        if style == "alt":
            pre = ""
        elif style == "server-first":
            pre = "s" * rng.randrange(1, 5)
        elif style == "runs":
            pre = "".join(rng.choice("cs") * rng.randrange(1, 6) for _ in range(rng.randrange(1, 10)))
        else:
            pre = "".join(rng.choice("cs") for _ in range(rng.randrange(0, 4 * work)))
        return pre + "cs" * work

    def _one(self, rng):
        n = rng.choice([1, 2, 2, 3, 3, 4, 6])
        apps = [self._app(rng) for _ in range(n)]
        sched = self._schedule(rng, apps)
        case = {"n": n, "apps": apps, "schedule": sched}
        if rng.random() < 0.4:
            # the wire lets only some bytes through per service pass: requests and responses arrive split anywhere
            tail = 2 * (sum(len(a["pieces"]) + 3 for a in apps) + 4)
            style = rng.choice(["tiny", "small", "mixed"])
            q = []
            for i in range(len(sched) - tail):
                q.append(rng.choice([1, 2, 3, 5]) if style == "tiny" else
                         rng.randrange(1, 60) if style == "small" else rng.choice([-1, 0, 1, 7, 30, 200]))
            if not q:       # pure alternation: fragment a stretch of it and append the finishing tail again
                extra = rng.randrange(10, 120)
                case["schedule"] = "cs" * (extra // 2) + sched
                q = [rng.choice([1, 2, 3, 5, 17, 40]) for _ in range(2 * (extra // 2))]
            case["quota"] = q + [-1] * (len(case["schedule"]) - len(q))
        return case

    def _one_events(self, rng):
        """a pipeline of 2-5 requests (any response kinds) some of which carry `Connection: close`, at any positions"""
        n = rng.choice([2, 3, 3, 4, 5])
        apps = [self._app(rng) for _ in range(n)]
        for i in rng.sample(range(n), rng.choice([1, 1, 1, 2])):
            apps[i]["close"] = True
        case = {"n": n, "apps": apps, "schedule": self._schedule(rng, apps), "events": True}
        if rng.random() < 0.6:
            # the server's sockets take only `scap` bytes per non-blocking send: every response (head ~150 bytes + body) needs
            # several service passes to go out, also the one after which the connection is to be closed
            case["scap"] = rng.choice([16, 50, 120, 400])
            case["seagain"] = rng.random() < 0.3
            if rng.random() < 0.5:
                big = rng.randrange(n)
                body = bytes(rng.randrange(256) for _ in range(rng.choice([600, 3000])))
                apps[big]["pieces"] = [body.hex()]
                apps[big]["cl"] = rng.choice([None, len(body)])
                apps[big]["status"], apps[big]["head"] = 200, False
        if rng.random() < 0.3:
            case["quota"] = [rng.choice([-1, 1, 7, 30, 200]) for _ in range(len(case["schedule"]) // 2)] + \
                            [-1] * (len(case["schedule"]) - len(case["schedule"]) // 2)
        return case

    def generate(self, rng, n, tier):
        for _ in range(n):
            yield self._one_events(rng) if rng.random() < 0.3 else self._one(rng)

    def exhaustive(self, tier):
        """every pair (and, thorough, triple) of response kinds in sequence, strict alternation"""
        kinds = [{"cl": 3, "pieces": ["616263"]}, {"cl": None, "pieces": ["6162", "63"]}, {"cl": None, "pieces": []},
                 {"cl": 0, "pieces": []}, {"cl": 2, "pieces": ["616263"]},
                 {"cl": None, "pieces": [], "status": 204}, {"cl": None, "pieces": [], "status": 304},
                 {"cl": None, "pieces": [], "head": True}, {"cl": 7, "pieces": [], "head": True}]
        import itertools
        for r in ((2, 3) if tier == "thorough" else (2,)):
            for combo in itertools.product(kinds, repeat=r):
                apps = [json.loads(json.dumps(k)) for k in combo]
                yield {"n": r, "apps": apps, "schedule": "cs" * (6 * r + 4)}
        # every byte position at which the second request / the first response can be cut by the wire
        for cut in range(1, 90 if tier == "thorough" else 40):
            sched = "cs" * 40
            yield {"n": 2, "apps": [kinds[1], kinds[0]], "schedule": sched, "quota": [cut, cut, cut, cut] * 10 + [-1] * 40}
        # `Connection: close` at every position of 2-5 request pipelines, for every kind of response to the close request
        good = {"cl": 3, "pieces": ["616263"], "status": 200, "head": False}
        stream = {"cl": None, "pieces": ["6162", "63"], "status": 200, "head": False}
        for n in (2, 3, 4, 5):
            for pos in range(n):
                for ev in (kinds if (tier == "thorough" or n <= 3) else kinds[:3]):
                    apps = [json.loads(json.dumps(stream if (j % 2) else good)) for j in range(n)]
                    apps[pos] = dict(json.loads(json.dumps(ev)), close=True)
                    yield {"n": n, "apps": apps, "schedule": "cs" * (6 * n + 6), "events": True}
        big = {"cl": None, "pieces": [("%02x" % 7) * 900], "status": 200, "head": False}
        bigl = {"cl": 900, "pieces": [("%02x" % 9) * 900], "status": 200, "head": False}
        for scap in (16, 100, 500):       # throttled server-side sockets: the closing response needs many sends
            for eag in (False, True):
                for pos in range(3):
                    for ev in (big, bigl, good):
                        apps = [json.loads(json.dumps(good)) for _ in range(3)]
                        apps[pos] = dict(json.loads(json.dumps(ev)), close=True)
                        yield {"n": 3, "apps": apps, "schedule": "cs" * 12, "events": True, "scap": scap, "seagain": eag}
        for first in range(3):            # two close requests in one pipeline: only the first counts; server-first schedules
            apps = [json.loads(json.dumps(good)) for _ in range(4)]
            apps[first]["close"] = True
            apps[3]["close"] = True
            yield {"n": 4, "apps": apps, "schedule": "sscc" + "cs" * 30, "events": True}
        if tier == "thorough":       # every schedule prefix of length <= 7 for a fixed + streamed pair
            for k in range(8):
                for bits in itertools.product("cs", repeat=k):
                    yield {"n": 2, "apps": [kinds[0], kinds[1]], "schedule": "".join(bits) + "cs" * 14}

    # ------------------------------------------------------------------ implementation adapter
    def _run(self, case, loopback=False):
        from ioflo.aio.http import clienting as hc, serving as hs
        apps = case["apps"]
        served = {"n": 0}

        def app(environ, start_response):
            m = re.fullmatch(r"/r(\d+)", environ["PATH_INFO"])
            i = int(m.group(1)) if m else 0
            served["n"] += 1
            a = apps[i]
            hdrs = [("X-Req", str(i))]
            if a["cl"] is not None:
                hdrs.append(("Content-Length", str(a["cl"])))
            start_response({200: "200 OK", 204: "204 No Content", 304: "304 Not Modified"}[a.get("status", 200)], hdrs)
            for p in a["pieces"]:
                yield hb(p)

        steps, wire = [], []
        if loopback:
            import socket
            probe = socket.socket()
            probe.bind(("127.0.0.1", 0))
            port = probe.getsockname()[1]
            probe.close()
            valet = hs.Valet(app=app, host="127.0.0.1", port=port)
            if not valet.open():
                raise core.Infra("cannot bind a loopback port")
            p = hc.Patron(hostname="127.0.0.1", port=port)
            p.open()
            try:
                return self._drive(case, p, valet, served, steps, wire, sleep=True)
            finally:
                p.close()
                valet.close()
        net = D.Net({"a.test": "10.0.0.1"})
        net.relayed = True
        if case.get("scap"):
            # throttled server-side sockets: one non-blocking send takes `scap` bytes (every other one none at all)
            net.server_send_cap = case["scap"]
            net.server_send_eagain = bool(case.get("seagain"))
        net.wiretap = lambda data: wire.append(data)
        with D.patched(net):
            S = D.server_class(net)
            valet = hs.Valet(app=app, servant=S(ha=("10.0.0.1", 8080)))
            valet.open()
            p = hc.Patron(hostname="a.test", port=8080)
            p.open()
            try:
                return self._drive(case, p, valet, served, steps, wire, net=net)
            finally:
                try:
                    valet.servant.closeAllIx()
                except Exception:
                    pass

    def _drive(self, case, p, valet, served, steps, wire, sleep=False, net=None):
        import time
        from ioflo.aid.odicting import odict
        for i in range(case["n"]):
            p.request(method="HEAD" if case["apps"][i].get("head") else "GET", path="/r%d" % i,
                      headers=odict([("Connection", "close")]) if case["apps"][i].get("close") else odict())
        client_gone = None     # pipelines with `Connection: close`: the client's send on the closed connection raised
        err = None
        quota = case.get("quota") or [-1] * len(case["schedule"])
        for ch, qt in zip(case["schedule"], quota):
            try:
                if ch == "c":
                    if net is not None:
                        net.move("s2c", qt)
                    if client_gone is None:
                        try:
                            p.serviceAll()
                        except OSError as ex:
                            if not case.get("events"):
                                raise
                            client_gone = type(ex).__name__      # transport error after the server's close (C25): judged by the oracle
                else:
                    if net is not None:
                        net.move("c2s", qt)
                    valet.serviceAll()
            except Exception as ex:
                err = "err " + type(ex).__name__
                break
            if sleep:
                time.sleep(0.0005)
            steps.append("%d:%d" % (len(p.responses), served["n"]))
        if sleep and err is None:      # the kernel's TCP delivers when it likes: keep alternating (bounded) until done
            t0 = time.time()
            while len(p.responses) < case["n"] and time.time() - t0 < 5.0:
                try:
                    p.serviceAll()
                    valet.serviceAll()
                except Exception as ex:
                    err = "err " + type(ex).__name__
                    break
                time.sleep(0.0005)
        if case.get("events"):
            # pipelines with `Connection: close`: only the outcome is compared (pipeline-level model); let everything settle
            rounds = 8
            if case.get("scap"):
                total = sum(200 + sum(len(hb(x)) + 12 for x in a["pieces"]) for a in case["apps"])
                rounds += (2 if case.get("seagain") else 1) * (total // case["scap"] + 2 * case["n"])
            for _ in range(rounds):
                if err:
                    break
                try:
                    if net is not None:
                        net.move("s2c", -1)
                    if client_gone is None:
                        try:
                            p.serviceAll()
                        except OSError as ex:
                            client_gone = type(ex).__name__
                    if net is not None:
                        net.move("c2s", -1)
                    valet.serviceAll()
                except Exception as ex:
                    err = "err " + type(ex).__name__
            ds = []
            for r in p.responses:
                m = re.fullmatch(r"/r(\d+)", r["request"]["path"])
                ds.append("%d %s %s" % (int(m.group(1)) if m else -1, r["headers"].get("x-req", "-1"), bytes(r["body"]).hex() or "-"))
            self._client_gone[core.case_key(case)] = client_gone
            return ["handled %d alive %d D %d%s%s" % (served["n"], 1 if len(valet.servant.ixes) else 0, len(ds),
                                                      "".join(" " + d for d in ds), " " + err if err else "")]
        delivered = []
        errored = 0
        for r in p.responses:
            m = re.fullmatch(r"/r(\d+)", r["request"]["path"])
            errored |= 1 if r["errored"] else 0
            delivered.append("%d %s %s" % (int(m.group(1)) if m else -1, r["headers"].get("x-req", "-1"),
                                           bytes(r["body"]).hex() or "-"))
        if net is not None:
            net.move("s2c", -1)            # so that the wire reader sees everything the server wrote
        fr = wire_framings(b"".join(wire), [bool(a.get("head")) or a.get("status", 200) in (204, 304) for a in case["apps"]])
        if case.get("quota"):
            steps = []                     # with a throttled wire only the outcome is compared with the (message-level) model
        line = "%s | final %d %d %d%s F%s" % (";".join(steps) if steps else "-", 1 if p.waited else 0, errored,
                                              len(delivered), "".join(" " + d for d in delivered),
                                              "".join(" " + f for f in fr))
        if err:
            line += " " + err
        return [line]

    def impl(self, case):
        return self._run(case)

    def requests(self, case):
        if case.get("events"):
            blocks = ["A %s %d %d %d %d %s" % ("~" if x["cl"] is None else x["cl"], 1 if x.get("status", 200) in (204, 304) else 0,
                                               1 if x.get("head") else 0, 1 if x.get("close") else 0, len(x["pieces"]),
                                               " ".join(p or "-" for p in x["pieces"])) for x in case["apps"]]
            return [("pipe %d %s" % (case["n"], " ".join(blocks))).replace("  ", " ").strip()]
        a = " ".join("A %s %d %d %d %s" % ("~" if x["cl"] is None else x["cl"], 1 if x.get("status", 200) in (204, 304) else 0,
                                           1 if x.get("head") else 0, len(x["pieces"]),
                                           " ".join(p or "-" for p in x["pieces"])) for x in case["apps"])
        return [("ka %d %s S %s" % (case["n"], a, case["schedule"])).replace("  ", " ")]

    def model_post(self, case, replies):
        if case.get("events"):
            return replies
        if case.get("quota") and replies:
            return ["- |" + replies[0].split("|", 1)[1]]
        return replies

    # ------------------------------------------------------------------ oracle
    def _expected(self, case):
        out = []
        for i, a in enumerate(case["apps"]):
            body = b"".join(hb(p) for p in a["pieces"])
            if a.get("head") or a.get("status", 200) in (204, 304):
                if body:
                    return None          # an application that sends a body where none is allowed
                out.append("%d %d -" % (i, i))
                continue
            if a["cl"] is not None:
                if len(body) < a["cl"]:
                    return None          # the application promised more than it yields: not a complete response
                body = body[:a["cl"]]
            out.append("%d %d %s" % (i, i, body.hex() or "-"))
        return out

    def oracle(self, case, out):
        if case.get("events"):
            return self._judge_events(case, out[0] if out else "")
        return self._judge(case, out[0] if out else "")

    def _judge_events(self, case, line):
        """a pipeline with `Connection: close` requests: the requests up to and including the first close request are
        answered in order, each with its own response; the server then closes the connection; no later request is handled"""
        want = self._expected(case)
        if want is None:
            return None
        if line.startswith("HARNESS-EXC"):
            return line
        m = re.fullmatch(r"handled (\d+) alive (\d) D (\d+)((?: -?\d+ -?\d+ \S+)*)( err \S+)?", line)
        if not m:
            return "unreadable outcome: %s" % line[-200:]
        if m.group(5):
            return "a service loop raised:%s" % m.group(5)
        closes = [i for i, a in enumerate(case["apps"]) if a.get("close")]
        handled = closes[0] + 1 if closes else case["n"]
        gone = self._client_gone.get(core.case_key(case))
        if gone and not (closes and closes[0] + 1 < case["n"]):
            return "Patron.serviceAll raised %s although no request was left to send on a closed connection" % gone
        t = m.group(4).split()
        got = [" ".join(t[i:i + 3]) for i in range(0, len(t), 3)]
        if int(m.group(1)) != handled:
            return "the server handed %s requests to the application, expected %d (nothing after the first request with " \
                   "Connection: close)" % (m.group(1), handled)
        if len(got) != handled:
            return "%d responses delivered, expected those of the first %d requests; delivered: %s" % (len(got), handled, got)
        for i in range(handled):
            if got[i] != want[i]:
                return "response %d is (request, tag, body) = %s, expected %s" % (i, got[i][:80], want[i][:80])
        if int(m.group(2)) != (0 if closes else 1):
            return "the server left the connection %s, expected %s" % ("open" if m.group(2) == "1" else "closed",
                                                                       "closed (Connection: close)" if closes else "open")
        return None

    def _judge(self, case, line, check_framing=True):
        want = self._expected(case)
        if want is None:
            return None
        if line.startswith("HARNESS-EXC"):
            return line
        m = re.search(r"\| final (\d) (\d) (\d+)((?: -?\d+ -?\d+ \S+)*) F((?: \S+)*)( err \S+)?$", line)
        if not m:
            return "unreadable outcome: %s" % line[-200:]
        if m.group(6):
            return "service loop raised:%s" % m.group(6)
        t = m.group(4).split()
        got = [" ".join(t[i:i + 3]) for i in range(0, len(t), 3)]
        n = case["n"]
        if len(got) != n:
            return "%d requests, %d responses delivered (client still waiting: %s)" % (n, len(got), m.group(1))
        for i, (g, w) in enumerate(zip(got, want)):
            if g != w:
                return "response %d is (request, tag, body) = %s, expected %s" % (i, g[:80], w[:80])
        if m.group(1) != "0" or m.group(2) != "0":
            return "client not idle / errored at the end: waited=%s errored=%s" % (m.group(1), m.group(2))
        if check_framing:
            fr = m.group(5).split()
            if len(fr) != n or any(f in ("U", "?") for f in fr):
                return "response heads on the wire are framed %s: every one must be delimited (L<n> or C)" % fr
        return None

    # ------------------------------------------------------------------ bookkeeping
    def nontrivial(self, case, out):
        if case.get("events"):
            return case["n"] >= 2 and bool(out) and " err " not in out[0] and out[0].startswith("handled") \
                and self._expected(case) is not None
        return case["n"] >= 2 and self._expected(case) is not None and re.search(r"final 0 0 %d " % case["n"], out[0]) is not None

    def bucket(self, case, out):
        if case.get("events"):
            ev = "".join("c" if a.get("close") else "-" for a in case["apps"])
            return "close:n%d:%s:%s" % (case["n"], ev, (out[0].split(" D ")[0] if out else "?"))
        kinds = "".join("H" if a.get("head") else "N" if a.get("status", 200) != 200 else "E" if not any(a["pieces"])
                        else ("L" if a["cl"] is not None else "S") for a in case["apps"])
        return "n%d:%s%s" % (case["n"], kinds if len(kinds) <= 3 else kinds[:3] + "+", ":split" if case.get("quota") else "")

    def shrink_candidates(self, case):
        n = case["n"]
        for i in range(n):
            if n > 1:
                c = json.loads(json.dumps(case))
                del c["apps"][i]
                c["n"] = n - 1
                yield c
        for i, a in enumerate(case["apps"]):
            for j in range(len(a["pieces"])):
                c = json.loads(json.dumps(case))
                del c["apps"][i]["pieces"][j]
                if c["apps"][i]["cl"] is not None:
                    c["apps"][i]["cl"] = min(c["apps"][i]["cl"], sum(len(hb(p)) for p in c["apps"][i]["pieces"]))
                yield c
        s = case["schedule"]
        if case.get("quota"):
            c = json.loads(json.dumps(case))
            del c["quota"]
            yield c
            for cutv in (1, 7, 30):
                c = json.loads(json.dumps(case))
                c["quota"] = [cutv if x >= 0 else x for x in case["quota"]]
                if c["quota"] != case["quota"]:
                    yield c
        if not re.fullmatch(r"(cs)+", s):
            c = json.loads(json.dumps(case))
            c["schedule"] = "cs" * (len(s) // 2 + 1)
            if c.get("quota"):
                c["quota"] = (c["quota"] + [-1] * len(c["schedule"]))[:len(c["schedule"])]
            yield c

    def extra_evidence(self):
        return {"loopback_repetition": dict(self._loop)}

    def search(self, rng, n, tier):
        cases = list(self.generate(rng, n, tier))
        if tier == "thorough" and self._loop["skipped"] is None:
            # extra evidence: the same histories over the kernel's TCP (oracle only; timing is not schedulable)
            try:
                for c in cases[:40]:
                    line = self._run(c, loopback=True)[0]
                    self._loop["run"] += 1
                    why = self._judge(c, line, check_framing=False)
                    if why is None:
                        self._loop["ok"] += 1
                    else:
                        self._loop.setdefault("failures", []).append(why[:200])
                self._loop["skipped"] = False
            except Exception as ex:
                self._loop["skipped"] = "loopback unavailable: %s" % str(ex)[:100]
        return cases
