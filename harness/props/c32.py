"""C32 — malformed HTTP input only affects its own connection.
Model: lean/IofloModel/Model/HttpLex.lean, HttpMsg.lean (parsers on arbitrary bytes, every exception a
       constructor), HttpValet.lean (connection table of Valet.serviceReqs/serviceReps/closeConnection,
       Patron.serviceResponse)
Theorems: lean/IofloModel/Props/C32.lean
Tie: three kinds of cases, all against the working tree:
     'parser'  a Requestant / Respondent fed damaged messages and random bytes (fields vs model, as in C29);
     'server'  a real serving.Valet with a WSGI app and several connections whose incomers are harness doubles:
               bytes are put into ix.rxbs, valet.serviceAll() is called; per connection closed / served / waiting
               and left-over buffer vs the Lean connection-table model;
     'client'  a real clienting.Patron awaiting one response, bytes put into connector.rxbs, serviceResponse().
Oracle (independent of the model): no exception leaves serviceAll / serviceResponse / parse(); the well-behaved
     connections get exactly the responses they get when the misbehaving connection is silent; the misbehaving
     connection is closed, answered or still waiting; the client has recorded a response (maybe errored) or waits."""
import collections, itertools, contextlib, io
import core
from props import c29, c33

hx, unhx = c29.hx, c29.unhx


class _Ix(object):
    """double of tcp.serving.Incomer: what Valet, Requestant and Responder touch"""
    def __init__(self, ca):
        self.ca = ca
        self.rxbs = bytearray()
        self.txes = collections.deque()
        self.sent = bytearray()
        self.cutoff = False
        self.timeout = 0.0
        self.timer = None
        self.closedFlag = False
        self.quota = -1          # bytes the socket accepts per serviceTxes(): -1 all, 0 the peer is not reading

    def tx(self, data):
        self.txes.append(bytes(data))

    def serviceTxes(self):
        room = self.quota
        while self.txes and room != 0:          # as tcp Incomer.serviceTxes: a partial send puts the rest back
            data = self.txes.popleft()
            n = len(data) if room < 0 else min(room, len(data))
            self.sent.extend(data[:n])
            if n < len(data):
                self.txes.appendleft(data[n:])
                break
            if room > 0:
                room -= n

    def shutclose(self):
        self.closedFlag = True
    close = shutclose


def _app_factory(served):
    def app(environ, start_response):
        served[environ["REMOTE_ADDR"]] += 1
        body = b"ok"
        start_response("200 OK", [("Content-Type", "text/plain"), ("Content-Length", str(len(body)))])
        return [body]
    return app


def run_server(maxline, ops):
    """ops: ["k", ca] | ["r", ca, hex] | ["s"].  -> (lines, extra) ; stops at the first exception"""
    from ioflo.aio.http import httping, serving
    old = httping.MAX_LINE_SIZE
    httping.MAX_LINE_SIZE = maxline
    try:
        served = collections.Counter()
        valet = serving.Valet(app=_app_factory(served), ha=("127.0.0.1", 8080), timeout=0.0)
        srv = valet.servant
        srv.serviceConnects = lambda: None
        srv.serviceReceivesAllIx = lambda: None
        srv.serviceTxesAllIx = lambda: [ix.serviceTxes() for ix in list(srv.ixes.values())]
        ixs, order = {}, []
        raised = None
        for op in ops:
            if raised:
                break
            try:
              with contextlib.redirect_stderr(io.StringIO()):     # the Valet writes parse errors to stderr
                if op[0] == "k":
                    if op[1] not in ixs:
                        ixs[op[1]] = srv.ixes[op[1]] = _Ix(op[1])
                        order.append(op[1])
                        valet.serviceConnects()
                elif op[0] == "r":
                    if op[1] in srv.ixes:
                        srv.ixes[op[1]].rxbs.extend(unhx(op[2]))
                elif op[0] == "q":
                    if op[1] in srv.ixes:
                        srv.ixes[op[1]].quota = op[2]
                else:
                    valet.serviceAll()
            except Exception as ex:
                raised = type(ex).__name__
        lines = ["raised=%s" % ("T" if raised else "F")]
        for ca in order:
            if ca not in valet.reqs:
                lines.append("%d closed" % ca)
            else:
                r = valet.reqs[ca]
                lines.append("%d served=%d parser=%s left=%s" % (ca, served[ca], "none" if r.parser is None else "live",
                                                                 hx(ixs[ca].rxbs)))
        sent = {ca: bytes(ixs[ca].sent) + b"".join(ixs[ca].txes) for ca in order}
        return lines, {"raised": raised, "sent": sent, "served": dict(served),
                       "open": [ca for ca in order if ca in valet.reqs or ca in srv.ixes]}
    finally:
        httping.MAX_LINE_SIZE = old


def run_porter(maxline, ops):
    """the non-WSGI server: ops ["k", ca] | ["r", ca, hex] | ["t"] (Porter.serviceAll)"""
    from ioflo.aio.http import httping, serving
    old = httping.MAX_LINE_SIZE
    httping.MAX_LINE_SIZE = maxline
    try:
        porter = serving.Porter(ha=("127.0.0.1", 8080), timeout=0.0)
        srv = porter.servant
        srv.serviceConnects = lambda: None
        srv.serviceReceivesAllIx = lambda: None
        srv.serviceTxesAllIx = lambda: [ix.serviceTxes() for ix in list(srv.ixes.values())]
        ixs, order = {}, []
        raised = None
        for op in ops:
            if raised:
                break
            try:
              with contextlib.redirect_stderr(io.StringIO()):
                if op[0] == "k":
                    if op[1] not in ixs:
                        ixs[op[1]] = srv.ixes[op[1]] = _Ix(op[1])
                        order.append(op[1])
                        porter.serviceConnects()
                elif op[0] == "r":
                    if op[1] in srv.ixes:
                        srv.ixes[op[1]].rxbs.extend(unhx(op[2]))
                else:
                    porter.serviceAll()
            except Exception as ex:
                raised = type(ex).__name__
        sent = {ca: bytes(ixs[ca].sent) + b"".join(ixs[ca].txes) for ca in order}
        lines = ["raised=%s" % ("T" if raised else "F")]
        for ca in order:
            if ca not in porter.stewards:
                lines.append("%d closed" % ca)
            else:
                r = porter.stewards[ca].requestant
                lines.append("%d served=%d parser=%s left=%s" % (ca, sent[ca].count(b"HTTP/1.1 200 OK\r\n"),
                                                                 "none" if r.parser is None else "live", hx(ixs[ca].rxbs)))
        return lines, {"raised": raised, "sent": sent}
    finally:
        httping.MAX_LINE_SIZE = old


class _Timer(object):
    expired = True

    def restart(self, duration=None):
        self.duration = duration


def run_client(method, maxline, ops, dictable=False, redirectable=False, reconnect=False):
    """ops: bytes (received, then serviceResponse) | "c" (cutoff)"""
    from ioflo.aio.http import httping, clienting
    old = httping.MAX_LINE_SIZE
    httping.MAX_LINE_SIZE = maxline
    try:
        patron = clienting.Patron(hostname="127.0.0.1", port=8080, method=method, path="/x",
                                  redirectable=redirectable, dictable=dictable)
        patron.connector.serviceReceives = lambda: None
        patron.transmit(method=method)      # (a bare transmit() resets respondent.method to GET: D34c, C34)
        raised = None
        for op in ops:
            if raised:
                break
            try:
                if op == "c":
                    patron.respondent.close()
                else:
                    patron.connector.rxbs.extend(op)
                patron.serviceResponse()
            except Exception as ex:
                raised = type(ex).__name__
        if reconnect and not raised:
            # the connection is cut off on a reconnectable Patron whose timeout has expired: serviceAll reopens and
            # re-arms the timer (with the event stream's retry); connector doubles: nothing connects
            con = patron.connector
            con.cutoff, con.reconnectable, con.timeout, con.timer = True, True, 1.0, _Timer()
            con.reopen = lambda: None
            con.serviceConnect = lambda: None
            con.serviceTxes = lambda: None
            try:
                patron.serviceAll()
            except Exception as ex:
                raised = type(ex).__name__
        flags = ["E" if r["errored"] else "ok" for r in patron.responses]
        return ["raised=%s waited=%s responses=%s left=%s" % ("T" if raised else "F", "T" if patron.waited else "F",
                                                             ",".join(flags), hx(patron.connector.rxbs))], raised
    finally:
        httping.MAX_LINE_SIZE = old


GOOD = [b"GET /b HTTP/1.1\r\nHost: b\r\n\r\n",
        b"POST /c HTTP/1.1\r\nContent-Length: 3\r\n\r\nabc",
        b"GET /d HTTP/1.0\r\n\r\n",
        b"PUT /e HTTP/1.1\r\nTransfer-Encoding: chunked\r\n\r\n2\r\nhi\r\n0\r\n\r\n",
        b"GET /f HTTP/1.1\r\nHost: f\r\n\r\nGET /g HTTP/1.1\r\nHost: f\r\n\r\n"]

BAD = [b"POST / HTTP/1.1\r\nTransfer-Encoding: chunked\r\n\r\nzz\r\n",
       b"POST / HTTP/1.1\r\nTransfer-Encoding: chunked\r\n\r\n\xff1\r\n",
       b"POST / HTTP/1.1\r\nTransfer-Encoding: chunked\r\n\r\n1\r\nabc\r\n",
       b"POST / HTTP/1.1\r\nTransfer-Encoding: chunked\r\n\r\n-3\r\nabcdef\r\n0\r\n\r\n",
       b"GET http://h:x/ HTTP/1.1\r\n\r\n", b"GET http://h:99999/ HTTP/1.1\r\n\r\n", b"GET http://[::1/ HTTP/1.1\r\n\r\n",
       b"GET / HTTP/1.1\r\nNoColonHere\r\n\r\n", b"FOO / HTTP/1.1\r\n\r\n", b"GET /\r\n\r\n", b"GET / HTTP/2.0\r\n\r\n",
       b"\r\n\r\n", b"GET / HTTP/1.1\r\nContent-Length: -5\r\n\r\n", b"GET / HTTP/1.1\r\nContent-Length: abc\r\n\r\nxyz",
       b"POST / HTTP/1.1\r\nTransfer-Encoding: chunked\r\n\r\n0x\r\n", b"\x00\x01\x02\xff\xfe", b"GET / HTTP/1.1\r\n" + b"X: y\r\n" * 101 + b"\r\n"]

BADRSP = [b"HTTP/1.1 200 OK\r\nTransfer-Encoding: chunked\r\n\r\nzz\r\n", b"HTTP/1.1 abc OK\r\n\r\n", b"HTTP/1.1 99 OK\r\n\r\n",
          b"FTP/1.1 200 OK\r\n\r\n", b"HTTP/3.0 200 OK\r\n\r\n", b"HTTP/1.1 200 OK\r\nNoColon\r\n\r\n", b"\r\n",
          b"HTTP/1.1 200 OK\r\nTransfer-Encoding: chunked\r\n\r\n1\r\nab\r\n0\r\n\r\n",
          b"HTTP/1.1 200 OK\r\nTransfer-Encoding: chunked\r\n\r\n\xe91\r\n", b"HTTP/1.1 100 Continue\r\n\r\nHTTP/1.1 abc\r\n\r\n"]


# ---- header-value family: every header the parsers interpret, with ordinary, odd and broken values.
# Small enough to be enumerated completely in every run (quick included), for Requestant and Respondent.
HV = {
    "Content-Type": ["text/plain", "application/json", "application/json; charset=utf-8", "text/plain; foo", "text/plain;",
                     "text/plain;;", "text;plain", "; charset=utf-8", ";", "text/plain; charset=", "text/plain; =",
                     "text/plain; =utf-8", "text/plain; a=b; c", "text/plain; a=b; c=d", "text/plain; charset=\"utf-8\"",
                     "multipart/form-data; boundary=\"a;b\"", "APPLICATION/JSON;Charset", "\xe9/\xe9; \xe9", "text/plain ; x = y ",
                     "=", "a=b", "text/event-stream", "text/event-stream; foo"] + [
                     # the charset parameter: codecs python knows, near misses, names only browsers know, codecs that are
                     # not text encodings, empty / quoted / non-ASCII / repeated values
                     "%s; charset=%s" % (mt, cs) for mt in ("text/plain", "application/json")
                     for cs in ("utf-8", "UTF8", "latin1", "iso-8859-1", "utf-16", "ascii", "utf-8x", "utf-9", "utf8 ", " utf-8",
                                "x-user-defined", "binary", "none", "undefined", "idna", "base64", "hex", "rot13", "zlib", "mbcs",
                                "unicode_internal", "'utf-8'", "\"\"", "\xe9", "utf-8; charset=bogus", "bogus; charset=utf-8",
                                "utf\x008", "a" * 300, "*", "../x", "%s")] + [
                     "text/plain;charset=nope", "text/plain; CHARSET=NOPE", "text/plain; charset = nope", "text/plain; charset",
                     "text/plain; xcharset=nope", "text/plain; charset=nope; q=1", "text/event-stream; charset=nope"],
    "Content-Length": ["3", "0", "abc", "-5", "+3", "1_0", "3.0", "0x3", "99999999999999999999", "9" * 4301, "3, 3", "1e3",
                       "\xb3", "3\xa0", "", "3 3", "03"],
    "Transfer-Encoding": ["chunked", "Chunked", "CHUNKED ", "gzip, chunked", "chunked, gzip", "identity", "", "chunked;q=1",
                          "chunked chunked", "\xe7hunked"],
    "Connection": ["close", "keep-alive", "Keep-Alive, Upgrade", "closed", "", "upgrade", "close, keep-alive", "CLOSE", ";"],
    "Keep-Alive": ["timeout=5", "", "x"],
    "Proxy-Connection": ["keep-alive", "close", ""],
    "Host": ["h", "h:80", "h:x", "h:99999", "[::1]:80", "", "h:80:90", "\xe9"],
}
TARGETS = ["/", "*", "http://h/", "http://h:80/", "http://h:x/", "http://h:-1/", "http://h:65536/", "http://h:/", "http://h:0080/",
           "//h:x", "//h:7/p", "http://u@h:9z/", "http://u:p@h:9/", "HTTP://H:1", "a:b", "/p:x", "http://h:1:2/", "http://h?:x"]


# ---- body family: what the layers above the parser do with a correctly framed body (json decoding in
# Parsent.dictify for json content types or a dictable Patron)
BODIES = [b"", b"{}", b"{\"a\": 1}", b"[1, 2", b"nul", b"\xff", b"{\"a\": \"\xe9\"}", b"\xe6\x97", b"\xef\xbb\xbf{}", b"\x00", b"{\"a\": \"\xc3\xa9\"}"]
BODY_CT = ["application/json", "application/json; charset=utf-8", "text/plain", None,
           "application/json; charset=latin1", "application/json; charset=utf-16", "application/json; charset=nope",
           "text/plain; charset=nope"]


def body_streams(kind):
    out = []
    for ct in BODY_CT:
        for b in BODIES:
            for framing in ("length", "chunked", "close"):
                if kind == "req" and framing == "close":
                    continue
                head = b"POST /x HTTP/1.1\r\n" if kind == "req" else b"HTTP/1.1 200 OK\r\n"
                if ct:
                    head += b"Content-Type: " + ct.encode() + b"\r\n"
                if framing == "length":
                    s = head + b"Content-Length: %d\r\n\r\n" % len(b) + b
                elif framing == "chunked":
                    s = head + b"Transfer-Encoding: chunked\r\n\r\n" + (b"%x\r\n" % len(b) + b + b"\r\n" if b else b"") + b"0\r\n\r\n"
                else:
                    s = head + b"\r\n" + b
                out.append(("body/%s/%s/%r" % (ct, framing, b[:8]), s, framing == "close"))
    return out


# ---- redirect family: 3xx responses whose Location is missing, empty, unusable or fine (same server)
LOCATIONS = [None, "", "/other", "other?x=1", "http://127.0.0.1:8080/y", "http://h:x/", "http://h:99999/", "http://h:-1/",
             "http://[::1/", "http://::1]/", "http://nonexistent.invalid/", "//", "http://", "?q", "#f", "\xe9", "http://h:80:90/"]


# families added with the fixes of three reported defects (replays/C32-D32c/d/e-unpatched.json):
#   D32c odd host names in Location, D32d deeply nested json bodies, D32e percent-encoded delimiters in request targets
ODD_HOSTS = ["http://a..b/", "http://.x/", "http://" + "a" * 70 + ".com/", "http://xn--/", "http://a%20b/", "http://-/",
             "http://a_b.c/", "http://\xe9.x/"]
DEEP = [b"[" * 3000, b"[" * 3000 + b"]" * 3000, b"{\"a\":" * 2000 + b"1" + b"}" * 2000]
ENC_TARGETS = ["//%5Bx/", "/%2F%2F%5Bx", "//h:%78/", "/a%3A//[x", "/%5B", "//%5D/", "/p%3Fq%23f", "//h%3A80/", "/%00", "/%",
               "//%5B::1%5D/", "/%2F%2Fh:x"]


def redirect_streams(locations=None):
    out = []
    for st in (301, 302, 303, 307):
        for loc in (LOCATIONS if locations is None else locations):
            head = ("HTTP/1.1 %d Moved\r\n" % st).encode()
            if loc is not None:
                head += b"Location: " + loc.encode("iso-8859-1") + b"\r\n"
            out.append(("redirect/%d/%r" % (st, loc), head + b"Content-Length: 0\r\n\r\n"))
    return out


def hv_streams(kind):
    """(label, stream) for every header value (and, for requests, every target) of the family"""
    out = []
    for ver in ("HTTP/1.1", "HTTP/1.0"):
        for name, values in HV.items():
            for v in values:
                body = b"abc" if name == "Content-Length" else b"1\r\na\r\n0\r\n\r\n" if name == "Transfer-Encoding" else b""
                head = ("POST /x %s" % ver) if kind == "req" else ("%s 200 OK" % ver)
                line = ("%s: %s" % (name, v)).encode("iso-8859-1")
                out.append(("%s/%s/%s" % (ver, name, v[:24]), head.encode() + b"\r\n" + line + b"\r\n\r\n" + body))
        if kind == "req":
            for t in TARGETS:
                out.append(("%s/target/%s" % (ver, t), ("GET %s %s\r\nHost: h\r\n\r\n" % (t, ver)).encode()))
    return out


# ---- requests behind queued responses: a keep-alive connection whose peer reads slowly or not at all (the responses to
# its earlier requests stay in ix.txes), with a malformed request at every position of its pipeline
KEEP = [b"GET /b HTTP/1.1\r\nHost: b\r\n\r\n", b"POST /c HTTP/1.1\r\nContent-Length: 3\r\n\r\nabc",
        b"PUT /e HTTP/1.1\r\nTransfer-Encoding: chunked\r\n\r\n2\r\nhi\r\n0\r\n\r\n"]
MALFORMED = [b"BOGUS\r\n", b"FOO / HTTP/1.1\r\n\r\n", b"GET / HTTP/2.0\r\n\r\n", b"GET / HTTP/1.1\r\nNoColonHere\r\n\r\n",
             b"POST / HTTP/1.1\r\nTransfer-Encoding: chunked\r\n\r\nzz\r\n", b"GET http://h:x/ HTTP/1.1\r\n\r\n"]
_ALONE = {}


def alone(msg):
    """what the request parser by itself (no server around it) makes of these bytes: 'ok' a complete keep-alive request
    and nothing left, 'error' a malformed one, 'other' anything else — the reference the server cases are judged by"""
    key = bytes(msg)
    if key not in _ALONE:
        from ioflo.aio.http import serving
        r = serving.Requestant(msg=bytearray(key), incomer=_Ix(0))
        res = "other"
        try:
            with contextlib.redirect_stderr(io.StringIO()):
                for _ in range(3):
                    if r.parser:
                        r.parse()
            if r.ended:
                res = "error" if r.errored else ("ok" if r.persisted and not r.msg else "other")
        except Exception:
            res = "other"
        _ALONE[key] = res
    return _ALONE[key]


def reference(stream):
    """the request parser by itself, re-armed after each request, over a whole pipeline: ('error', n) the (n+1)-th message is
    malformed, ('waiting', n) / ('closed', n) otherwise.  What a malformed message is can depend on the bytes behind it
    (a negative chunk size slices the buffer from its end), so the pipeline is judged as a whole"""
    from ioflo.aio.http import serving
    r = serving.Requestant(msg=bytearray(stream), incomer=_Ix(0))
    n = 0
    try:
        with contextlib.redirect_stderr(io.StringIO()):
            for _ in range(64):
                r.parse()
                if not r.ended:
                    return ("waiting", n)
                if r.errored:
                    return ("error", n)
                n += 1
                if not r.persisted:
                    return ("closed", n)
                r.makeParser()
    except Exception:
        pass
    return ("other", n)


# ---- retry values of an event stream (the client turns the retry into a timer duration when it reconnects)
RETRIES = [b"1" + b"0" * 400, b"-1" + b"0" * 400, b"9" * 309, str(2 ** 1024 - 2 ** 970).encode(), str(2 ** 1024 - 2 ** 970 - 1).encode(),
           b"inf", b"-inf", b"Infinity", b"nan", b"1e999", b"1E400", b"1e3", b"3000.0", b"0x10", b"1_000", b" 12 ", b"+5", b"-5", b"0",
           b"9" * 4300, b"9" * 4301, b"", b"1 0", b"\xd9\xa1"]


class CHECK(core.Check):
    PROPERTY = "C32"
    LEAN_MODULES = ["IofloModel.Props.C32"]
    ENGINE = "httpmsg"
    N_QUICK = 1200
    N_THOROUGH = 40000
    N_SEARCH = 2500
    RULE = ("'server' cases: a Valet with 2-4 connections; one connection receives a damaged request (byte-level "
            "mutations of generated valid requests: replaced / deleted / inserted / duplicated bytes, plus a table of "
            "hand-made malformed requests: bad / non-ASCII / negative chunk sizes, chunk end garbage, bad ports, "
            "bracket hosts, header without colon, bad method / version / length, > 100 headers, binary junk) in 1-3 "
            "receives, the others complete valid requests (keep-alive, HTTP/1.0, chunked, two pipelined); receives and "
            "serviceAll() calls interleaved at random; 'client' cases: a Patron awaiting a response gets damaged "
            "responses in 1-4 receives, sometimes a cutoff; 'parser' cases: Requestant/Respondent fed the same damaged "
            "streams with lowered MAX_LINE_SIZE and close(); exhaustive: every hand-made malformed message, whole and "
            "under every single cut, against two good connections; non-trivial = a case in which a parser ended with "
            "an error or a connection was closed; also in every tier, completely: the header-value family (every "
            "interpreted header with ordinary / odd / broken values, Content-Type parameters with known, unknown, "
            "near-miss, non-text and malformed charset names), the body family (json / non-json / non-UTF-8 bodies "
            "under each Content-Type incl. charset variants, every framing), event-stream responses; generated: "
            "one-byte mutations of family values; also complete in every tier: a malformed request at every position "
            "of a keep-alive pipeline (0-2 good requests before, 0-1 after) on a connection whose peer reads everything / "
            "nothing / 7 bytes per pass, so that earlier responses are still queued when it is parsed, pipelined or "
            "request by request, with and without the peer resuming (generated: up to 4 before, 2 after, random quotas "
            "and cuts, any malformed request the bare parser rejects) — judged by: the connection is closed, exactly "
            "the requests before the malformed one are served and answered, neighbours undisturbed (Valet.serviceReqs "
            "on unchanged code closes in the pass that parses the malformed request, whatever is queued; queued bytes "
            "are dropped); retry values of an event stream (odd, float-like, too big for a duration) incl. a "
            "reconnect of a cut-off reconnectable Patron; distinct by the whole case")
    TRUSTED = ["correspondence: real serving.Valet (WSGI app answering 'ok' with Content-Length) whose incomers are "
               "harness doubles (rxbs, tx, txes, serviceTxes, shutclose) and whose servant's socket methods "
               "(serviceConnects, serviceReceivesAllIx, serviceTxesAllIx) are replaced; real clienting.Patron whose "
               "connector.serviceReceives is replaced; real Requestant/Respondent — vs the Lean models (driver engine "
               "'httpmsg': requests req/rsp, valet, client)",
               "the WSGI application, Responder output and real sockets are not modelled; CPython primitives as in C29",
               "the tree checked is /repo with fixes D19, D16, D29a, D29b, D18, D29c (committed); D32b-porter-errored-request, "
               "D32a-patron-bad-redirect (committed; defect replays on the old tree: replays/C32-D32a-unpatched.json, "
               "replays/C32-D32b-unpatched.json); D32c, D32d, D32e (committed; families: odd host names in "
               "Location, json nested beyond the recursion limit, percent-encoded delimiters in request targets; replays on "
               "the old tree: replays/C32-D32c/d/e-unpatched.json)"]
    PARTIAL = ["text/event-stream responses ARE in the model now (Respondent's event source = Model/Sse.lean, body shared with "
               "it, events / retry / leid compared); still explicitly outside ('unmodelled'): a retry field with non-ASCII "
               "text inside an event stream, and request targets with bracketed / non-ASCII netloc — the oracle still "
               "checks them on the real code",
               "C32_serviceReqs_isolated / C32_porter_isolated are about the model of the connection tables (one association "
               "list for reqs / reps / ixes, application answering at once); timeouts, cutoff detection, TLS and the redirect "
               "logic (C34) are not modelled; redirect cases are judged by the oracle only",
               "sequences of responses on one reused Respondent around an event-stream response are a complete family of the "
               "check (added with the fix of reported defect D32f, replay replays/C32-D32f-unpatched.json); the "
               "theorems speak of one parse() call from any safe state, which covers them",
               "retry values that float() cannot represent are ignored by the event source (fix of reported defect D32g, replay "
               "replays/C32-D32g-unpatched.json) and are part of the retry family; byte quotas other than all / nothing "
               "and the reconnect step are judged by the oracle only"]
    TECHNIQUE = ("Lean 4 theorems (safety invariant 'nothing escaped parse()' kept by every step of the parser state "
                 "machine on arbitrary bytes; fold over the connection table equals a per-connection map) + "
                 "differential correspondence against the real Valet / Patron with socket doubles")
    LEVEL_TEXT = ("Full proof on the model of the repaired tree: for every sequence of receives of arbitrary bytes, closes "
                  "and restarts, a Requestant / Respondent never lets an exception out of parse() — it has a message, "
                  "waits, or is marked failed (C32_parse_total, C32_parse_total_from); Valet.serviceReqs over any "
                  "table of such connections does not raise and what becomes of each connection is a function of that "
                  "connection's own state only (C32_serviceReqs_isolated, C32_reqStep_other_untouched, "
                  "C32_connect_recv_safe, C32_empty_safe), likewise Porter.serviceStewards (C32_porter_isolated); serviceAll (requests, responders, transmit) never raises for any "
                  "sequence of connects, receives on any connection and service calls (C32_server_never_raises); "
                  "Patron.serviceResponse does not raise and records the "
                  "response (C32_client_no_raise). On the model of the unrepaired parseMessage a bad chunk size raises "
                  "out of parse() and out of serviceReqs before the next connection is serviced "
                  "(C32_unrepaired_counterexample, C32_unrepaired_server_counterexample).")
    LEVEL_NOTE = ("Trusted: Lean kernel; axioms propext, Classical.choice, Quot.sound; the transcription of the parsers "
                  "and of Valet.serviceReqs/serviceReps/Patron.serviceResponse validated by the correspondence runs with "
                  "socket doubles; WSGI app, Responder, sockets, timeouts not modelled. Holds for the tree with the fix "
                  "patches D19, D16, D29a, D29b, D18.")

    # ------------------------------------------------------------------ cases
    def __init__(self):
        self.p29 = c29.CHECK()
        self._impl_out = {}
        self.unmodelled = 0

    def extra_evidence(self):
        return {"outside_model_cases_checked_by_oracle_only": self.unmodelled}

    # ---- event-stream responses: in the model since the Respondent's event source is Model/Sse.lean
    SSE_BODIES = [b"data: a\n\n", b"id: 1\ndata: one\r\ndata: two\r\n\r\nretry: 7\rdata: x\n\n", b"retry: 0\nid\ndata: q\n\n",
                  b"data: \xff\n\n", b"\xff\xfe: x\n", b"data: ok\n\nd\xe9: y\n\ndata: later\n\n", b"data: unterminated",
                  b"data: " + b"x" * 80 + b"\n\n", b"", b"\n\n\n", b":comment\n\n"]

    def _sse_stream(self, rng, body=None, framing=None):
        if body is None:
            body = rng.choice(self.SSE_BODIES) if rng.random() < 0.5 else c33.CHECK()._wellformed(rng)[0]
        framing = framing or rng.choice(["chunked", "chunked", "close", "length"])
        if framing == "length":
            return c33.HTTP_HEAD + b"Content-Length: %d\r\n\r\n" % len(body) + body, False
        cc = sorted(rng.sample(range(len(body) + 1), min(len(body) + 1, rng.choice([0, 1, 2, 4])))) if framing == "chunked" else []
        return c33.http_wrap(body, framing, cc)[0], framing == "close"

    def _sse_cases(self, rng, body=None, framing=None, maxline=65536):
        stream, close = self._sse_stream(rng, body, framing)
        k = rng.choice([0, 1, 2, 3])
        cuts = sorted(rng.sample(range(len(stream) + 1), min(k, len(stream) + 1)))
        yield {"type": "parser", "kind": "rsp", "method": "GET", "max": maxline, "stream": hx(stream), "rest": "-",
               "cuts": cuts, "close": close, "next": False, "hv": "sse"}
        ops = ["f" + hx(p) for p in c29.pieces_of(stream, cuts)] + (["c"] if close else [])
        yield {"type": "client", "method": "GET", "max": maxline, "ops": ops, "hv": "sse"}

    # sequences of responses on one reused Respondent around an event-stream response (family added with the fix of
    # a reported defect, replay replays/C32-D32f-unpatched.json: .evented is decided per response)
    SEQ2 = [b"HTTP/1.1 200 OK\r\n\r\nd:\xff\n",        # read until close: nothing is left in the buffer when it fails
            b"HTTP/1.1 200 OK\r\nTransfer-Encoding: chunked\r\n\r\n4\r\nd:\xff\n\r\n0\r\n\r\n",
            b"HTTP/1.1 200 OK\r\nTransfer-Encoding: chunked\r\n\r\n8\r\ndata:y\n\n\r\n0\r\n\r\n",
            b"HTTP/1.1 200 OK\r\nContent-Type: text/plain\r\nContent-Length: 2\r\n\r\nhi",
            b"HTTP/1.1 200 OK\r\nContent-Type: text/event-stream\r\nTransfer-Encoding: chunked\r\n\r\n4\r\nd:\xff\n\r\n0\r\n\r\n"]
    SEQ3 = [b"HTTP/1.1 200 OK\r\nTransfer-Encoding: chunked\r\n\r\n2\r\nhi\r\n0\r\n\r\n",
            b"HTTP/1.0 200 OK\r\n\r\nbody"]

    def _sse_sequence(self, i, j):
        """an event-stream response, then responses without / with another Content-Type on the same (reused) parser"""
        m1 = c33.http_wrap(b"data: x\n\n", "chunked", [3])[0]
        ops = ["f" + hx(m1), "m", "f" + hx(self.SEQ2[i]), "m", "f" + hx(self.SEQ3[j])] + (["c", "p"] if j == 1 else [])
        return {"type": "parser", "kind": "rsp", "method": "GET", "max": 65536, "history": ops, "h2": len(ops), "stream": "-",
                "rest": "-", "cuts": [], "close": False, "next": False, "hv": "sse-sequence"}

    def _porter_case(self, rng, bad):
        c = self._server_case(rng, bad=bad, cut=None)
        c["type"] = "porter"
        c["ops"] = [["t"] if o == ["s"] else o for o in c["ops"]]
        return c

    def _damaged(self, rng, kind):
        if rng.random() < 0.35:
            return rng.choice(BAD if kind == "req" else BADRSP)
        for _ in range(20):
            c = self.p29._mutated(rng)
            if c["kind"] == kind:
                return unhx(c["stream"])
        return rng.choice(BAD if kind == "req" else BADRSP)

    def _server_case(self, rng, bad=None, cut=None, maxline=65536):
        n = rng.choice([2, 3, 3, 4])
        cas = list(range(1, n + 1))
        victim = rng.choice(cas)
        if bad is None:
            bad = self._damaged(rng, "req")
            while self.p29._outside("req", bad):
                bad = self._damaged(rng, "req")
        streams = {}
        for ca in cas:
            streams[ca] = bad if ca == victim else rng.choice(GOOD)
        ops = [["k", ca] for ca in cas]
        pieces = []
        for ca in cas:
            s = streams[ca]
            if ca == victim and cut is not None:
                cs = [cut]
            else:
                cs = sorted(rng.sample(range(len(s) + 1), min(len(s) + 1, rng.choice([0, 0, 1, 2]))))
            ps = c29.pieces_of(s, cs)
            pieces.append([["r", ca, hx(p)] for p in ps])
        # interleave keeping each connection's own order
        idx = [0] * len(pieces)
        while any(i < len(p) for i, p in zip(idx, pieces)):
            j = rng.choice([k for k in range(len(pieces)) if idx[k] < len(pieces[k])])
            ops.append(pieces[j][idx[j]])
            idx[j] += 1
            if rng.random() < 0.5:
                ops.append(["s"])
        ops += [["s"]] * 4
        return {"type": "server", "max": maxline, "victim": victim, "ops": ops}

    def _queued_case(self, rng, npre, bad, npost, quota, stepwise, release, cuts=0):
        """connection `victim` sends npre good keep-alive requests, the malformed one, npost good ones; its peer accepts
        `quota` bytes per transmit pass (0: is not reading, -1: everything), so earlier responses are still queued when
        the malformed request is parsed; neighbours behave; expectation from the code of Valet.serviceReqs: the
        connection is closed in the pass that parses the malformed request whatever is queued, and nothing behind it
        is served"""
        n = rng.choice([2, 3])
        cas = list(range(1, n + 1))
        victim = rng.choice(cas)
        msgs = [rng.choice(KEEP) for _ in range(npre)] + [bad] + [rng.choice(KEEP) for _ in range(npost)]
        if reference(b"".join(msgs)) != ("error", npre):      # (malformed only by itself, not with these bytes behind it)
            bad = rng.choice(MALFORMED)
            msgs[npre] = bad
            assert reference(b"".join(msgs)) == ("error", npre)
        ops = [["k", ca] for ca in cas]
        if quota != -1:
            ops.append(["q", victim, quota])
        for ca in cas:
            if ca != victim:
                ops.append(["r", ca, hx(rng.choice(GOOD))])
        if stepwise:
            for m in msgs:
                ops.append(["r", victim, hx(m)])
                ops += [["s"]] * rng.choice([1, 2])
        else:
            stream = b"".join(msgs)
            cs = sorted(rng.sample(range(len(stream) + 1), min(len(stream) + 1, cuts)))
            for piece in c29.pieces_of(stream, cs):
                ops.append(["r", victim, hx(piece)])
                if cuts and rng.random() < 0.5:
                    ops.append(["s"])
        ops += [["s"]] * (len(msgs) + 3)
        if release:
            ops += [["q", victim, -1], ["s"], ["s"]]
        c = {"type": "server", "max": 65536, "victim": victim, "ops": ops, "expect": {"served": npre},
             "hv": "queued/%d/%r/%d/q%d%s%s" % (npre, bad[:12], npost, quota, "/step" if stepwise else "", "/release" if release else "")}
        if quota > 0:
            c["oracle_only"] = True       # the model knows a peer that reads everything or nothing; byte quotas: oracle only
        return c

    def _retry_cases(self, rng):
        for v in RETRIES:
            body = b"retry: " + v + b"\ndata: x\n\n"
            for framing in ("chunked", "close"):
                for c in self._sse_cases(rng, body=body, framing=framing):
                    c["hv"] = "retry/%r" % v[:16]
                    yield c
                stream, close = self._sse_stream(rng, body, framing)
                yield {"type": "client", "method": "GET", "max": 65536, "ops": ["f" + hx(stream)], "reconnect": True,
                       "oracle_only": True, "hv": "retry-reconnect/%s/%r" % (framing, v[:16])}

    def _client_case(self, rng, bad=None, cut=None):
        method = rng.choice(["GET", "GET", "POST", "HEAD"])
        if bad is None:
            bad = self._damaged(rng, "rsp")
            while self.p29._outside("rsp", bad):
                bad = self._damaged(rng, "rsp")
        cs = [cut] if cut is not None else sorted(rng.sample(range(len(bad) + 1), min(len(bad) + 1, rng.choice([0, 1, 2, 3]))))
        ops = ["f" + hx(p) for p in c29.pieces_of(bad, cs)]
        for _ in range(rng.choice([0, 0, 1, 2])):          # serviceResponse passes with nothing received
            ops.insert(rng.randrange(len(ops) + 1), "f-")
        r = rng.random()
        if r < 0.3:
            ops.append("c")
        elif r < 0.4:                                       # cut off in the middle, the rest never arrives or arrives late
            ops.insert(rng.randrange(len(ops) + 1), "c")
        return {"type": "client", "method": method, "max": 65536, "ops": ops}

    def exhaustive(self, tier):
        import random
        rng = random.Random(3232)
        for bad in BAD:
            cuts = range(1, len(bad)) if (tier == "thorough" and len(bad) < 120) else [None]
            for cut in [None] + list(cuts if tier == "thorough" else []):
                yield self._server_case(rng, bad=bad, cut=cut)
        for bad in BADRSP:
            cuts = range(1, len(bad)) if tier == "thorough" else []
            for cut in [None] + list(cuts):
                yield self._client_case(rng, bad=bad, cut=cut)
        # the header-value family, complete in every tier: each value on one connection of a Valet with
        # well-behaved neighbours, as a response to a Patron, and through the bare parsers
        for label, stream in hv_streams("req"):
            c = self._server_case(rng, bad=stream, cut=None)
            c["hv"] = label
            yield c
            yield {"type": "parser", "kind": "req", "method": "GET", "max": 65536, "stream": hx(stream), "rest": "-",
                   "cuts": [len(stream) // 2], "close": False, "next": False, "hv": label}
        for label, stream in hv_streams("rsp"):
            for method in ("GET", "HEAD"):
                yield {"type": "client", "method": method, "max": 65536, "ops": ["f" + hx(stream), "c"], "hv": label}
            yield {"type": "parser", "kind": "rsp", "method": "GET", "max": 65536, "stream": hx(stream), "rest": "-",
                   "cuts": [len(stream) // 2], "close": True, "next": False, "hv": label}
        # the body family: correctly framed messages whose body is / is not json, is / is not UTF-8
        for label, stream, close in body_streams("rsp"):
            for dictable in (False, True):
                yield {"type": "client", "method": "GET", "max": 65536, "ops": ["f" + hx(stream)] + (["c"] if close else []),
                       "dictable": dictable, "hv": label}
        for label, stream, close in body_streams("req"):
            c = self._server_case(rng, bad=stream, cut=None)
            c["hv"] = label
            yield c
        if True:         # the non-WSGI server: every malformed request, header value and body on one of its connections
            for bad in BAD:
                yield self._porter_case(rng, bad)
            for label, stream in hv_streams("req"):
                c = self._porter_case(rng, stream)
                c["hv"] = label
                yield c
            for label, stream, close in body_streams("req"):
                c = self._porter_case(rng, stream)
                c["hv"] = label
                yield c
        for body in self.SSE_BODIES:      # event-stream responses, sound and damaged, every framing, also a short line limit
            for framing in ("chunked", "close", "length"):
                for mx in (65536, 32):
                    for c in self._sse_cases(rng, body=body, framing=framing, maxline=mx):
                        yield c
        for i in range(len(self.SEQ2)):
            for j in range(len(self.SEQ3)):
                yield self._sse_sequence(i, j)
        for c in self._retry_cases(rng):      # retry values: odd, float-like, too big for a duration; also a reconnect
            yield c
        for npre in (0, 1, 2):                # a malformed request behind queued responses, every position, both servers' peer
            for bad in MALFORMED:
                for npost in (0, 1):
                    for quota in (-1, 0, 7):
                        for stepwise in (False, True):
                            for release in (False, True):
                                yield self._queued_case(rng, npre, bad, npost, quota, stepwise, release)
        if True:         # odd host names in Location
            for label, stream in redirect_streams(ODD_HOSTS):
                yield {"type": "client", "method": "GET", "max": 65536, "redirectable": True, "oracle_only": True, "hv": label,
                       "ops": ["f" + hx(stream), "f-"]}
        if True:         # json nested deeper than the interpreter's recursion limit, to every json consumer
            for deep in DEEP:
                for ct in (b"Content-Type: application/json\r\n", b""):
                    tail = ct + b"Content-Length: %d\r\n\r\n" % len(deep) + deep
                    for dictable in (False, True):
                        yield {"type": "client", "method": "GET", "max": 65536, "dictable": dictable, "hv": "deep-json",
                               "ops": ["f" + hx(b"HTTP/1.1 200 OK\r\n" + tail)]}
                    for mk in (self._server_case, self._porter_case):
                        c = mk(rng, b"POST /x HTTP/1.1\r\n" + tail) if mk == self._porter_case else mk(rng, bad=b"POST /x HTTP/1.1\r\n" + tail)
                        c["hv"] = "deep-json"
                        yield c
        if True:         # percent-encoded delimiters in the request target, to both servers
            for t in ENC_TARGETS:
                stream = ("GET %s HTTP/1.1\r\nHost: h\r\n\r\n" % t).encode()
                for mk in (self._server_case, self._porter_case):
                    c = mk(rng, stream) if mk == self._porter_case else mk(rng, bad=stream)
                    c["hv"] = "target/" + t
                    yield c
        if True:         # redirect responses to a redirectable Patron; a followed redirect is answered by a 200
            for label, stream in redirect_streams():
                yield {"type": "client", "method": "GET", "max": 65536, "redirectable": True, "oracle_only": True, "hv": label,
                       "ops": ["f" + hx(stream), "f-", "f" + hx(b"HTTP/1.1 200 OK\r\nContent-Length: 2\r\n\r\nok")]}

    def _hv_mutant(self, rng):
        """a value of the header-value family with one byte replaced, inserted or deleted, to one of the four consumers"""
        kind = rng.choice(["req", "rsp"])
        name = rng.choice(sorted(HV))
        v = bytearray(rng.choice(HV[name]).encode("iso-8859-1"))
        pos = rng.randrange(len(v) + 1)
        how = rng.random()
        byte = rng.choice(b"x9 ;=,\"-_\xe9\x00\t:/") if rng.random() < 0.7 else rng.randrange(256)
        if byte in (10, 13):
            byte = 32
        if how < 0.4 and pos < len(v):
            v[pos] = byte
        elif how < 0.75:
            v.insert(pos, byte)
        elif pos < len(v):
            del v[pos]
        ver = rng.choice(["HTTP/1.1", "HTTP/1.1", "HTTP/1.0"])
        body = b"abc" if name == "Content-Length" else b"1\r\na\r\n0\r\n\r\n" if name == "Transfer-Encoding" else b""
        head = ("POST /x %s" % ver) if kind == "req" else ("%s 200 OK" % ver)
        stream = head.encode() + b"\r\n" + name.encode() + b": " + bytes(v) + b"\r\n\r\n" + body
        label = "mut/%s/%s/%r" % (ver, name, bytes(v)[:24])
        if kind == "req":
            c = self._server_case(rng, bad=stream, cut=None) if rng.random() < 0.6 else self._porter_case(rng, stream)
        elif rng.random() < 0.7:
            c = {"type": "client", "method": rng.choice(["GET", "GET", "HEAD"]), "max": 65536,
                 "ops": ["f" + hx(stream)] + (["c"] if rng.random() < 0.7 else [])}
        else:
            c = {"type": "parser", "kind": "rsp", "method": "GET", "max": 65536, "stream": hx(stream), "rest": "-",
                 "cuts": [rng.randrange(len(stream))], "close": True, "next": False}
        c["hv"] = label
        return c

    def generate(self, rng, n, tier):
        for i in range(n):
            r = rng.random()
            if r < 0.04:
                bad = rng.choice(MALFORMED + BAD) if rng.random() < 0.6 else self._damaged(rng, "req")
                if alone(bad) != "error":
                    bad = rng.choice(MALFORMED)
                yield self._queued_case(rng, rng.choice([0, 1, 1, 2, 3, 4]), bad, rng.choice([0, 1, 2]),
                                        rng.choice([-1, 0, 0, 0, 1, 5, 64, 1000]), rng.random() < 0.4, rng.random() < 0.5,
                                        cuts=rng.choice([0, 0, 1, 3]))
            elif r < 0.07:
                yield self._hv_mutant(rng)
            elif r < 0.11:
                for c in self._sse_cases(rng, maxline=rng.choice([65536, 65536, 24])):
                    yield c
            elif r < 0.18:
                bad = self._damaged(rng, "req")
                while self.p29._outside("req", bad):
                    bad = self._damaged(rng, "req")
                yield self._porter_case(rng, bad)
            elif r < 0.45:
                yield self._server_case(rng, maxline=rng.choice([65536, 65536, 65536, 64]))
            elif r < 0.7:
                yield self._client_case(rng)
            else:
                c = self.p29._mutated(rng)
                c["type"] = "parser"
                yield c

    def search(self, rng, n, tier):
        return self.generate(rng, n, tier)

    # ------------------------------------------------------------------ both sides
    def impl(self, case):
        if case["type"] == "server":
            out = run_server(case["max"], case["ops"])[0]
        elif case["type"] == "porter":
            out = run_porter(case["max"], case["ops"])[0]
        elif case["type"] == "client":
            ops = ["c" if o == "c" else unhx(o[1:]) for o in case["ops"]]
            out = run_client(case["method"], case["max"], ops, case.get("dictable", False), case.get("redirectable", False),
                             case.get("reconnect", False))[0]
        else:
            out = self.p29.impl(case)
        self._impl_out[core.case_key(case)] = out
        return out

    def requests(self, case):
        if case["type"] in ("server", "porter"):
            ops = ["k%d" % o[1] if o[0] == "k" else "r%d:%s" % (o[1], o[2]) if o[0] == "r" else
                   ("z%d" if o[2] == 0 else "u%d") % o[1] if o[0] == "q" else o[0] for o in case["ops"]]
            return ["valet %d 1 %s" % (case["max"], " ".join(ops))]
        if case["type"] == "client":
            return ["client %s %d 1 %s" % (case["method"], case["max"], " ".join(case["ops"]))]
        return self.p29.requests(case)

    def model_post(self, case, replies):
        if case.get("oracle_only"):
            # redirects are the subject of C34's model; here only the oracle judges (no exception, response recorded)
            self.unmodelled += 1
            return self._impl_out.get(core.case_key(case), ["oracle-only"])
        if "unmodelled" in replies[0]:
            # the model declares the input outside its domain (bracketed / non-ASCII netloc, event stream):
            # no comparison; the oracle still judges the real code on it; counted in the evidence
            self.unmodelled += 1
            return self._impl_out.get(core.case_key(case), ["unmodelled"])
        return replies[0].split(" | ")

    # ------------------------------------------------------------------ property
    def oracle(self, case, out):
        if out and out[0].startswith("HARNESS-EXC"):
            return "adapter raised: " + out[0]
        if case["type"] in ("server", "porter"):
            runner = run_server if case["type"] == "server" else run_porter
            lines, extra = runner(case["max"], case["ops"])
            if extra["raised"]:
                return "exception %s left %s.serviceAll()" % (extra["raised"], "Valet" if case["type"] == "server" else "Porter")
            v = case["victim"]
            vstream = b"".join(unhx(o[2]) for o in case["ops"] if o[0] == "r" and o[1] == v)
            last = max([i for i, o in enumerate(case["ops"]) if o[0] == "r" and o[1] == v] or [len(case["ops"])])
            passes = sum(1 for o in case["ops"][last:] if o[0] == "s")
            if "expect" in case and reference(vstream) == ("error", case["expect"]["served"]) and passes >= case["expect"]["served"] + 2:
                # reference: the parser by itself says which of the victim's messages are sound and which is malformed
                # (recomputed from the case, so that a shrunk case is still judged by what it contains)
                want = case["expect"]["served"]
                if v in extra["open"]:
                    return "connection %d still open after its malformed request" % v
                if extra["served"].get(v, 0) != want:
                    return "connection %d: %d requests served, %d precede the malformed one" % (v, extra["served"].get(v, 0), want)
                if extra["sent"][v].count(b"HTTP/1.1 200") != want:
                    return "connection %d: %d responses produced, %d requests precede the malformed one" % (
                        v, extra["sent"][v].count(b"HTTP/1.1 200"), want)
            quiet = [o for o in case["ops"] if not (o[0] == "r" and o[1] == v)]
            blines, bextra = runner(case["max"], quiet)
            for ca, sent in extra["sent"].items():
                if ca == v:
                    continue
                want = bextra["sent"].get(ca)
                if _strip_date(sent) != _strip_date(want):
                    return "connection %d disturbed by connection %d: sent %r, alone %r" % (ca, v, sent[:80], (want or b"")[:80])
            for l, b in zip(lines[1:], blines[1:]):
                if int(l.split()[0]) != v and l != b:
                    return "connection state disturbed: %r vs %r when connection %d is silent" % (l, b, v)
            return None
        if case["type"] == "client":
            ops = ["c" if o == "c" else unhx(o[1:]) for o in case["ops"]]
            lines, raised = run_client(case["method"], case["max"], ops, case.get("dictable", False),
                                       case.get("redirectable", False), case.get("reconnect", False))
            if raised:
                return "exception %s left Patron.serviceResponse()" % raised
            if case.get("redirectable") and "responses= " in lines[0] and "waited=F" in lines[0]:
                return "redirect neither followed nor delivered: %s" % lines[0]
            return None
        if "escaped=~" not in out[0] and "unmodelled" not in out[0]:
            return "exception left parse(): %s" % out[0]
        return None

    def nontrivial(self, case, out):
        if case["type"] in ("server", "porter"):
            return any(l.endswith("closed") for l in out)
        if case["type"] == "client":
            return "E" in out[0].split("responses=")[-1].split()[0]
        return "errored=T" in out[0]

    def bucket(self, case, out):
        if case["type"] in ("server", "porter"):
            v = case["victim"]
            st = [l for l in out[1:] if l.startswith("%d " % v)]
            s = st[0].split()[1].split("=")[0] if st else "?"
            if st and "served" in st[0]:
                s = "answered" if "served=0" not in st[0] else "waiting"
            return "%s/%s/%s" % (case["type"], out[0], s)
        if case["type"] == "client":
            f = out[0].split()
            return "client/%s/%s/%s" % (f[0], f[1], "errored" if "E" in f[2] else "ok" if "ok" in f[2] else "none")
        return "parser/" + out[0].replace("state ", "")

    def shrink_candidates(self, case):
        if case["type"] in ("server", "porter"):
            ops = case["ops"]
            for i in range(len(ops)):
                if ops[i][0] != "k":
                    c = dict(case); c["ops"] = ops[:i] + ops[i + 1:]
                    yield c
            for i, o in enumerate(ops):
                if o[0] == "r" and o[1] == case["victim"]:
                    b = unhx(o[2])
                    for j in range(len(b)):
                        c = dict(case); c["ops"] = ops[:i] + [["r", o[1], hx(b[:j] + b[j + 1:])]] + ops[i + 1:]
                        yield c
        elif case["type"] == "client":
            ops = case["ops"]
            for i in range(len(ops)):
                c = dict(case); c["ops"] = ops[:i] + ops[i + 1:]
                yield c
        else:
            for c in self.p29.shrink_candidates(case):
                c["type"] = "parser"
                yield c


def _strip_date(b):
    import re
    return None if b is None else re.sub(rb"date: [^\r]*\r\n", b"", b, flags=re.I)
