"""C33 — server-sent events parse the same for any split and line ending.
Model: lean/IofloModel/Model/Sse.lean (parseLine with eols CRLF/LF/CR as repaired by
       fixes/D19-parseline-earliest-eol.patch, EventSource.parseEvents/parse/close)
Theorems: lean/IofloModel/Props/C33.lean
Tie: an EventSource of the working tree is fed the pieces of a byte stream (raw.extend + parse());
     events, leid, retry and the coarse parser status are compared with the Lean model.
Oracle (independent of the model): the same real EventSource fed (a) the whole stream at once and
     (b) the stream re-rendered with LF for every line end that the SSE grammar (CRLF | LF | CR)
     sees in it, must give the same events / leid / retry; generated streams also carry the
     events they were rendered from."""
import re, itertools
import core

EOLS = [b"\r", b"\n", b"\r\n"]
EOL_RE = re.compile(rb"\r\n|\n|\r")


def hx(b):
    return bytes(b).hex() if b else "-"


def unhx(s):
    return b"" if s == "-" else bytes.fromhex(s)


def ohx(s):
    return "~" if s is None else hx(s.encode("utf-8"))


def pieces_of(stream, cuts):
    out, a = [], 0
    for c in list(cuts) + [len(stream)]:
        out.append(stream[a:c])
        a = c
    return out


def run_impl(maxline, ops):
    """ops: list of bytes (a receive) or None (close). Canonical lines."""
    from ioflo.aio.http import httping
    old = httping.MAX_LINE_SIZE
    httping.MAX_LINE_SIZE = maxline
    try:
        es = httping.EventSource()
        status = "running"
        for op in ops:
            if op is None:
                es.close()
                continue
            es.raw.extend(op)
            try:
                es.parse()
            except StopIteration:
                if status == "running":
                    status = "dead:StopIteration"
            except Exception as ex:
                if status == "running":
                    status = "dead:" + type(ex).__name__
        if status == "running" and es.parser is None:
            status = "finished"
        out = ["leid=%s retry=%s status=%s" % (ohx(es.leid), "~" if es.retry is None else "%d" % es.retry, status)]
        for e in es.events:
            out.append("ev %s %s %s" % (ohx(e["id"]), ohx(e["name"]), ohx(e["data"])))
        return out
    finally:
        httping.MAX_LINE_SIZE = old


TEXTS = ["x", "hello world", "a:b", " lead", "  two", "", "é", "日本", "{\"k\": 1}", "tab\there", "end ", ":", "😀",
         "data", "id", "0"]


HTTP_HEAD = b"HTTP/1.1 200 OK\r\nContent-Type: text/event-stream\r\n"


def http_wrap(body, framing, chunk_cuts):
    """-> (http stream, list of body increments the Respondent hands to the EventSource when it gets the
    whole stream at once, offset of the body in the stream)"""
    if framing == "chunked":
        chunks = [c for c in pieces_of(body, chunk_cuts) if c]
        wire = b"".join(b"%x\r\n" % len(c) + c + b"\r\n" for c in chunks) + b"0\r\n\r\n"
        return HTTP_HEAD + b"Transfer-Encoding: chunked\r\n\r\n" + wire, chunks
    return HTTP_HEAD + b"\r\n" + body, None


def lift(lines):
    """events / leid / retry as the Respondent shows them: `.retry` starts at Respondent.Retry = 100 and follows the
    EventSource once that has a retry; `.leid` follows the EventSource's last event id"""
    return [lines[0].replace("retry=~", "retry=100")] + list(lines[1:]) if lines else lines


def run_http(maxline, stream, cuts, framing, entry="respondent", close_with_last=False):
    """events of a text/event-stream response received in pieces through the real client code.
    entry "respondent": msg.extend + Respondent.parse() per piece (close() + parse() at the end when the body is
    delimited by the close).  entry "patron": Patron.serviceAll() per pass, the pieces arrive through
    connector.serviceReceives(); `close_with_last`: the pass that receives the last piece also detects the server's close
    (connector.cutoff), else the close is noticed one pass later."""
    from ioflo.aio.http import httping, clienting
    old = httping.MAX_LINE_SIZE
    httping.MAX_LINE_SIZE = maxline
    try:
        status = "running"
        pieces = list(pieces_of(stream, cuts))
        if entry == "patron":
            patron = clienting.Patron(hostname="127.0.0.1", port=8080, method="GET", path="/stream", redirectable=False)
            con = patron.connector
            queue = list(pieces)

            def receives():
                if queue:
                    con.rxbs.extend(queue.pop(0))
                    if not queue and close_with_last:
                        con.cutoff = True
            con.serviceReceives = receives
            con.serviceTxes = lambda: None
            con.serviceConnect = lambda: None
            con.connected = True
            con.reconnectable = False
            patron.transmit(method="GET")
            r = patron.respondent
            for n in range(len(pieces) + 3):
                if n == len(pieces) and framing == "close":
                    con.cutoff = True                  # the close is noticed (at the latest) one pass after the last bytes
                try:
                    patron.serviceAll()
                except Exception as ex:
                    if status == "running":
                        status = "dead:" + type(ex).__name__
        else:
            msg = bytearray()
            r = clienting.Respondent(msg=msg, method="GET")
            for op in pieces + ([None] if framing == "close" else []):
                if op is None:
                    r.close()
                else:
                    msg.extend(op)
                try:
                    r.parse()
                except Exception as ex:
                    if status == "running":
                        status = "dead:" + type(ex).__name__
        if r.errored and status == "running":
            status = "errored"
        es = r.eventSource
        if es is None:
            return ["no-event-source status=%s" % status]
        out = ["leid=%s retry=%s status=%s" % (ohx(r.leid), "~" if r.retry is None else "%d" % r.retry, status)]
        for e in r.events:
            out.append("ev %s %s %s" % (ohx(e["id"]), ohx(e["name"]), ohx(e["data"])))
        return out
    finally:
        httping.MAX_LINE_SIZE = old


def gen_event(rng):
    """abstract event -> (lines, id or None, name or None, datas, retry or None)"""
    lines, eid, name, datas, retry = [], None, None, [], None
    n = rng.choice([1, 1, 1, 2, 3])
    fields = ["data"] * n
    if rng.random() < 0.4:
        fields.append("id")
    if rng.random() < 0.4:
        fields.append("event")
    if rng.random() < 0.25:
        fields.append("retry")
    if rng.random() < 0.3:
        fields.append("comment")
    if rng.random() < 0.2:
        fields.append("unknown")
    rng.shuffle(fields)
    for f in fields:
        sp = rng.choice([": ", ":", ": "])
        if f == "data":
            t = rng.choice(TEXTS)
            if t == "" and rng.random() < 0.5:
                lines.append(b"data")        # field without colon: empty value
            else:
                if sp == ":" and t.startswith(" "):
                    sp = ": "                # a value starting with a space needs the optional space
                lines.append(b"data" + sp.encode() + t.encode("utf-8"))
            datas.append(t)
        elif f == "id":
            t = rng.choice(["1", "42", "abc", "", "é7"])
            lines.append(b"id" + sp.encode() + t.encode("utf-8"))
            eid = t
        elif f == "event":
            t = rng.choice(["msg", "update", "x y", ""])
            lines.append(b"event" + sp.encode() + t.encode("utf-8"))
            name = t
        elif f == "retry":
            t = rng.choice(["1000", "5", "0", "3_0", " 7", "+8", "x", "", "1.5", "-2"])
            lines.append(b"retry" + sp.encode() + t.encode())
            try:
                retry = int(t)
            except ValueError:
                pass
        elif f == "comment":
            lines.append(b":" + rng.choice([b"", b" keep-alive", b"data: no", b"\xff\xfe"]))
        else:
            lines.append(rng.choice([b"foo: bar", b"dat: x", b"Data: x", b"datax", b" data: x", b"event x"]))
    return lines, eid, name, datas, retry


def render(rng, lines, mode):
    """join lines with eols; never a CR-terminated line followed by an empty LF-terminated line
    (that byte pair IS a CRLF by the grammar)"""
    out = bytearray()
    prev = None
    for i, l in enumerate(lines):
        e = EOLS[mode] if mode < 3 else rng.choice(EOLS)
        if prev == b"\r" and l == b"" and e == b"\n":
            e = rng.choice([b"\r", b"\r\n"])
        out += l + e
        prev = e
    return bytes(out)


def gen_cuts(rng, n, k=None):
    if k is None:
        k = rng.choice([0, 1, 1, 2, 2, 3, 5, 8])
    k = min(k, n + 1)
    cuts = sorted(rng.sample(range(n + 1), k))
    if cuts and rng.random() < 0.35:      # repeat some cuts: an empty piece is a parse() pass with no new bytes
        cuts = sorted(cuts + [rng.choice(cuts) for _ in range(rng.choice([1, 1, 2]))])
    return cuts


class CHECK(core.Check):
    PROPERTY = "C33"
    LEAN_MODULES = ["IofloModel.Props.C33"]
    ENGINE = "sse"
    N_QUICK = 1500
    N_THOROUGH = 150000
    N_SEARCH = 4000
    RULE = ("event streams rendered from abstract events (data lines incl. empty / unicode / leading space / "
            "field without colon, id, event, retry incl. non-numeric, comments, unknown fields) with CR, LF, CRLF or "
            "mixed line ends, cut at random positions; malformed streams (random bytes over an SSE-flavoured "
            "alphabet, invalid UTF-8, lines longer than a lowered MAX_LINE_SIZE, close() in the middle); "
            "exhaustive: token sequences over {data:x, data, id:1, event:e, retry:5, :c, CR, LF, CRLF} of length "
            "<= 3 (quick) / <= 4 (thorough) under every single cut, and fixed short streams under every split "
            "into <= 3 pieces; non-trivial = at least one event dispatched and (>= 2 pieces or >= 2 kinds of line end); "
            "cuts may repeat (an empty piece = a parse() pass with no new bytes); 15% of the cases and a fixed exhaustive set "
            "carry the stream as a text/event-stream HTTP response (chunked with random chunk boundaries, or read until "
            "close) through a real clienting.Respondent under random / every single cut and idle passes; "
            "distinct by (stream, cuts)")
    TRUSTED = ["correspondence: httping.EventSource of the working tree (raw.extend + parse per piece) vs the Lean "
               "model (driver engine 'sse'): events, leid, retry, coarse parser status",
               "event-stream HTTP responses: the events a real clienting.Respondent delivers vs the Lean SSE model fed the "
               "body increments the Respondent hands to its EventSource (per data chunk / per receive); the HTTP framing "
               "itself is C29's model, the two Lean models are not composed",
               "CPython bytes.find / bytearray slicing, UTF-8 decoder and int(str); json decoding (dictable=True) "
               "is outside the model",
               "MAX_LINE_SIZE is lowered by assignment to the module global for the long-line cases",
               "the tree checked is /repo with fixes/D19-parseline-earliest-eol.patch applied (on the unpatched "
               "parseLine the property is false: replay in the report)"]
    PARTIAL = ["int(value) of a retry field whose text contains a non-ASCII character is outside the model "
               "(explicit outcome 'unmodelled'; generators do not produce it)",
               "C33_eol_independent is stated for line-end choices in which no CR-terminated line is directly "
               "followed by an empty LF-terminated line (that byte pair is a CRLF by the SSE grammar) and for lines "
               "no longer than MAX_LINE_SIZE"]
    TECHNIQUE = ("Lean 4 theorems (streaming invariance of the resumable parser by induction on the buffer; "
                 "line-end independence by induction on the line list) + differential correspondence")
    LEVEL_TEXT = ("Full proof on the model of the repaired parser: for every parser state and all byte strings a, b, "
                  "feeding a then b gives the same events/ids/retry/status as feeding a++b, and the same complete state "
                  "while the parser is alive (C33_split_independent; any number of pieces: C33_pieces_independent[_init]); "
                  "for every list of CR/LF-free lines and every readable choice of CR/LF/CRLF per line one receive hands "
                  "exactly these lines to the per-line step (C33_eol_independent), hence the same events, last id and "
                  "retry for every rendering and every split (C33_any_rendering_any_split, C33_same_events); the events "
                  "of a stream written as blocks of field lines are those the SSE field rules prescribe — last id, last "
                  "event name, data lines joined by LF, retry — for every rendering and split (C33_block_dispatch, "
                  "C33_blocks_events, C33_content_any_rendering_any_split); the structural line search used in the model "
                  "equals the code's raw.find-based search for every buffer (C33_scan_is_find); a parse() pass without new bytes "
                  "changes nothing (C33_idle_pass). On the model of the unrepaired parseLine "
                  "both invariances fail (C33_unrepaired_split_counterexample, C33_unrepaired_eol_counterexample).")
    LEVEL_NOTE = ("Trusted: Lean kernel; axioms propext, Classical.choice, Quot.sound; the hand transcription of "
                  "parseLine/parseEvents validated by the correspondence runs; CPython's find, UTF-8 decoder, int(); "
                  "json mode not modelled. Holds for the tree with fixes/D19-parseline-earliest-eol.patch.")

    # ---------------------------------------------------------------- cases
    def _mk(self, stream, cuts, maxline=65536, close=None, expect=None, origin=None):
        c = {"max": maxline, "stream": hx(stream), "cuts": list(cuts)}
        if close is not None:
            c["close"] = close
        if expect is not None:
            c["expect"] = expect
        if origin:
            c["origin"] = origin
        return c

    def exhaustive(self, tier):
        toks = [b"data:x", b"data", b"id:1", b"event:e", b"retry:5", b":c", b"\r", b"\n", b"\r\n"]
        L = 4 if tier == "thorough" else 3
        for n in range(1, L + 1):
            for t in itertools.product(toks, repeat=n):
                if not any(x in EOLS for x in t):
                    continue
                s = b"".join(t)
                # single cuts: all of them for short token strings, else those next to a CR/LF
                for c in range(1, len(s)):
                    if n <= 3 or s[c - 1:c] in (b"\r", b"\n") or s[c:c + 1] in (b"\r", b"\n"):
                        yield self._mk(s, [c])
                yield self._mk(s, [])
        fixed = [b"data: one\r\ndata: two\r\n\r\n", b"data: a\r\n\r\n", b"data:a\rdata:b\n\nid:1\r\n", b"id: 7\rdata: x\r\r", b"data\ndata\r\n\r",
                 b"retry: 10\r\n\ndata: y\n\r\n", b": c\r\rdata: z\r\n\r\n"]
        if tier == "thorough":
            fixed += [b"event: e\rdata: 1\ndata: 2\r\n\r\nid\rdata: q\r\r\n", b"data:\xe6\x97\xa5\r\n\rdata:x\n\n"]
        for s in fixed:
            for i in range(len(s) + 1):
                for j in range(i, len(s) + 1):
                    yield self._mk(s, [i, j])
        # the same events carried by a real HTTP response (chunked / until close) through clienting.Respondent:
        # every single cut of the HTTP stream, an idle pass at every cut, and everything in one receive
        bodies = [(b"id: 1\ndata: one\r\ndata: two\r\n\r\nretry: 7\rdata: x\n\n",
                   {"events": [["1", "", "one\ntwo"], ["1", "", "x"]]}),
                  # retry 0 after a retry, an empty id after an id (the last-event-id is reset), then an id again
                  (b"retry: 5\nid: a\ndata: p\n\nretry: 0\nid\ndata: q\n\nid: b\ndata: r\n\nid:\n\n",
                   {"events": [["a", "", "p"], ["", "", "q"], ["b", "", "r"]]})]
        for body, exp in bodies:
            for framing, ccs in (("chunked", [[5, 17, 30]] + ([[1, 2, 3, 40], []] if tier == "thorough" else [])), ("close", [[]])):
                for cc in ccs:
                    stream, _ = http_wrap(body, framing, cc)
                    for entry, cwl in (("respondent", False), ("patron", False), ("patron", True)):
                        yield self._http_case(None, body=body, expect=exp, framing=framing, cuts=[], chunk_cuts=cc,
                                              entry=entry, cwl=cwl)
                        for k in range(1, len(stream)):
                            if tier != "thorough" and entry == "patron" and k % 2:
                                continue
                            yield self._http_case(None, body=body, expect=exp, framing=framing, cuts=[k], chunk_cuts=cc,
                                                  entry=entry, cwl=cwl)
                            if tier == "thorough" or k % 3 == 0:
                                yield self._http_case(None, body=body, expect=exp, framing=framing, cuts=[k, k],
                                                      chunk_cuts=cc, entry=entry, cwl=cwl)

    def _wellformed(self, rng):
        nev = rng.choice([1, 1, 2, 3, 5])
        lines, expect = [], []
        leid, retry = None, None
        for _ in range(nev):
            ls, eid, name, datas, rt = gen_event(rng)
            lines += ls
            if eid is not None:
                leid = eid
            if rt is not None:
                retry = rt
            data = "\n".join(datas)
            for _ in range(rng.choice([1, 1, 1, 2])):
                lines.append(b"")
            if data:
                expect.append([leid, name or "", data])
        if rng.random() < 0.3:                      # unterminated tail: must not dispatch
            lines.append(rng.choice([b"data: pending", b"id: 9", b""]))
            stream = render(rng, lines[:-1], rng.choice([0, 1, 2, 3, 3, 3])) + lines[-1]
        else:
            stream = render(rng, lines, rng.choice([0, 1, 2, 3, 3, 3]))
        return stream, {"events": expect}

    def _malformed(self, rng):
        alpha = [b"\r", b"\n", b"\r\n", b":", b" ", b"data", b"id", b"event", b"retry", b"x", b"7", b"\xff", b"\xc3\xa9",
                 b"\xe6\x97", b"data: v", b"\n\n", b"\r\r"]
        s = b"".join(rng.choice(alpha) for _ in range(rng.randrange(1, 30)))
        return s

    def _retry_ok(self, stream):
        """model domain: no retry field with a non-ASCII value"""
        for l in EOL_RE.split(stream):
            f, sep, v = l.partition(b":")
            if f == b"retry" and any(b >= 128 for b in v):
                return False
        return True

    def _http_case(self, rng, body=None, expect=None, framing=None, cuts=None, chunk_cuts=None, entry=None, cwl=None):
        if body is None:
            body, expect = self._wellformed(rng)
            while EOL_RE.split(body)[-1] != b"":      # a complete stream: the response ends after it
                body, expect = self._wellformed(rng)
        framing = framing or rng.choice(["chunked", "chunked", "close"])
        if chunk_cuts is None:
            chunk_cuts = gen_cuts(rng, len(body), rng.choice([0, 1, 2, 3, 5])) if framing == "chunked" else []
        stream, _ = http_wrap(body, framing, chunk_cuts)
        if cuts is None:
            cuts = gen_cuts(rng, len(stream))
        if entry is None:
            entry = rng.choice(["respondent", "patron", "patron"])
        if cwl is None:
            cwl = entry == "patron" and rng.random() < 0.5
        c = {"type": "http", "max": 65536, "stream": hx(body), "framing": framing, "chunk_cuts": list(chunk_cuts),
             "cuts": list(cuts), "entry": entry, "close_with_last": bool(cwl)}
        if expect is not None:
            c["expect"] = expect
        return c

    def generate(self, rng, n, tier):
        for i in range(n):
            kind = rng.random()
            if kind < 0.15:
                yield self._http_case(rng)
                continue
            kind = (kind - 0.15) / 0.85
            if kind < 0.6:
                stream, expect = self._wellformed(rng)
                yield self._mk(stream, gen_cuts(rng, len(stream)), expect=expect)
            elif kind < 0.8:
                s = self._malformed(rng)
                if not self._retry_ok(s):
                    s = s.replace(b"retry", b"retri")
                yield self._mk(s, gen_cuts(rng, len(s)))
            elif kind < 0.9:
                stream, expect = self._wellformed(rng)
                m = rng.choice([4, 8, 12, 16, 24])
                yield self._mk(stream, gen_cuts(rng, len(stream)), maxline=m)
            else:
                stream, expect = self._wellformed(rng)
                cuts = gen_cuts(rng, len(stream), rng.choice([1, 2, 3]))
                yield self._mk(stream, cuts, close=rng.randrange(len(cuts) + 1))

    def search(self, rng, n, tier):
        # boundary-heavy: cuts next to CR / LF bytes, mixed line ends
        for i in range(n):
            stream, expect = self._wellformed(rng)
            pos = [k for k in range(1, len(stream)) if stream[k - 1:k] in b"\r\n" or stream[k:k + 1] in b"\r\n"]
            cuts = sorted(set(rng.sample(pos, min(len(pos), rng.choice([1, 2, 3])))))
            if cuts and rng.random() < 0.5:
                cuts = sorted(cuts + [rng.choice(cuts)])
            yield self._mk(stream, cuts, expect=expect)

    # ---------------------------------------------------------------- both sides
    def _ops(self, case):
        stream = unhx(case["stream"])
        ps = pieces_of(stream, case["cuts"])
        ops = []
        for i, p in enumerate(ps):
            if case.get("close") == i:
                ops.append(None)
            ops.append(p)
        return ops

    def _http_increments(self, case):
        """what the Respondent hands to its EventSource, call by call"""
        body = unhx(case["stream"])
        stream, chunks = http_wrap(body, case["framing"], case["chunk_cuts"])
        if case["framing"] == "chunked":
            return stream, chunks                     # one parse() of the EventSource per data chunk
        off = len(stream) - len(body)
        incs, a = [], 0
        for c in list(case["cuts"]) + [len(stream)]:
            incs.append(stream[max(a, off):max(c, off)])
            a = c
        return stream, incs                           # one per receive: the new body bytes

    def requests(self, case):
        if case.get("type") == "http":
            stream, incs = self._http_increments(case)
            return ["sse %d %s" % (case["max"], " ".join("f" + hx(i) for i in incs) or "f-")]
        ops = ["c" if o is None else "f" + hx(o) for o in self._ops(case)]
        return ["sse %d %s" % (case["max"], " ".join(ops))]

    def model_post(self, case, replies):
        if case.get("type") == "http":
            return lift(replies[0].split(" | "))     # the Respondent's view of the model's leid / retry
        return replies[0].split(" | ")

    def impl(self, case):
        if case.get("type") == "http":
            stream, _ = self._http_increments(case)
            return run_http(case["max"], stream, case["cuts"], case["framing"], case.get("entry", "respondent"),
                            case.get("close_with_last", False))
        return run_impl(case["max"], self._ops(case))

    # ---------------------------------------------------------------- property
    def oracle(self, case, out):
        if case.get("type") == "http":
            body = unhx(case["stream"])
            direct = lift(run_impl(case["max"], [body]))     # a bare EventSource given the body at once
            if out != direct:
                return ("events of the event-stream response (%s, chunks at %r, receives cut at %r) %r differ from the "
                        "events of its body %r" % (case["framing"], case["chunk_cuts"], case["cuts"], out[:4], direct[:4]))
            exp = case.get("expect")
            if exp is not None:
                want = ["ev %s %s %s" % (ohx(i), ohx(nm), ohx(d)) for i, nm, d in exp["events"]]
                if out[1:] != want:
                    return "events differ from the content: got %r want %r" % (out[1:4], want[:3])
            return None
        if case.get("close") is not None:
            return None                              # the property speaks about receives only
        if out and out[0].startswith("HARNESS-EXC"):
            return "adapter raised: " + out[0]
        stream = unhx(case["stream"])
        whole = run_impl(case["max"], [stream])
        if out != whole:
            return "split-dependent: pieces %r give %r, whole stream gives %r" % (case["cuts"], out[:4], whole[:4])
        parts = EOL_RE.split(stream)
        tail = parts.pop()
        canon = b"".join(l + b"\n" for l in parts) + tail
        ref = run_impl(case["max"], [canon])
        if out != ref:
            return "line-end-dependent: stream gives %r, same lines with LF give %r" % (out[:4], ref[:4])
        exp = case.get("expect")
        if exp is not None and case["max"] >= 65536:
            want = ["ev %s %s %s" % (ohx(i), ohx(nm), ohx(d)) for i, nm, d in exp["events"]]
            if out[1:] != want:
                return "events differ from the content the stream was rendered from: got %r want %r" % (out[1:4], want[:3])
        return None

    def nontrivial(self, case, out):
        if case.get("type") == "http":
            return len(out) > 1
        stream = unhx(case["stream"])
        kinds = set(EOL_RE.findall(stream))
        return len(out) > 1 and (len(case["cuts"]) >= 1 or len(kinds) >= 2)

    def bucket(self, case, out):
        if case.get("type") == "http":
            return "http-%s-%s%s/chunks%d/pieces%d/%s" % (case.get("entry", "respondent"), case["framing"],
                                                     "-closewithlast" if case.get("close_with_last") else "",
                                                     min(len(case["chunk_cuts"]) + 1, 4),
                                                     min(len(case["cuts"]) + 1, 4), out[0].split("status=")[-1])
        stream = unhx(case["stream"])
        kinds = set(EOL_RE.findall(stream))
        k = "eol-mixed" if len(kinds) > 1 else "eol-" + {b"\r": "cr", b"\n": "lf", b"\r\n": "crlf"}.get(next(iter(kinds), None), "none")
        st = out[0].split("status=")[-1] if out else "?"
        cr_cut = any(0 < c < len(stream) and stream[c - 1:c] == b"\r" and stream[c:c + 1] == b"\n" for c in case["cuts"])
        return "%s/pieces%s/%s%s%s" % (k, min(len(case["cuts"]) + 1, 4), st, "/cut-in-crlf" if cr_cut else "",
                                       "/close" if case.get("close") is not None else "")

    def shrink_candidates(self, case):
        if case.get("type") == "http":
            for key in ("cuts", "chunk_cuts"):
                for i in range(len(case[key])):
                    c = dict(case); c[key] = case[key][:i] + case[key][i + 1:]
                    yield c
            return
        stream = unhx(case["stream"])
        cuts = case["cuts"]
        base = {k: v for k, v in case.items() if k not in ("expect", "origin")}
        for i in range(len(cuts)):
            c = {k: v for k, v in case.items() if k != "origin"}      # same stream: `expect` stays valid
            c["cuts"] = cuts[:i] + cuts[i + 1:]
            yield c
        # drop a whole line, then single bytes
        spans, a = [], 0
        for m in EOL_RE.finditer(stream):
            spans.append((a, m.end())); a = m.end()
        spans += [(i, i + 1) for i in range(len(stream))]
        for a, b in spans:
            s = stream[:a] + stream[b:]
            c = dict(base); c["stream"] = hx(s)
            c["cuts"] = sorted(set(x if x <= a else max(a, x - (b - a)) for x in cuts))
            yield c
