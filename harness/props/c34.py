"""C34 — HTTP redirects are followed safely to the final response.

Model:    lean/IofloModel/Model/Redirect.lean  (Patron.serviceResponse / redirect / transmit, Requester.build,
          normalizeHostPort, updateQargsQuery; urllib.parse and DNS are parameters)
Theorems: lean/IofloModel/Props/C34.lean
Tie:      the REAL Patron (ioflo/aio/http/clienting.py of $IOFLO_REPO) is driven over socket-pair doubles
          against scripted stub servers; what the doubles observe (connections closed/opened, requests that
          reach which endpoint, responses delivered, exceptions) is compared, service round by service round,
          with the effects the Lean model computes for the same history.  The results of the urllib.parse
          calls and DNS lookups that the implementation made are recorded and given to the model as its
          `Std` parameter (table lookup; a call the model makes that the code did not make is `std-miss`).
Oracle:   independent of the model: RFC 3986 §5.2 reference resolution written here + the clauses of the
          property (one request per redirect, to the resolved location, on the right endpoint, reconnect
          iff endpoint/scheme differ, never https→http, one final response carrying the chain in order; what a host receives on a connection
          begins with a request line — also when the redirect arrives while part of the redirected request is still
          queued in the connector; a redirect whose Location is
          missing, empty, malformed or unresolvable is not followed and not raised but delivered as the final
          response, flagged errored, with nothing sent for it and the connection kept).
"""
import json, re, socket
from urllib.parse import unquote_to_bytes, parse_qsl, quote as _q, quote_plus as _qp
import core
from props import httpb_doubles as D

REDIRECT = (300, 301, 302, 303, 307)
SAME = "\0same-authority"    # sentinel authority of the outstanding request in the oracle's base URL
UNRESERVED = "ABCDEFGHIJKLMNOPQRSTUVWXYZabcdefghijklmnopqrstuvwxyz0123456789-._~"


def hx(s):
    b = s.encode("utf-8") if isinstance(s, str) else bytes(s)
    return b.hex() if b else "-"


# --------------------------------------------------------------------------- RFC 3986 reference (oracle only)

def rfc_split(ref):
    """RFC 3986 appendix B: (scheme|None, authority|None, path, query|None, fragment|None)"""
    m = re.match(r"^(([^:/?#]+):)?(//([^/?#]*))?([^?#]*)(\?([^#]*))?(#(.*))?$", ref, re.S)
    return m.group(2), m.group(4), m.group(5), m.group(7), m.group(9)


def decode_unreserved(path):
    def f(m):
        c = chr(int(m.group(1), 16))
        return c if c in UNRESERVED else m.group(0).upper()
    return re.sub(r"%([0-9A-Fa-f]{2})", f, path)


def remove_dot_segments(path):
    inp, out = path, []
    while inp:
        if inp.startswith("../"):
            inp = inp[3:]
        elif inp.startswith("./"):
            inp = inp[2:]
        elif inp.startswith("/./"):
            inp = inp[2:]
        elif inp == "/.":
            inp = "/"
        elif inp.startswith("/../"):
            inp = inp[3:]
            if out:
                out.pop()
        elif inp == "/..":
            inp = "/"
            if out:
                out.pop()
        elif inp in (".", ".."):
            inp = ""
        else:
            i = inp.find("/", 1)
            if i < 0:
                out.append(inp)
                inp = ""
            else:
                out.append(inp[:i])
                inp = inp[i:]
    return "".join(out)


def rfc_resolve(base, ref):
    """base = (scheme, authority, path, query); returns (scheme, authority, path, query) per RFC 3986 5.2.2"""
    bs, ba, bp, bq = base
    s, a, p, q, _f = rfc_split(ref)
    p = decode_unreserved(p)
    if s is not None:
        return s.lower(), a, remove_dot_segments(p), q
    if a is not None:
        return bs, a, remove_dot_segments(p), q
    if p == "":
        return bs, ba, bp, (q if q is not None else bq)
    if p.startswith("/"):
        return bs, ba, remove_dot_segments(p), q
    merged = ("/" + p) if (ba is not None and bp == "") else (bp[:bp.rfind("/") + 1] + p)
    return bs, ba, remove_dot_segments(merged), q


def authority_host_port(auth):
    """(host lower-cased without brackets, port text or None) of an authority, userinfo dropped"""
    hp = auth.rpartition("@")[2]
    if hp.startswith("["):
        host, _, rest = hp[1:].partition("]")
        port = rest[1:] if rest.startswith(":") else None
    else:
        host, sep, port = hp.partition(":")
        port = port if sep else None
    return host.lower(), (port if port else None)


# --------------------------------------------------------------------------- the check

class CHECK(core.Check):
    PROPERTY = "C34"
    LEAN_MODULES = ["IofloModel.Props.C34"]
    ENGINE = "redirect"
    N_QUICK = 500
    N_THOROUGH = 12000
    N_SEARCH = 1500
    RULE = ("histories for one Patron — constructed in every documented way: hostname/port with or without scheme, a "
            "full URL as path, a caller-supplied plain or TLS connector (scheme given or not), store given or not — "
            "over socket-pair doubles (the client's socket may take only the head and 0..n-1 body bytes of an upload, the "
            "server then answering the head early): 1-3 top-level requests (GET/HEAD/POST/PUT/DELETE, "
            "unicode paths, query args, bodies, some queued while waiting), each answered by a chain of 0-5 redirect "
            "responses (300/301/302/303/307; Location absolute with/without port/path/query/fragment/userinfo, "
            "upper-case scheme/host, network-path, absolute-path, relative-path with ./ and ../, query-only; "
            "http<->https, other hosts, DNS aliases of the same address, IPv4 literals; redirect responses "
            "with bodies of 0-300 bytes, fixed-length or chunked, delivered in pieces, compared in `redirects`) and a final response; ~15% malformed stream (no/empty Location, bad port, unbalanced "
            "bracket, authority without host, unknown host — all of which must be delivered errored —, ftp scheme, encoded delimiters, '//' paths, bare/duplicate query keys, 305/306/308, "
            "not redirectable). Non-trivial = at least one redirect was followed and a final response delivered; "
            "distinct by case content")
    TRUSTED = ["correspondence: the real Patron/Requester/Respondent of $IOFLO_REPO run in-process over socket.socketpair "
               "doubles (tcp Client subclass: only open/accept replaced; DNS double for aioing.normalizeHost; 'TLS' is a "
               "flag, no cryptography; the client socket double can refuse bytes beyond a cap with EAGAIN, the real "
               "Client.send/serviceTxes queue the remainder) against scripted stub servers; effects per service round compared with the Lean model",
               "urllib.parse (urlsplit, urljoin, unquote, quote, quote_plus, unquote_plus) and DNS enter the model as the "
               "parameter `Std`; the driver instantiates it with the results recorded from the implementation's own calls",
               "oracle: RFC 3986 section 5.2 reference resolution + unquote_to_bytes/parse_qsl of CPython for target equivalence",
               "the model describes redirect()/serviceResponse() as repaired by fixes/D34a, D34b, D34c, D34d, D32a and D34f; "
               "before D32a a missing/malformed/unresolvable Location left serviceAll as AttributeError/ValueError/gaierror "
               "with the 3xx stuck in .redirects and the Patron waiting for ever"]
    PARTIAL = ["C34_relative_location_resolved_partial: that a relative Location is requested from the same scheme, host, "
               "port and connection is proved given the answers of urljoin/urlsplit for it (hypotheses; CPython gives them "
               "because the base url is built from exactly that scheme, host and port)",
               "C34_target_resolved_partial: the exact request target (quote(path)?query) is proved under three laws of "
               "urllib.parse stated as hypotheses; that CPython's unquote/urljoin/urlsplit map the Location text to that "
               "path and query is outside Lean: false on the region lossyLocation (known finding D34e, "
               "C34_target_counterexample), exercised by the correspondence runs elsewhere",
               "not modelled: request headers other than Host (a user supplied Host header is assumed absent), json/form "
               "bodies (C30), byte-level response parsing (the real Respondent is exercised; the model keeps only 'how many "
               "body bytes are awaited'), evented (SSE) responses, real TLS handshakes, IPv6 literals, IDNA host names, "
               "responses that arrive while no request is outstanding"]
    TECHNIQUE = ("Lean 4 theorems over a message-level state machine (invariants by induction over histories; case analysis "
                 "of redirect() with urllib.parse as a parameter) + differential correspondence against the real client over "
                 "socket-pair doubles with the recorded standard-library results as the model's parameter")
    LEVEL_TEXT = ("Proved on the model, for all histories and for every behaviour of urllib.parse/DNS: however a Patron is "
                  "constructed (host/port, URL, scheme given or not, caller-supplied plain/TLS connector) its scheme is https "
                  "exactly when its connection is TLS and http otherwise, a connector dictating TLS, host and port "
                  "(C34_constructed_consistent, C34_constructed_secure); a client on https never "
                  "opens or uses a non-TLS connection, also not before an exception (C34_never_downgrades; C34_no_downgrade: "
                  "ValueError and nothing sent); a followed redirect replaces the connection iff resolved address, port or "
                  "scheme differ and sends exactly one request either way (C34_reconnect_iff_authority_differs, "
                  "C34_same_authority_same_connection, C34_relative_location_resolved_partial (given the urljoin/urlsplit "
                  "answers), C34_followed_request: method kept, body dropped, Host of the new "
                  "authority); after redirects rs and a final response f .responses grows by exactly one entry carrying rs in "
                  "arrival order, none flagged errored, .redirects is empty again, one request per redirect, one delivery "
                  "(C34_chain_in_order); the connector's transmit queue only ever holds requests (or unsent remainders) built for the "
                  "connection in use, for every pattern of partial sends (C34_unsent_belongs_to_connection), and a connection "
                  "opened by a redirect starts with exactly the reissued request (C34_new_connection_starts_clean); "
                  "a redirect whose Location is missing, empty, rejected by urljoin/urlsplit/.port, "
                  "host-less or unresolvable produces the single effect `deliver` of that response flagged errored with "
                  "the chain so far, connection and requester untouched (C34_bad_location_delivered), and over all histories "
                  "neither InvalidURL nor gaierror ever leaves serviceAll (C34_location_errors_contained). "
                  "Partial: the exact request target (C34_target_resolved_partial) assumes laws of urlsplit/quote as "
                  "hypotheses; C34_target_counterexample is the recorded defect D34e.")
    LEVEL_NOTE = ("Trusted: Lean kernel; axioms propext, Classical.choice, Quot.sound; the hand transcription of clienting.py "
                  "(as repaired by fixes/D34a-d, D32a, D34f) validated only by the correspondence runs; CPython's urllib.parse (a parameter "
                  "of the model, instantiated from recorded calls); the socket-pair, DNS and 'TLS flag' doubles; the stub "
                  "servers; byte-level response parsing is exercised (real Respondent) but not modelled.")

    def __init__(self):
        self._trace = {}
        self._wrote = {}
        self._partial = {}
        self._lossy_cache = {}

    # ------------------------------------------------------------------ generation
    HOSTS = ["a.test", "b.test", "c.test", "alias.test", "10.0.0.9"]
    DNS = {"a.test": "10.0.0.1", "b.test": "10.0.0.2", "c.test": "10.0.0.3", "alias.test": "10.0.0.1"}
    SEGCH = ["a", "b", "z", "Q", "7", "-", ".", "_", "~", "%C3%A9", "%E4%B8%AD", "%20", "%2B", "%25", "%3D", "%26", "!",
             "$", "'", "(", ")", "*", ",", "=", ":", "@", "+", "%7E", "%41"]
    VALS = ["", "1", "v", "a b", "é", "中文", "a&b", "a=b", "a+b", "100%", "x/y?z", "#h", "~._-", "true", "\u00a0"]

    def _seg(self, rng):
        return "".join(rng.choice(self.SEGCH) for _ in range(rng.choice([1, 1, 2, 3, 5])))

    def _path(self, rng, lead=True):
        segs = [self._seg(rng) for _ in range(rng.choice([1, 1, 2, 3]))]
        p = "/".join(segs)
        if rng.random() < 0.2:
            p += "/"
        return ("/" + p) if lead else p

    def _query(self, rng):
        n = rng.choice([0, 0, 1, 1, 2, 3])
        keys = rng.sample(["k", "q", "name", "id", "x-y", "a.b", "Z_9", "t~"], n)
        enc = rng.choice([_qp, lambda v: _q(v, safe="")])
        return "&".join("%s=%s" % (k, enc(rng.choice(self.VALS))) for k in keys)

    def _plain_path(self, rng):
        # path given to Patron.request(): an *unquoted* path (str), may be unicode
        segs = ["".join(rng.choice(["a", "b", "Z", "9", "-", "_", ".", "~", "é", "中", " ", "+", "%", "=", "&", "!", ":", "@"])
                        for _ in range(rng.choice([1, 2, 4]))) for _ in range(rng.choice([1, 1, 2, 3]))]
        return "/" + "/".join(segs) + ("/" if rng.random() < 0.15 else "")

    def _location(self, rng, scheme_now, host_now, malformed):
        """returns (location text, kind)"""
        q = self._query(rng)
        qs = ("?" + q) if q else ""
        frag = "#frag" if rng.random() < 0.1 else ""
        kind = rng.choice(["abs", "abs", "abs", "abs-same", "abspath", "abspath", "relpath", "dots", "queryonly",
                           "netpath", "nopath", "upgrade", "downgrade", "alias", "upper", "userinfo"])
        host = rng.choice(self.HOSTS)
        port = rng.choice(["", "", ":80", ":443", ":8080", ":81", ":%d" % rng.randrange(1, 65536)])
        if kind == "abs":
            sch = scheme_now if rng.random() < 0.8 else rng.choice(["http", "https"])
            return "%s://%s%s%s%s%s" % (sch, host, port, self._path(rng), qs, frag), kind
        if kind == "abs-same":
            return "%s://%s%s%s%s" % (scheme_now, host_now, rng.choice(["", ":8080"]), self._path(rng), qs), kind
        if kind == "abspath":
            return self._path(rng) + qs + frag, kind
        if kind == "relpath":
            return self._path(rng, lead=False) + qs, kind
        if kind == "dots":
            pre = rng.choice(["./", "../", "../../", "../../../../", "./../", "x/../", "x/./", "%2E%2E/", "%2e/"])
            return pre + self._path(rng, lead=False).rstrip("/") + rng.choice(["", "/.", "/..", "/./z"]) + qs, kind
        if kind == "queryonly":
            return "?" + (q or "k=v"), kind
        if kind == "netpath":
            return "//%s%s%s%s" % (host, port, self._path(rng), qs), kind
        if kind == "nopath":
            return "%s://%s%s%s" % (scheme_now, host, port, qs), kind
        if kind == "upgrade":
            return "https://%s%s%s" % (host, rng.choice(["", ":443", ":8443"]), self._path(rng)), kind
        if kind == "downgrade":
            return "http://%s%s%s" % (host, rng.choice(["", ":80", ":8080"]), self._path(rng)), kind
        if kind == "alias":
            return "%s://alias.test%s%s" % (scheme_now, rng.choice(["", ":8080"]), self._path(rng)), kind
        if kind == "upper":
            return "%s://%s%s%s%s" % (scheme_now.upper(), host.upper(), port, self._path(rng), qs), kind
        return "%s://user:pw@%s%s%s%s" % (scheme_now, host, port, self._path(rng), qs), kind

    def _bad_location(self, rng, scheme_now):
        host = rng.choice(self.HOSTS)
        return rng.choice([
            None,
            "%s://%s:8x/p" % (scheme_now, host),
            "%s://%s:99999/p" % (scheme_now, host),
            "%s://nowhere.invalid/p" % scheme_now,
            "ftp://%s/p" % host,
            "%s://%s/q%%3Fz?k=v" % (scheme_now, host),
            "/a%23b/c",
            "/a%2Fb/../c",
            "/x%0Ay",
            "%s://%s//x/y" % (scheme_now, host),
            "/p?flag",
            "/p?a=1&a=2",
            "/p?a=1;b=2",
            "/p?=v",
            "%s://[::1]:81/z" % scheme_now,
            "%s://[::1/x" % scheme_now,
            "//%s:port/x" % host,
            "%s://:81/x" % scheme_now,
            "//user@/x",
            "%s://nowhere.invalid:8080/p?k=v" % scheme_now,
            "%s://%s:0/z" % (scheme_now, host),
            "",
            "#only",
            "/sp ace?k=a b",
        ])

    def _one(self, rng, malformed):
        scheme = rng.choice(["http", "http", "https"])
        host = rng.choice(["a.test", "b.test", "10.0.0.9"])
        port = rng.choice([None, None, 8080, 80, 443, 81])
        start = {"host": host, "port": port, "scheme": scheme, "redirectable": not (malformed and rng.random() < 0.15)}
        # every documented way of constructing a Patron
        how = rng.choice(["hostport", "hostport", "noscheme", "url", "url", "connector", "connector"])
        if how == "noscheme":
            start["scheme"] = ""
            scheme = "http"
        elif how == "url":
            start["url"] = "%s://%s%s/first/path?x=1" % (scheme if rng.random() < 0.8 else scheme.upper(), host,
                                                         "" if port is None else ":%d" % port)
            start["host"], start["port"] = "127.0.0.1", None          # taken from the url instead
            start["scheme"] = rng.choice(["", scheme])
        elif how == "connector":
            tls = scheme == "https"
            start["connector"] = {"tls": tls, "host": host, "port": port if port is not None else (443 if tls else 80)}
            start["host"], start["port"] = "127.0.0.1", None          # taken from the connector instead
            start["scheme"] = rng.choice(["", "", scheme])
            if malformed and rng.random() < 0.2:
                start["scheme"] = "http" if tls else "https"          # incompatible with the connector: ValueError
        start["store"] = rng.random() < 0.5
        case = {"dns": dict(self.DNS), "start": start, "ops": []}
        nreq = rng.choice([1, 1, 1, 2, 3])
        queued_extra = 0
        for i in range(nreq):
            method = rng.choice(["GET", "GET", "GET", "GET", "HEAD", "POST", "PUT", "DELETE"])
            body = bytes(rng.randrange(256) for _ in range(rng.choice([0, 0, 3, 17]))) if method in ("POST", "PUT") else b""
            qargs = []
            for k in rng.sample(["k", "q", "n", "x-y"], rng.choice([0, 0, 1, 2])):
                qargs.append([k, rng.choice(self.VALS)])
            req = {"op": "request", "method": method, "path": self._plain_path(rng), "qargs": qargs, "body": body.hex()}
            if queued_extra == 0 and rng.random() < 0.25:
                # an upload the socket takes only partly before the response arrives (the server answers the head early)
                method = req["method"] = rng.choice(["POST", "PUT", "DELETE"])
                body = bytes(rng.randrange(256) for _ in range(rng.choice([2, 40, 700, 5000])))
                req["body"] = body.hex()
                req["cap"] = rng.choice([0, 1, len(body) // 2, len(body) - 1])
            case["ops"].append(req)
            if i + 1 < nreq and rng.random() < 0.3:       # queue the next request while this one is outstanding
                queued_extra += 1
                continue
            for _ in range(1 + queued_extra):
                scheme_now, host_now = scheme, host            # only a hint for the generator
                for hop in range(rng.choice([0, 1, 1, 2, 3, 5])):
                    if malformed and rng.random() < 0.35:
                        loc = self._bad_location(rng, scheme_now)
                    else:
                        loc, kind = self._location(rng, scheme_now, host_now, malformed)
                        if kind == "upgrade":
                            scheme_now = "https"
                    status = rng.choice(REDIRECT)
                    if malformed and rng.random() < 0.1:
                        status = rng.choice([305, 306, 308])
                    rb = bytes(rng.randrange(32, 127) for _ in range(rng.choice([0, 0, 5, 40])))
                    rb = bytes(rng.randrange(256) for _ in range(rng.choice([0, 1, 5, 40, 300]))) if rng.random() < 0.7 else rb
                    case["ops"].append({"op": "resp", "status": status, "location": loc, "body": rb.hex(),
                                        "pieces": rng.choice([1, 1, 2, 3]), "chunked": rng.random() < 0.4})
                    if status not in REDIRECT or not case["start"]["redirectable"]:
                        break              # not followed: this response is the final one
                else:
                    status = None
                if status is not None:
                    continue
                fstatus = rng.choice([200, 200, 200, 201, 204, 304, 400, 404, 500])
                fb = bytes(rng.randrange(256) for _ in range(rng.choice([0, 2, 30])))
                case["ops"].append({"op": "resp", "status": fstatus, "location": None, "body": fb.hex(),
                                    "pieces": rng.choice([1, 2, 3]), "chunked": rng.random() < 0.3})
            queued_extra = 0
        return case

    def generate(self, rng, n, tier):
        for i in range(n):
            yield self._one(rng, malformed=(rng.random() < 0.15))

    def search(self, rng, n, tier):
        for i in range(n):
            yield self._one(rng, malformed=(rng.random() < 0.3))

    def exhaustive(self, tier):
        """every (start scheme) x (location form) x (redirect status) single hop, plus 2-hop scheme/host grids"""
        forms = ["http://b.test/x?k=v", "https://b.test/x", "http://a.test:80/x", "https://a.test:443/x", "/x?k=v", "x",
                 "../x", "?k=v", "//b.test/x", "http://alias.test/x", "http://b.test", "HTTP://B.TEST:81/X",
                 "http://a.test:81/x", "https://a.test/x"]
        statuses = REDIRECT if tier == "thorough" else (302, 307)
        for scheme in ("http", "https"):
            for f in forms:
                for st in statuses:
                    yield {"dns": dict(self.DNS), "start": {"host": "a.test", "port": None, "scheme": scheme, "redirectable": True},
                           "ops": [{"op": "request", "method": "GET", "path": "/d/p", "qargs": [["k", "1"]], "body": ""},
                                   {"op": "resp", "status": st, "location": f, "body": "", "pieces": 1},
                                   {"op": "resp", "status": 200, "location": None, "body": "6f6b", "pieces": 1}]}
        # every documented way of constructing the Patron x a redirect that carries a body (fixed length / chunked)
        for scheme in ("http", "https"):
            tls = scheme == "https"
            dport = 443 if tls else 80
            starts = [{"host": "a.test", "port": None, "scheme": ""},
                      {"host": "a.test", "port": dport, "scheme": scheme, "store": True},
                      {"host": "127.0.0.1", "port": None, "scheme": "", "url": "%s://a.test/p?x=1" % scheme},
                      {"host": "127.0.0.1", "port": None, "scheme": scheme, "url": "%s://a.test:%d/p" % (scheme, dport), "store": True},
                      {"host": "127.0.0.1", "port": None, "scheme": "", "connector": {"tls": tls, "host": "a.test", "port": dport}},
                      {"host": "127.0.0.1", "port": None, "scheme": scheme, "store": True,
                       "connector": {"tls": tls, "host": "a.test", "port": dport}}]
            for start in starts:
                if start["scheme"] == "" and not start.get("url") and not start.get("connector") and tls:
                    continue       # no scheme anywhere means http
                for f in ("/x?k=v", "x", "http://b.test/x", "https://b.test/x"):
                    for chunked in (False, True):
                        yield {"dns": dict(self.DNS), "start": dict(start, redirectable=True),
                               "ops": [{"op": "request", "method": "GET", "path": "/d/p", "qargs": [], "body": ""},
                                       {"op": "resp", "status": 302, "location": f, "body": "6d6f766564", "pieces": 2,
                                        "chunked": chunked},
                                       {"op": "resp", "status": 200, "location": None, "body": "6f6b", "pieces": 1,
                                        "chunked": not chunked}]}
        # a redirect that arrives while part of the redirected request is still queued in the connector: to another host,
        # port, scheme, an alias of the same address, the same authority; alone, after a hop, with a request queued behind
        for scheme in ("http", "https"):
            for f in ("http://b.test/moved?x=1", "http://a.test:81/moved", "https://b.test/moved", "https://a.test/moved",
                      "http://alias.test/moved", "/moved?x=1", "moved", "%s://a.test/moved" % scheme):
                for cap in (0, 3):
                    for queued in (False, True):
                        for status in (307, 302):
                            ops = [{"op": "request", "method": "POST", "path": "/upload", "qargs": [], "body": "75706c6f6164" * 40,
                                    "cap": cap}]
                            if queued:
                                ops.append({"op": "request", "method": "GET", "path": "/next", "qargs": [], "body": ""})
                            ops += [{"op": "resp", "status": status, "location": f, "body": "", "pieces": 1},
                                    {"op": "resp", "status": 200, "location": None, "body": "6f6b", "pieces": 1}]
                            if queued:
                                ops.append({"op": "resp", "status": 200, "location": None, "body": "6f6b32", "pieces": 1})
                            yield {"dns": dict(self.DNS), "start": {"host": "a.test", "port": None, "scheme": scheme,
                                                                   "redirectable": True}, "ops": ops}
        # a Location that cannot be used, first or after a followed hop, alone or with a request queued behind it
        for scheme in ("http", "https"):
            for bad in (None, "", "%s://b.test:8x/p" % scheme, "%s://b.test:99999/p" % scheme, "%s://[::1/x" % scheme,
                        "%s://nowhere.invalid/p" % scheme, "//nowhere.invalid/p", "http://nowhere.invalid/p",
                        "%s://:81/x" % scheme, "//user@/x"):
                for lead in ([], [{"op": "resp", "status": 301, "location": "/hop", "body": "68", "pieces": 1}]):
                    for queued in (False, True):
                        ops = [{"op": "request", "method": "GET", "path": "/d/p", "qargs": [], "body": ""}]
                        if queued:
                            ops.append({"op": "request", "method": "POST", "path": "/next", "qargs": [], "body": "01"})
                        ops += lead + [{"op": "resp", "status": 302, "location": bad, "body": "6e6f", "pieces": 2}]
                        if queued:
                            ops.append({"op": "resp", "status": 200, "location": None, "body": "6f6b", "pieces": 1})
                        yield {"dns": dict(self.DNS), "start": {"host": "a.test", "port": None, "scheme": scheme,
                                                               "redirectable": True}, "ops": ops}
        if tier == "thorough":
            for scheme in ("http", "https"):
                for f in forms:
                    for g in forms:
                        yield {"dns": dict(self.DNS), "start": {"host": "a.test", "port": 8080, "scheme": scheme, "redirectable": True},
                               "ops": [{"op": "request", "method": "POST", "path": "/d/p", "qargs": [], "body": "00ff"},
                                       {"op": "resp", "status": 307, "location": f, "body": "", "pieces": 1},
                                       {"op": "resp", "status": 302, "location": g, "body": "7a", "pieces": 2},
                                       {"op": "resp", "status": 200, "location": None, "body": "6f6b", "pieces": 1}]}

    # ------------------------------------------------------------------ implementation adapter
    def _events_to_effects(self, events, net):
        out = []
        for e in events:
            if e[0] == "CLIENT-CLOSE":
                out.append("close")
            elif e[0] == "OPEN":
                out.append("open %s %d %d" % (hx(e[1]), e[2], 1 if e[3] else 0))
            elif e[0] == "REQ":
                c = net.conns[e[1]]
                out.append("send %s %d %d %s %s %s %s" % (hx(c["ip"]), c["port"], 1 if c["tls"] else 0, hx(e[2]), hx(e[3]),
                                                          hx(e[4]), "*" if e[5] is None else hx(e[5])))
            elif e[0] == "GARBAGE":
                c = net.conns[e[1]]
                out.append("garbage %s %d %s" % (hx(c["ip"]), c["port"], hx(e[2])))
            elif e[0] in ("DELIVER", "STALL"):
                out.append(e[0].lower())
        return ";".join(out) if out else "none"

    def _run_impl(self, case):
        from ioflo.aio.http import clienting as hc, httping
        from ioflo.aid.odicting import odict
        net = D.Net(case["dns"])
        calls, lines = [], []
        self._wrote[core.case_key(case)] = wrote = {}     # op index -> body bytes the stub server wrote
        self._partial[core.case_key(case)] = partial = {}  # op index -> the socket took only part of this request
        pending = []           # connections with an unanswered request, oldest first
        state = {"delivered": 0, "dead": None}
        p = None

        def serve():
            for c, closed in net.pump():
                while True:
                    if c.get("skip"):            # the rest of a body whose request was answered early
                        n = min(c["skip"], len(c["buf"]))
                        del c["buf"][:n]
                        c["skip"] -= n
                        if c["skip"]:
                            break
                    # what a host receives must begin with a request line
                    line = bytes(c["buf"][:c["buf"].find(b"\r\n")]) if b"\r\n" in c["buf"] else None
                    if line is not None and not re.fullmatch(rb"(GET|HEAD|POST|PUT|DELETE|PATCH|OPTIONS|TRACE|CONNECT) [\x21-\x7e]* HTTP/1\.1", line):
                        net.log.append(("GARBAGE", c["id"], bytes(c["buf"][:24])))
                        del c["buf"][:]
                        break
                    rq = D.split_request(c["buf"])
                    early = False
                    if rq is None:
                        cap = getattr(net, "cap", None)
                        i = c["buf"].find(b"\r\n\r\n")
                        if not (cap and cap["blocked"] and i >= 0):
                            break
                        # the client's socket is blocked in the middle of the body: answer the head (an early response)
                        head = bytes(c["buf"][:i]).split(b"\r\n")
                        hdrs = [(h.partition(b":")[0].strip().lower().decode("latin-1"), h.partition(b":")[2].strip().decode("latin-1"))
                                for h in head[1:]]
                        have = len(c["buf"]) - (i + 4)
                        c["skip"] = int(dict(hdrs).get("content-length", "0")) - have
                        del c["buf"][:]
                        rq, early = (head[0], hdrs, None), True
                    start = rq[0].decode("latin-1")
                    m = re.match(r"^(\S+) (.*) HTTP/1\.1$", start, re.S)
                    method, target = (m.group(1), m.group(2)) if m else ("?", start)
                    net.log.append(("REQ", c["id"], method, target, dict(rq[1]).get("host", ""), rq[2]))
                    pending.append(c)
                    if early:
                        break

        def rounds(pieces=()):
            """service rounds until two consecutive idle ones; `pieces` are written one per round"""
            pieces = list(pieces)
            idle = 0
            for _ in range(40):
                mark = len(net.log)
                if pieces:
                    conn, data = pieces.pop(0)
                    net.send(conn, data)
                p.serviceAll()
                if len(p.responses) > state["delivered"]:
                    state["delivered"] = len(p.responses)
                    net.log.append(("DELIVER",))
                serve()
                if len(net.log) == mark and not pieces:
                    idle += 1
                    if idle >= 2:
                        break
                else:
                    idle = 0

        with D.patched(net) as (C, T), D.recorded(calls, [hc, httping]):
            mark = 0
            try:
                st = case["start"]
                kw = dict(hostname=st["host"], port=st["port"], scheme=st["scheme"], redirectable=st["redirectable"])
                if st.get("url"):
                    kw["path"] = st["url"]
                if st.get("store"):
                    from ioflo.base import storing
                    kw["store"] = storing.Store(stamp=0.0)
                if st.get("connector"):
                    cn = st["connector"]
                    kw["connector"] = (T if cn["tls"] else C)(host=cn["host"], port=cn["port"])
                p = hc.Patron(**kw)
                _sr = p.serviceResponse

                def service_response():
                    before = (len(p.redirects), len(p.responses))
                    _sr()
                    if (len(p.redirects), len(p.responses)) != before:
                        state["txq"] = len(p.connector.txes)     # what the connector still has to send at this moment
                p.serviceResponse = service_response
                p.open()
                lines.append(self._events_to_effects(net.log[mark:], net))
            except Exception as ex:
                lines.append("err " + type(ex).__name__)
                state["dead"] = True
            for opi, op in enumerate(case["ops"]):
                if state["dead"]:
                    lines.append("dead")
                    continue
                mark = len(net.log)
                try:
                    state["txq"] = None
                    if op["op"] == "request":
                        armed = op.get("cap") is not None and not p.waited and not p.requests
                        if armed:
                            net.arm_cap(op["cap"])
                        p.request(method=op["method"], path=op["path"], qargs=odict((k, v) for k, v in op["qargs"]),
                                  body=bytes.fromhex(op["body"]))
                        rounds()
                        if armed and not net.cap["blocked"]:
                            net.lift_cap()
                        if getattr(net, "cap", None):
                            partial[opi] = True      # the socket is blocked: nothing that is queued goes out in this round
                    else:
                        if not pending:          # a response nobody asked for: outside the model, see Model/Redirect.lean
                            lines.append("err out-of-model")
                            state["dead"] = True
                            continue
                        conn = pending.pop(0)
                        body = bytes.fromhex(op["body"])
                        req_method = [e for e in net.log if e[0] == "REQ" and e[1] == conn["id"]][-1][2]
                        nobody = req_method == "HEAD" or op["status"] in (204, 304)
                        chunked = op.get("chunked") and not nobody
                        head = b"HTTP/1.1 %d Status\r\n" % op["status"]
                        head += b"Transfer-Encoding: chunked\r\n" if chunked else b"Content-Length: %d\r\n" % len(body)
                        if op["location"] is not None:
                            head += b"Location: " + op["location"].encode("utf-8") + b"\r\n"
                        head += b"\r\n"
                        if chunked:
                            n3 = max(1, len(body) // 3)
                            parts = [body[i:i + n3] for i in range(0, len(body), n3)]
                            payload = b"".join(b"%x\r\n%s\r\n" % (len(c), c) for c in parts) + b"0\r\n\r\n"
                        else:
                            payload = body
                        wire = head + (b"" if nobody else payload)
                        wrote[opi] = 0 if nobody else len(body)
                        k = max(1, min(op.get("pieces", 1), len(wire)))
                        cut = [len(wire) * i // k for i in range(k + 1)]
                        before = len(net.log)
                        rounds([(conn, wire[cut[i]:cut[i + 1]]) for i in range(k)])
                        if len(net.log) == before and p.waited and state["txq"] is None:
                            net.log.append(("STALL",))
                        if getattr(net, "cap", None):
                            net.lift_cap()           # the blocked socket (if it is still there) takes the rest now
                            rounds()
                    lines.append(self._events_to_effects(net.log[mark:], net) +
                                 (";txq %d" % state["txq"] if state["txq"] is not None and op["op"] == "resp" else ""))
                except Exception as ex:
                    serve()
                    pre = self._events_to_effects(net.log[mark:], net)
                    lines.append(("" if pre == "none" else pre + ";") + "err " + type(ex).__name__)
                    state["dead"] = True
            if state["dead"]:
                lines.append("dead")
            else:
                def snap(r):
                    q = r["request"]
                    return "%s %d %s %s %s" % (hx(q["host"]), q["port"], hx(q["scheme"]), hx(q["method"]), hx(q["path"]))

                def rec(r):
                    loc = r["headers"].get("location")
                    return "%d %s %s %s %d" % (r["status"], "~" if loc is None else hx(loc), snap(r), bytes(r["body"]).hex() or "-",
                                               1 if r.get("errored") else 0)
                s = "final %d %d %d" % (1 if p.waited else 0, len(p.redirects), len(p.responses))
                for r in p.responses:
                    chain = r.get("redirects", [])
                    s += " R " + rec(r) + " %d" % len(chain) + "".join(" " + rec(x) for x in chain)
                lines.append(s)
        # the std table for the model
        std, seen = [], set()
        for name, args, res in calls:
            if name == "urlsplit" and len(args) == 1:
                try:
                    port = res.port
                    port = "~" if port is None else str(port)
                except ValueError:
                    port = "!"
                hn = res.hostname
                l = "std urlsplit %s %s %s %s %s %s %s %s %s" % (hx(args[0]), hx(res.scheme), hx(res.netloc), hx(res.path),
                                                                hx(res.query), hx(res.fragment), "~" if hn is None else hx(hn),
                                                                port, hx(res.geturl()))
            elif name == "urlsplit/raise" and len(args) == 1:
                l = "std urlsplit %s - - - - - ~ ! -" % hx(args[0])
            elif name == "urljoin" and len(args) == 2:
                l = "std urljoin %s %s %s" % (hx(args[0]), hx(args[1]), hx(res))
            elif name == "urljoin/raise" and len(args) == 2:
                l = "std urljoin %s %s !" % (hx(args[0]), hx(args[1]))
            elif name in ("unquote", "quote", "quote_plus", "unquote_plus") and len(args) == 1 and isinstance(args[0], str):
                l = "std %s %s %s" % (name, hx(args[0]), hx(res))
            else:
                continue
            if l not in seen:
                seen.add(l)
                std.append(l)
        for name in dict.fromkeys(net.resolved):
            try:
                r = hx(D.Net(case["dns"]).resolve(name))
            except socket.gaierror:
                r = "!"
            std.append("std resolve %s %s" % (hx(name), r))
        return lines, std

    def impl(self, case):
        lines, std = self._run_impl(case)
        self._trace[core.case_key(case)] = std
        return lines

    # ------------------------------------------------------------------ model side
    def requests(self, case):
        key = core.case_key(case)
        if key not in self._trace:
            self.safe_impl(case)
        std = self._trace.get(key, [])
        st = case["start"]
        out = ["begin"] + std
        cn = st.get("connector")
        out.append("init %s %s %s %s %d %s" % (hx(st.get("url") or "/"), hx(st["host"]), "~" if st["port"] is None else st["port"],
                                               hx(st["scheme"]), 1 if st["redirectable"] else 0,
                                               "~" if not cn else "%d %s %d" % (1 if cn["tls"] else 0, hx(cn["host"]), cn["port"])))
        # what the last request's method was decides whether the stub server wrote a body (HEAD): the harness, not the
        # model, plays the server, so the declared/written lengths are inputs of the model
        methods = self._methods_per_resp(case)
        wrote = self._wrote.get(key, {})
        for opi, (op, m) in enumerate(zip(case["ops"], methods)):
            if op["op"] == "request":
                kv = " ".join("%s %s" % (hx(k), hx(v)) for k, v in op["qargs"])
                out.append(("%s %s %s %s %s" % ("requestp" if self._partial.get(key, {}).get(opi) else "request",
                                                hx(op["method"]), hx(op["path"]), op["body"] or "-", kv)).strip())
            else:
                n = len(bytes.fromhex(op["body"]))
                blen = wrote[opi] if opi in wrote else (0 if (m == "HEAD" or op["status"] in (204, 304)) else n)
                out.append("resp %d %s %d %d %s" % (op["status"], "~" if op["location"] is None else hx(op["location"]), n, blen,
                                                    (op["body"] or "-") if blen else "-"))
        out.append("final")
        self._nstd = len(std) + 1
        return out

    def _methods_per_resp(self, case):
        """method of the request that each resp op answers (requests are answered in order; redirects keep the method)"""
        queue, cur, res = [], None, []
        for op in case["ops"]:
            if op["op"] == "request":
                queue.append(op["method"])
                res.append(None)
            else:
                if cur is None and queue:
                    cur = queue.pop(0)
                res.append(cur)
                redirectable = case["start"]["redirectable"]
                if not (redirectable and op["status"] in REDIRECT):
                    cur = None
        return res

    def model_post(self, case, replies):
        k = 0
        while k < len(replies) and replies[k] == "ok":
            k += 1
        return replies[k:]

    # ------------------------------------------------------------------ oracle
    def oracle(self, case, out):
        target_failures = []       # (location, message) of hops whose request target is not the resolved location
        why = self._judge(case, out, target_failures)
        if why is None and target_failures:
            # a wrong request target: report one outside the recorded region D34e first (_judge went on from the
            # target that was actually requested, so later hops were still judged)
            outside = [w for l, w in target_failures if not self._lossy(l)]
            why = (outside or [w for l, w in target_failures])[0]
        return why

    def _judge(self, case, out, target_failures):
        st = case["start"]
        dns = case["dns"]
        # where the documented constructor arguments say the Patron connects: a caller-supplied connector dictates
        # scheme and endpoint, then a full URL given as path, then hostname/port/scheme; no scheme means http
        cn = st.get("connector")
        given = st["scheme"].lower()
        host, port_arg = st["host"], st["port"]
        if st.get("url") and "://" in st["url"]:
            us, _, rest = st["url"].partition("://")
            auth = re.split(r"[/?#]", rest, 1)[0]
            host, ptxt = authority_host_port(auth)
            port_arg = int(ptxt) if ptxt else None
            given = us.lower()
        if cn:
            if given and (given == "https") != cn["tls"]:
                if out and out[0] == "err ValueError":
                    return None    # a connector of the wrong kind for the scheme is refused
                return "connector tls=%s accepted with scheme %r: %s" % (cn["tls"], given, out[:1])
            scheme = "https" if cn["tls"] else "http"
            host, port = cn["host"], cn["port"]
        else:
            scheme = "https" if given == "https" else "http"
            port = port_arg if port_arg is not None else (443 if scheme == "https" else 80)
        if not out or out[0].startswith("err") or out[0] == "dead":
            return "Patron could not be created/opened: %s" % out[:1]
        if any(l.startswith("HARNESS-EXC") for l in out):
            return "harness exception: %s" % [l for l in out if l.startswith("HARNESS-EXC")][0]
        ip = dns.get(host.lower(), host)
        m = re.fullmatch(r"open (\S+) (-?\d+) ([01])", out[0])
        if not m or (bytes.fromhex(m.group(1)).decode(), int(m.group(2)), m.group(3) == "1") != (ip, port, scheme == "https"):
            return "initial connection %r is not %s:%s tls=%s" % (out[0], ip, port, scheme == "https")
        endpoint = (ip, port, scheme == "https")
        queue = []                 # requests not yet on the wire
        cur = None                 # dict(url=(scheme, authority, path, query), chain=[...]) of the outstanding request
        expect_final = []          # (status, chain) in delivery order
        delivered = 0
        for i, op in enumerate(case["ops"]):
            line = out[1 + i] if 1 + i < len(out) else "missing"
            effs = [] if line in ("none",) else line.split(";")
            sends = [e for e in effs if e.startswith("send ")]
            opens = [e for e in effs if e.startswith("open ")]
            err_eff = effs[-1] if effs and effs[-1].startswith("err ") else None
            if line == "dead":
                return None        # the op that raised was judged already
            for e in effs:
                if e.startswith("garbage "):
                    g = e.split()
                    return "op %d: %s:%s received bytes that do not begin with a request line: %r" % (
                        i, bytes.fromhex(g[1]).decode(), g[2], bytes.fromhex(g[3]))
            # never downgrade: once on https the client opens and uses TLS connections only
            if endpoint[2]:
                for e in sends + opens:
                    if e.split()[3] != "1":
                        return "op %d: https client used a non-TLS connection: %s" % (i, e)
            if op["op"] == "request":
                queue.append(op)
                if cur is None:
                    if len(sends) != 1:
                        return "op %d: request not transmitted exactly once (%s)" % (i, line)
                    q = queue.pop(0)
                    cur = {"chain": [], "method": q["method"]}
                    f = sends[0].split()
                    tgt = bytes.fromhex(f[5]).decode()
                    cur["base_path"] = unquote_to_bytes(tgt.partition("?")[0]).decode("utf-8", "replace")
                    cur["query"] = tgt.partition("?")[2] or None
                elif sends:
                    return "op %d: request sent while another is outstanding (%s)" % (i, line)
                continue
            # a response
            if cur is None:
                return None        # unsolicited response: not a history the property speaks about
            status, loc = op["status"], op["location"]
            follow = st["redirectable"] and status in REDIRECT
            # the body this response carries on the wire: none in answer to HEAD, none with 204/304
            carried = "" if (cur["method"] == "HEAD" or status in (204, 304)) else op["body"]

            def tag_along():
                """no demand on this hop: go where the client went (if it sent one request) and keep judging"""
                nonlocal endpoint, scheme
                if err_eff or len(sends) != 1 or "deliver" in effs:
                    return False
                f = sends[0].split()
                endpoint = (bytes.fromhex(f[1]).decode(), int(f[2]), f[3] == "1")
                scheme = "https" if endpoint[2] else "http"
                tgt = bytes.fromhex(f[5]).decode() if f[5] != "-" else ""
                cur["chain"].append((status, loc, carried, False))
                cur["base_path"] = unquote_to_bytes(tgt.partition("?")[0]).decode("utf-8", "replace")
                cur["query"] = tgt.partition("?")[2] or None
                return True

            if st["redirectable"] and status in (305, 306, 308) and "deliver" not in effs:
                # no demand on whether these are followed
                if tag_along():
                    continue
                return None
            # a redirect whose Location cannot be used (missing, empty, port that is no port, unbalanced bracket, no host, host
            # that does not resolve) must not be followed and must not raise: the 3xx response itself is the final
            # response, flagged errored; nothing is sent for it and the connection stays (fix D32a)
            unusable = None
            if follow:
                if not loc:
                    unusable = "no Location"
                else:
                    try:
                        loc.encode("ascii")
                        _s, _a, _p, _q2, _f = rfc_split(loc)
                    except Exception:
                        _s = _a = None
                    if _a is not None and (_s is None or _s.lower() in ("http", "https")) and not re.search(r"[\x00-\x20\x7f]", loc):
                        hp = _a.rpartition("@")[2]
                        h, ptxt = authority_host_port(_a)
                        if hp.count("[") != hp.count("]"):
                            unusable = "unbalanced bracket in %r" % _a
                        elif _a != "" and not h:
                            unusable = "authority %r without a host" % _a
                        elif ptxt is not None and not (ptxt.isdigit() and int(ptxt) < 65536):
                            unusable = "port %r" % ptxt
                        elif not hp.startswith("[") and h and h not in dns and not re.fullmatch(r"\d{1,3}(\.\d{1,3}){3}", h):
                            unusable = "host %r does not resolve" % h
            if unusable:
                if endpoint[2] and loc and (rfc_split(loc)[0] or "").lower() == "http" and err_eff and not sends and not opens \
                        and "close" not in effs:
                    return None    # also an https -> http redirect: refusing it is as good
                if err_eff:
                    return "op %d: redirect %d with unusable Location (%s) raised: %s" % (i, status, unusable, line)
                if "close" in effs or opens:
                    return "op %d: redirect %d with unusable Location (%s) touched the connection: %s" % (i, status, unusable, line)
            if not follow or unusable:
                if "deliver" not in effs:
                    return "op %d: final response %d not delivered (%s)" % (i, status, line)
                if effs.count("deliver") != 1:
                    return "op %d: delivered more than once" % i
                expect_final.append((status, carried, bool(unusable), list(cur["chain"])))
                delivered += 1
                cur = None
                if queue:
                    if len(sends) != 1:
                        return "op %d: queued request not transmitted after the final response (%s)" % (i, line)
                    q = queue.pop(0)
                    f = sends[0].split()
                    tgt = bytes.fromhex(f[5]).decode()
                    cur = {"chain": [], "method": q["method"], "query": tgt.partition("?")[2] or None,
                           "base_path": unquote_to_bytes(tgt.partition("?")[0]).decode("utf-8", "replace")}
                elif sends:
                    return "op %d: request sent with nothing queued (%s)" % (i, line)
                continue
            # a redirect that must be followed
            base = (scheme, SAME, _q(cur["base_path"], safe="/"), cur.get("query"))
            try:
                loc.encode("ascii")
                if re.search(r"[\x00-\x20\x7f]", loc):
                    raise ValueError("not a URI reference")
                rs, ra, rp, rq = rfc_resolve(base, loc)
                if rs not in ("http", "https"):
                    raise ValueError("not an http(s) target")
                if rfc_split(loc)[1] is None and rfc_split(loc)[2] == "" and rfc_split(loc)[3] is None:
                    raise ValueError("empty / fragment-only reference: not a location")
            except Exception:
                if tag_along():    # no demand on this hop
                    continue
                return None
            cur["chain"].append((status, loc, carried, False))
            if ra == SAME:         # same authority as the outstanding request
                t_ip, t_port = endpoint[0], endpoint[1]
                same_auth = True
            else:
                h, ptxt = authority_host_port(ra)
                if ptxt is not None and int(ptxt) == 0:
                    cur["chain"].pop()
                    if tag_along():    # port 0: no demand
                        continue
                    return None
                if h not in dns:
                    if not re.fullmatch(r"\d{1,3}(\.\d{1,3}){3}", h):
                        return None    # bracketed literal: no demand
                t_ip = dns.get(h, h)
                t_port = int(ptxt) if ptxt is not None else (443 if rs == "https" else 80)
                same_auth = False
            t_tls = rs == "https"
            if endpoint[2] and not t_tls:
                # https -> http must be refused, nothing sent or opened
                if sends or opens:
                    return "op %d: https client followed a redirect to %s (%s)" % (i, loc, line)
                if not err_eff:
                    return "op %d: downgrade to %s neither followed nor refused (%s)" % (i, loc, line)
                return None
            if err_eff or line in ("none", "stall", "missing"):
                return "op %d: redirect %d to %r not followed: %s" % (i, status, loc, line)
            if "deliver" in effs:
                return "op %d: redirect response %d delivered as final" % (i, status)
            if len(sends) != 1:
                return "op %d: redirect to %r produced %d requests" % (i, loc, len(sends))
            f = sends[0].split()
            s_ip, s_port, s_tls = bytes.fromhex(f[1]).decode(), int(f[2]), f[3] == "1"
            s_method = bytes.fromhex(f[4]).decode()
            tgt = bytes.fromhex(f[5]).decode() if f[5] != "-" else ""
            s_host = bytes.fromhex(f[6]).decode() if f[6] != "-" else ""
            if (s_ip, s_port, s_tls) != (t_ip, t_port, t_tls):
                return "op %d: redirect to %r went to %s:%d tls=%s, expected %s:%d tls=%s" % (
                    i, loc, s_ip, s_port, s_tls, t_ip, t_port, t_tls)
            new_endpoint = (t_ip, t_port, t_tls)
            reconnect = ("close" in effs) or bool(opens)
            if new_endpoint != endpoint:
                if not ("close" in effs and len(opens) == 1 and effs.index("close") < effs.index(opens[0]) < effs.index(sends[0])):
                    return "op %d: endpoint changes %s -> %s but effects are %s" % (i, endpoint, new_endpoint, line)
            elif reconnect:
                return "op %d: same endpoint and scheme but the connection was replaced (%s)" % (i, line)
            if s_method != cur["method"]:
                return "op %d: redirected request uses method %s, original %s" % (i, s_method, cur["method"])
            # Host header must name the endpoint the request went to
            hh, _, hp = s_host.rpartition(":")
            if dns.get(hh.lower(), hh) != t_ip or hp != str(t_port):
                return "op %d: Host header %r does not name %s:%d" % (i, s_host, t_ip, t_port)
            # request target == resolved location (modulo percent-encoding normalisation)
            sp, _, sq = tgt.partition("?")
            want_path = rp or "/"
            norm = lambda x: unquote_to_bytes(remove_dot_segments(decode_unreserved(x)) or "/")
            kw = dict(keep_blank_values=True, encoding="utf-8", errors="surrogateescape")
            if norm(sp) != norm(want_path):
                target_failures.append((loc, "op %d: Location %r resolves to path %r, request target is %r" % (
                    i, loc, want_path, tgt)))
            elif parse_qsl(sq, **kw) != parse_qsl(rq or "", **kw):
                target_failures.append((loc, "op %d: Location %r has query %r, request target is %r" % (i, loc, rq, tgt)))
            endpoint = new_endpoint
            scheme = rs
            cur["base_path"] = unquote_to_bytes(sp).decode("utf-8", "replace")
            cur["query"] = sq or None
        return self._final_clause(out, delivered, expect_final)

    def _lossy(self, loc):
        if loc not in self._lossy_cache:
            self._lossy_cache[loc] = core.Driver(self.ENGINE).run(["region D34e %s" % hx(loc)])[0] == "1"
        return self._lossy_cache[loc]

    def _final_clause(self, out, delivered, expect_final):
        last = out[-1].split()
        if last and last[0] == "final":
            if int(last[3]) != delivered:
                return "%d responses in .responses, %d final responses were delivered" % (int(last[3]), delivered)
            recs = self._parse_final(last)
            for (status, body, errored, chain), (rstatus, rbody, rerrored, rchain) in zip(expect_final, recs):
                if rstatus != status:
                    return "response status %d, expected %d" % (rstatus, status)
                if rerrored != errored:
                    return "response %d has errored=%s, expected %s" % (status, rerrored, errored)
                if rbody != body:
                    return "final response %d has body %r, the server sent %r" % (status, rbody, body)
                if rchain != chain:
                    return "final response %d carries redirects %r, the chain was %r" % (status, rchain, chain)
        elif last and last[0] != "dead":
            return "no final line: %r" % out[-1]
        return None

    @staticmethod
    def _parse_final(tok):
        """records are `status location host port scheme method path body errored`"""
        recs, i = [], 4
        def one(j):
            status = int(tok[j]); loc = None if tok[j + 1] == "~" else bytes.fromhex(tok[j + 1].replace("-", "")).decode()
            return (status, loc, tok[j + 7].replace("-", ""), tok[j + 8] == "1"), j + 9
        while i < len(tok) and tok[i] == "R":
            (status, _loc, body, errored), j = one(i + 1)
            n = int(tok[j]); j += 1
            chain = []
            for _ in range(n):
                r, j = one(j)
                chain.append(r)
            recs.append((status, body, errored, chain))
            i = j
        return recs

    # ------------------------------------------------------------------ bookkeeping
    def nontrivial(self, case, out):
        """at least one redirect was followed (a request sent in answer to a response) and a final response delivered"""
        followed = any(op["op"] == "resp" and "send " in l and "deliver" not in l
                       for op, l in zip(case["ops"], out[1:]))
        return followed and out[-1].startswith("final") and " R " in out[-1]

    def bucket(self, case, out):
        n_red = sum(1 for op in case["ops"] if op["op"] == "resp" and op["status"] in REDIRECT)
        errs = [l.split(";")[-1] for l in out if l.split(";")[-1].startswith("err ")]
        if errs:
            return "error:" + errs[0][4:]
        if any("stall" in l for l in out):
            return "stall"
        rec = sum(1 for l in out[1:] if "open " in l)
        return "chain%d%s" % (min(n_red, 4), "+reconnect" if rec else "")

    def region(self, finding, case):
        if finding.get("id") != "D34e":
            return False
        locs = [op["location"] for op in case["ops"] if op["op"] == "resp" and op["location"] is not None]
        if not locs:
            return False
        replies = core.Driver(self.ENGINE).run(["region D34e %s" % hx(l) for l in locs])
        return any(r == "1" for r in replies)

    def shrink_candidates(self, case):
        findings = [f for f in core.load_findings(self.PROPERTY) if f.get("kind") == "known"]
        for c in self._shrinks(case):
            if not any(self.region(f, c) for f in findings):     # stay outside the recorded regions
                yield c

    def _shrinks(self, case):
        ops = case["ops"]
        for i in range(len(ops)):
            c = json.loads(json.dumps(case))
            del c["ops"][i]
            yield c
        for i, op in enumerate(ops):
            if op["op"] == "resp" and op["body"]:
                c = json.loads(json.dumps(case))
                c["ops"][i]["body"] = ""
                c["ops"][i]["pieces"] = 1
                yield c
            if op["op"] == "request" and (op["qargs"] or op["body"] or op["path"] != "/p"):
                c = json.loads(json.dumps(case))
                c["ops"][i].update({"qargs": [], "body": "", "path": "/p"})
                yield c
