"""C35 — datagram stacks send each destination's packets once, in queue order.
Model: lean/IofloModel/Model/Gram.lean (transmit side of GramStack/UdpStack, ioflo/aio/proto/stacking.py)
Theorems: lean/IofloModel/Props/C35.lean
Tie: the real UdpStack / GramStack driven through a socket double (udping.SocketUdpNb over a fake
     socket object, or a handler double) with a scripted answer for every send, against the Lean
     driver on the same call sequence: datagrams seen by the double, exceptions that escape, and the
     queues after every call are compared.
Oracle (independent of the model): no loss / no duplicate, per-destination order, no blocking of
     unfailed destinations, stated on the double's log and the real deques.
The tree this check is meant for: /repo + fixes/D20-gramstack-break-reorders.patch."""
import errno, itertools, json
import core

TRANSIENT = [errno.ECONNREFUSED, errno.ECONNRESET, errno.ENETRESET, errno.ENETUNREACH, errno.EHOSTUNREACH,
             errno.ENETDOWN, errno.EHOSTDOWN, errno.ETIMEDOUT, errno.ETIME]
FATAL = [errno.EPERM, errno.EMSGSIZE, errno.EINVAL, errno.EAGAIN, errno.EPIPE, errno.ENOBUFS]
KINDS = ["udp", "udph", "gram"]


# --------------------------------------------------------------------------- doubles

class Wire:
    """what the far side of the socket sees, and the script of answers for the current call"""
    def __init__(self):
        self.script = []
        self.log = []
        self.recvs = []      # script of recvfrom answers for the current call
        self.taken = []      # non-empty datagrams handed over, in order

    def send(self, data, da):
        o = self.script.pop(0) if self.script else "k"
        if o == "k":
            self.log.append(("s", bytes(data), da))
            return len(data)
        self.log.append(("f", bytes(data), da, o))
        raise OSError(o, "scripted")


class FakeSock:
    """stands for socket.socket(AF_INET, SOCK_DGRAM) under udping.SocketUdpNb"""
    def __init__(self, wire):
        self.wire = wire
        self.addr = ("0.0.0.0", 0)

    def setsockopt(self, *a): pass
    def getsockopt(self, *a): return 1 << 20
    def setblocking(self, flag): pass
    def bind(self, ha): self.addr = (ha[0] or "0.0.0.0", ha[1] or 40001)
    def getsockname(self): return self.addr
    def close(self): pass
    def sendto(self, data, da): return self.wire.send(data, da)

    def recvfrom(self, n):
        o = self.wire.recvs.pop(0) if getattr(self.wire, "recvs", None) else "n"
        if o == "n":
            raise BlockingIOError(errno.EAGAIN, "nothing")
        if o[0] == "g":
            src, i = o[1:].split(":")
            self.wire.taken.append((int(i), int(src)))
            return (str(int(i)).encode("ascii"), ha_of(int(src)))
        if o[0] == "z":
            return (b"", ha_of(int(o[1:])))
        raise OSError(int(o), "scripted")


class SockShim:
    """replaces the name `socket` inside ioflo.aio.udp.udping for the duration of a case"""
    def __init__(self, real, wire):
        self._real, self._wire = real, wire

    def __getattr__(self, k):
        return getattr(self._real, k)

    def socket(self, *a, **k):
        return FakeSock(self._wire)


class HandlerDouble:
    """stands for the handler of a stack (same interface as SocketUdpNb)"""
    def __init__(self, wire):
        self.wire, self.opened, self.ha = wire, False, ("127.0.0.1", 40002)

    def reopen(self):
        self.opened = True
        return True

    def close(self): self.opened = False
    def send(self, data, da): return self.wire.send(data, da)
    def receive(self): return (b"", None)


def ha_of(d):
    return ("127.0.0.1", 7000 + d)


def dst_of(ha):
    return ha[1] - 7000


# --------------------------------------------------------------------------- case syntax

def parse_op(tok):
    k, rest = tok[0], tok[1:]
    if k in "tm":
        i, d = rest.split("@")
        return k, (int(i), int(d))
    if k in "POA":
        return k, [x if x == "k" else int(x) for x in rest.split(",")] if rest else []
    if tok in ("M", "c", "o"):
        return tok, None
    raise ValueError(tok)


def pid(b):
    """packet id from its payload; the empty payload (a legal zero-length datagram) is id 0"""
    return int(b) if len(b) else 0


def payload(i):
    return b"" if i == 0 else str(i).encode("ascii")


def show_pkts(l):
    return ",".join("%d@%d" % p for p in l)


def msgs_src(msgs, taken):
    """messages are plain texts; datagram ids are unique within a case, so the source is looked up in the log"""
    src = {}
    for i, d in taken:
        src.setdefault(i, d)
    return ["%d@%s" % (int(m), src.get(int(m), "?")) for m in msgs]


class CHECK(core.Check):
    PROPERTY = "C35"
    LEAN_MODULES = ["IofloModel.Props.C35"]
    ENGINE = "gram"
    N_QUICK = 1500
    N_THOROUGH = 40000
    N_SEARCH = 3000
    RULE = ("call sequences on a real UdpStack (over udping.SocketUdpNb on a fake socket: 'udp'; over a handler "
            "double: 'udph') or GramStack ('gram'): transmit/message of 1..8 packets over 1..4 destinations, "
            "serviceTxMsgs/serviceTxPkts/serviceAllTx/serviceTxPktsOnce with a scripted answer (ok or one of the 9 "
            "transient errnos; ~8% of cases also a non-transient errno = malformed stream) for each send, close/reopen; ~40% "
            "of cases hand the stack caller-supplied txPkts/txMsgs/rxPkts/rxMsgs deques, the producer appends to ITS deque and "
            "everything is observed through the caller's references (identity checked after every call); ~25% of cases "
            "contain an empty-payload packet (zero-length datagram, send returns 0) with a packet for the same destination "
            "behind it; "
            "bounded-exhaustive: every queue of <= 4 (quick) / <= 6 (thorough) packets over <= 3 destinations (one "
            "representative per renaming) x every ok/fail pattern of the first pass x every pattern of length <= 3 of "
            "the second pass, then a clean pass; every fifth random case exercises the receive side (stack 'rx': scripted "
            "recvfrom answers — datagrams from 1..3 sources, empty reads, zero-length datagrams, transient and other "
            "errnos — serviceReceives/serviceReceivesOnce/serviceRxPkts, remotes added). Non-trivial = a destination with >= 2 packets, at least one failed "
            "send and at least one accepted datagram; distinct by (stack kind, call sequence).")
    TRUSTED = ["correspondence: real UdpStack/GramStack (tree + fixes/D20-gramstack-break-reorders.patch) driven through "
               "a socket double vs Lean driver 'gram' on the same calls; compared: datagrams accepted/refused by the double, "
               "escaping exceptions, .txPkts/.txMsgs/.handler.opened after every call",
               "socket double: FakeSock under the real udping.SocketUdpNb (module name `socket` shimmed inside udping "
               "for the case) or a handler double; errno numbers are those of this Linux",
               "a script of answers denotes `script ++ ok ok ...` (both sides)"]
    PARTIAL = ["C35_per_destination_order_partial: order over histories that use serviceTxPktsOnce holds outside "
               "region onceReorders (known finding D20b: a failed serviceTxPktsOnce re-queues the packet behind its "
               "successor); C35_counterexample_once is the witness",
               "non-transient socket errors are outside the property (the model reproduces that the popped packet "
               "and the `laters` of the pass are lost when one escapes)",
               "receive side: a zero-length datagram ends the receive pass and is dropped (`if not raw: return False`); "
               "reproduced by the model, stated in C35_rx_* relative to non-empty datagrams",
               "real UDP sockets / kernel behaviour not modelled (environment = arbitrary script of answers)"]
    TECHNIQUE = ("Lean 4 theorems (loop invariant of the pass by induction on the queue; history theorems by induction "
                 "on the call sequence) + differential correspondence through socket doubles + direct oracle")
    LEVEL_TEXT = ("Full proofs on the model of the repaired loop for every queue, every history of transmit/message/"
                  "serviceTxMsgs/serviceTxPkts/serviceAllTx/close/reopen and every script of transient failures: "
                  "C35_each_sent_once (+ _never_sent_twice, _all_sent_when_drained; also with serviceTxPktsOnce and for the "
                  "unpatched loop), C35_per_destination_order, C35_pass_per_destination_order, "
                  "C35_other_destinations_not_blocked, C35_unfailed_destination_fully_served, "
                  "C35_one_failure_per_destination_per_pass, C35_drains. C35_counterexample_asis(_blocked): the unpatched "
                  "loop violates order and blocks (D20, repaired by the fix patch). Partial: with serviceTxPktsOnce order "
                  "holds only outside region onceReorders (C35_per_destination_order_partial, C35_counterexample_once; "
                  "known finding D20b). Receive side (extra): C35_rx_each_datagram_once, C35_rx_messages_in_order, "
                  "C35_rx_transient_errors_do_not_escape, C35_rx_pass_takes_all.")
    LEVEL_NOTE = ("Trusted: Lean kernel; axioms propext, Classical.choice, Quot.sound; the hand transcription of "
                  "GramStack's transmit side, validated by the correspondence runs through socket doubles (bounded-exhaustive "
                  "queues <= 6 packets / 3 destinations with all failure patterns, plus random histories); the doubles; "
                  "the kernel's UDP is not modelled.")

    # ---- generation
    def _rgs(self, n, kmax):
        """destination assignments up to renaming (restricted growth strings with <= kmax values)"""
        def go(prefix, m):
            if len(prefix) == n:
                yield list(prefix)
                return
            for v in range(min(m + 1, kmax)):
                yield from go(prefix + [v], max(m, v + 1))
        return go([], 0)

    def exhaustive(self, tier):
        nmax = 6 if tier == "thorough" else 4
        kinds = itertools.cycle(KINDS)
        for n in range(1, nmax + 1):
            for dsts in self._rgs(n, 3):
                tx = ["t%d@%d" % (i + 1, d) for i, d in enumerate(dsts)]
                for pat1 in itertools.product(["k", "111"], repeat=n):
                    for m in range(0, min(n, 3) + 1):
                        for pat2 in itertools.product(["k", "110"], repeat=m):
                            if m and pat2[-1] == "k":
                                continue      # same as the shorter script
                            kd = next(kinds)
                            yield {"stack": kd, "share": (n + m + len(pat1)) % 2 == 1,
                                   "ops": tx + ["P" + ",".join(pat1), "P" + ",".join(pat2), "P"]}
                            if n <= 3 and m == 0:     # the same queue with an empty-payload packet at its head
                                yield {"stack": kd, "share": n % 2 == 0,
                                       "ops": ["t0@%d" % dsts[0]] + tx + ["P" + ",".join(("k",) + pat1), "P", "P"]}

    def _script(self, rng, n, pfail, fatal):
        out = []
        for _ in range(rng.randrange(n + 2)):
            r = rng.random()
            if fatal and r < 0.08:
                out.append(str(rng.choice(FATAL)))
            elif r < pfail:
                out.append(str(rng.choice(TRANSIENT)))
            else:
                out.append("k")
        return ",".join(out)

    def _case(self, rng, allow_once=True, allow_fatal=True):
        kind = rng.choice(KINDS)
        ndst = rng.choice([1, 2, 2, 3, 3, 4])
        npk = rng.randrange(1, 9)
        fatal = allow_fatal and rng.random() < 0.08
        once = allow_once and rng.random() < 0.25
        pfail = rng.choice([0.15, 0.35, 0.6])
        ops, nid, queued = [], 0, 0
        # destinations are skewed so that several packets share one
        weights = [rng.random() ** 2 + 0.05 for _ in range(ndst)]
        while nid < npk:
            nid += 1
            d = rng.choices(range(ndst), weights)[0]
            ops.append(("m" if kind != "gram" and rng.random() < 0.3 else "t") + "%d@%d" % (nid, d))
            queued += 1
            if rng.random() < 0.25:
                ops.append(self._service(rng, kind, queued, pfail, fatal, once))
            if rng.random() < 0.06:
                ops.append(rng.choice(["c", "o", "c"]))
        for _ in range(rng.randrange(1, 4)):
            ops.append(self._service(rng, kind, queued, pfail, fatal, once))
        if rng.random() < 0.25:
            # an empty-payload packet (a legal zero-length datagram, e.g. a keep-alive) somewhere in the queue, with a
            # packet for the same destination behind it
            d = rng.randrange(ndst)
            pos = rng.randrange(0, len(ops) + 1)
            empty = ("m" if kind != "gram" and rng.random() < 0.3 else "t") + "0@%d" % d
            ops[pos:pos] = [empty, "t%d@%d" % (npk + 1, d)]
        if rng.random() < 0.7:
            ops += ["o", "A" if kind != "gram" else "P"]
        return {"stack": kind, "ops": ops, "share": rng.random() < 0.4}

    def _service(self, rng, kind, n, pfail, fatal, once):
        r = rng.random()
        if once and r < 0.5:
            return "O" + self._script(rng, 1, pfail, fatal)
        if kind != "gram" and r < 0.75:
            return rng.choice(["A" + self._script(rng, n, pfail, fatal), "M"])
        return "P" + self._script(rng, n, pfail, fatal)

    def _rx_case(self, rng):
        nsrc = rng.randrange(1, 4)
        ops, nid = [], 0
        known = [d for d in range(nsrc) if rng.random() < 0.7]
        for d in known[:1]:
            ops.append("r%d" % d)
        for _ in range(rng.randrange(2, 10)):
            r = rng.random()
            if r < 0.6:
                sc = []
                for _ in range(rng.randrange(0, 6)):
                    x = rng.random()
                    if x < 0.65:
                        nid += 1
                        sc.append("g%d:%d" % (rng.randrange(nsrc), nid))
                    elif x < 0.75:
                        sc.append("n")
                    elif x < 0.80:
                        sc.append("z%d" % rng.randrange(nsrc))
                    elif x < 0.95:
                        sc.append(str(rng.choice(TRANSIENT)))
                    else:
                        sc.append(str(rng.choice(FATAL[:3] + [errno.ENOBUFS])))
                ops.append(("V" if rng.random() < 0.8 else "W") + ",".join(sc))
            elif r < 0.8:
                ops.append("K")
            elif r < 0.92 and len(known) > 1:
                ops.append("r%d" % rng.choice(known))
            else:
                ops.append(rng.choice(["c", "o"]))
        ops += ["o", "V", "K"]
        return {"stack": "rx", "ops": ops, "share": rng.random() < 0.4}

    def generate(self, rng, n, tier):
        for i in range(n):
            yield self._rx_case(rng) if i % 5 == 4 else self._case(rng)

    def search(self, rng, n, tier):
        # the property's own quantifier: transient failures only, full passes
        for _ in range(n):
            yield self._case(rng, allow_once=rng.random() < 0.3, allow_fatal=False)

    # ---- implementation
    def impl(self, case):
        import socket as real_socket
        from ioflo.aio.udp import udping
        from ioflo.aio.proto import stacking, packeting, devicing
        kind = case["stack"]
        wire = Wire()
        if kind == "rx":
            return self._impl_rx(case, wire)
        saved = udping.socket
        try:
            from collections import deque
            share = bool(case.get("share"))
            # caller-supplied queues (documented constructor arguments): the producer keeps its own references
            boxes = dict(txPkts=deque(), txMsgs=deque(), rxPkts=deque(), rxMsgs=deque()) if share else {}
            if kind == "udp":
                udping.socket = SockShim(real_socket, wire)
                stack = stacking.UdpStack(ha=("127.0.0.1", 40001), **boxes)
            elif kind == "udph":
                stack = stacking.UdpStack(handler=HandlerDouble(wire), ha=("127.0.0.1", 40002), **boxes)
            elif kind == "gram":
                stack = stacking.GramStack(handler=HandlerDouble(wire), ha=("127.0.0.1", 40002), **boxes)
            else:
                return ["bad-op"]
            # everything is observed through references taken NOW (the caller's own, or a saved alias)
            outbox, msgbox = stack.txPkts, stack.txMsgs
            if share and (outbox is not boxes["txPkts"] or msgbox is not boxes["txMsgs"]):
                return ["HARNESS-EXC the stack does not use the queues it was given"]
            remotes = {}
            out = []
            for tok in case["ops"]:
                try:
                    k, arg = parse_op(tok)
                except Exception:
                    return ["bad-op"]
                wire.script = list(arg) if k in "POA" else []
                mark = len(wire.log)
                exc = None
                try:
                    if k == "t":
                        pk = packeting.Packet(stack=stack, packed=payload(arg[0]))
                        if share and arg[0] % 2:          # the producer appends to ITS queue
                            pk.pack()
                            outbox.append((pk, ha_of(arg[1])))
                        else:
                            stack.transmit(pk, ha_of(arg[1]))
                    elif k == "m":
                        if kind == "gram":
                            return ["bad-op"]     # the abstract GramStack has no usable message path
                        d = arg[1]
                        if d not in remotes:
                            remotes[d] = devicing.IpRemoteDevice(stack, ha=ha_of(d))
                            stack.addRemote(remotes[d])
                        text = "" if arg[0] == 0 else str(arg[0])
                        if share and arg[0] % 2:
                            msgbox.append((text, remotes[d]))
                        else:
                            stack.message(text, remotes[d])
                    elif k == "M":
                        stack.serviceTxMsgs()
                    elif k == "P":
                        stack.serviceTxPkts()
                    elif k == "O":
                        stack.serviceTxPktsOnce()
                    elif k == "A":
                        stack.serviceAllTx()
                    elif k == "c":
                        stack.close()
                    elif k == "o":
                        stack.reopen()
                except OSError as ex:
                    exc = "x%s" % (ex.args[0] if ex.args else "?")
                except Exception as ex:
                    exc = "x" + type(ex).__name__
                evs = []
                for rec in wire.log[mark:]:
                    if rec[0] == "s":
                        evs.append("s%d@%d" % (pid(rec[1]), dst_of(rec[2])))
                    else:
                        evs.append("f%d@%d!%d" % (pid(rec[1]), dst_of(rec[2]), rec[3]))
                if exc:
                    evs.append(exc)
                q = [(pid(p.packed), dst_of(ha)) for p, ha in outbox]
                if kind == "gram":
                    m = []
                else:
                    m = [(pid(msg), dst_of(r.ha)) for msg, r in msgbox]
                rebound = "" if (stack.txPkts is outbox and stack.txMsgs is msgbox) else " !rebound"
                out.append("%s ; Q=%s M=%s o=%d%s" % (" ".join(evs) or "-", show_pkts(q), show_pkts(m),
                                                      1 if stack.handler.opened else 0, rebound))
            return out or ["-"]
        finally:
            udping.socket = saved

    def _impl_rx(self, case, wire):
        """receive side: real UdpStack over real SocketUdpNb whose recvfrom is scripted"""
        import socket as real_socket
        from ioflo.aio.udp import udping
        from ioflo.aio.proto import stacking, devicing
        saved = udping.socket
        udping.socket = SockShim(real_socket, wire)
        try:
            from collections import deque
            boxes = dict(rxPkts=deque(), rxMsgs=deque(), txPkts=deque(), txMsgs=deque()) if case.get("share") else {}
            stack = stacking.UdpStack(ha=("127.0.0.1", 40001), **boxes)
            inbox, rmsgs = stack.rxPkts, stack.rxMsgs       # the consumer's own references
            if boxes and (inbox is not boxes["rxPkts"] or rmsgs is not boxes["rxMsgs"]):
                return ["HARNESS-EXC the stack does not use the queues it was given"]
            out = []
            for tok in case["ops"]:
                k, arg = tok[0], tok[1:]
                wire.recvs = []
                err = "ok"
                try:
                    if k == "r":
                        if ha_of(int(arg)) not in stack.haRemotes:
                            stack.addRemote(devicing.IpRemoteDevice(stack, ha=ha_of(int(arg))))
                    elif k in "VW":
                        wire.recvs = [x for x in arg.split(",") if x]
                        (stack.serviceReceives if k == "V" else stack.serviceReceivesOnce)()
                    elif tok == "K":
                        stack.serviceRxPkts()
                    elif tok == "c":
                        stack.close()
                    elif tok == "o":
                        stack.reopen()
                    else:
                        return ["bad-op"]
                except OSError as ex:
                    err = "x%s" % (ex.args[0] if ex.args else "?")
                except Exception as ex:
                    err = "x" + type(ex).__name__
                pk = [(int(p.packed), dst_of(ha)) for p, ha in inbox]
                # every message carries its text only; the source is recovered from the packets popped so far
                msgs = list(rmsgs)
                rebound = "" if (stack.rxPkts is inbox and stack.rxMsgs is rmsgs) else " !rebound"
                out.append("%s ; P=%s G=%s T=%s o=%d%s" % (err, show_pkts(pk), ",".join(msgs_src(msgs, wire.taken)),
                                                           show_pkts(wire.taken), 1 if stack.handler.opened else 0, rebound))
            return out or ["-"]
        finally:
            udping.socket = saved

    # ---- model
    def requests(self, case):
        if case["stack"] == "rx":
            return ["rx " + " ".join(case["ops"])]
        return ["run repaired " + " ".join(case["ops"])]

    def model_post(self, case, replies):
        return replies[0].split(" | ")

    # ---- oracle: the property, on the implementation's observable behaviour
    @staticmethod
    def _transient_only(case):
        for tok in case["ops"]:
            if tok[0] in "POA" and tok[1:]:
                for x in tok[1:].split(","):
                    if x != "k" and int(x) not in TRANSIENT:
                        return False
        return True

    def oracle(self, case, out):
        if out and (out[0] == "bad-op" or out[0].startswith("HARNESS-EXC")):
            return None if out[0] == "bad-op" else out[0]
        for tok, line in zip(case["ops"], out):
            if line.endswith("!rebound"):
                return ("after call %s the stack no longer uses the queue object it had (a caller-supplied deque or a "
                        "saved reference is orphaned)" % tok[:14])
        if case["stack"] == "rx":
            return self._oracle_rx(case, out)
        if not self._transient_only(case):
            return None                      # outside the property's quantifier
        ops = case["ops"]
        if len(out) != len(ops):
            return "implementation answered %d of %d calls" % (len(out), len(ops))
        entered, pending, submitted, sent = [], [], [], []
        opened = True
        for tok, line in zip(ops, out):
            evs, st = line.split(" ; ")
            evs = [] if evs == "-" else evs.split(" ")
            qs, ms, o = st.split(" ")
            q = [tuple(map(int, x.split("@"))) for x in qs[2:].split(",") if x]
            k = tok[0]
            if k == "t":
                i, d = tok[1:].split("@"); entered.append((int(i), int(d))); submitted.append((int(i), int(d)))
            elif k == "m":
                i, d = tok[1:].split("@"); pending.append((int(i), int(d))); submitted.append((int(i), int(d)))
            elif k in "MA":
                entered += pending; pending = []
            failed_here = set()
            for e in evs:
                if e[0] == "x":
                    return "call %s: exception %s escaped although every failure was transient" % (tok, e[1:])
                if e[0] == "s":
                    sent.append(tuple(map(int, e[1:].split("@"))))
                if e[0] == "f":
                    failed_here.add(int(e[1:].split("!")[0].split("@")[1]))
            if k in "PA" and opened:
                held = [p for p in q if p[1] not in failed_here]
                if held:
                    return ("call %s: packet %d to destination %d was held back although no send to %d failed in "
                            "this pass" % (tok, held[0][0], held[0][1], held[0][1]))
            opened = (o == "o=1")
            # per-destination order, after every call
            for d in set(p[1] for p in entered):
                got = [p for p in sent if p[1] == d] + [p for p in q if p[1] == d]
                want = [p for p in entered if p[1] == d]
                if got != want:
                    return ("after call %s destination %d: sent+queued %s, queued order %s"
                            % (tok, d, [p[0] for p in got], [p[0] for p in want]))
        ms_final = [tuple(map(int, x.split("@"))) for x in ms[2:].split(",") if x]
        if sorted(sent + q + ms_final) != sorted(submitted):
            return "sent %s + queued %s + msgs %s is not the multiset submitted %s" % (sent, q, ms_final, submitted)
        return None

    def _oracle_rx(self, case, out):
        """every datagram the socket handed over is in exactly one received packet, with its source, in arrival order;
        packets of sources with a remote become messages in order; transient receive errors do not escape"""
        if len(out) != len(case["ops"]):
            return "implementation answered %d of %d calls" % (len(out), len(case["ops"]))
        popped, remotes, want_msgs = [], set(), []
        prevP = []
        for tok, line in zip(case["ops"], out):
            err, st = line.split(" ; ")
            f = dict(x.split("=", 1) for x in st.split(" "))
            P = [x for x in f["P"].split(",") if x]
            G = [x for x in f["G"].split(",") if x]
            T = [x for x in f["T"].split(",") if x]
            if tok[0] == "r":
                remotes.add(tok[1:])
            if tok == "K":
                popped += prevP
                want_msgs += [x for x in prevP if x.split("@")[1] in remotes]
            if err != "ok":
                code = err[1:]
                if not code.isdigit() or int(code) in TRANSIENT:
                    return "call %s: %s escaped" % (tok[:14], err)
            if popped + P != T:
                return "after %s: packets delivered %s != datagrams received %s" % (tok[:14], popped + P, T)
            if G != want_msgs:
                return "after %s: messages %s, expected %s" % (tok[:14], G, want_msgs)
            prevP = P
        return None

    def nontrivial(self, case, out):
        if case["stack"] == "rx":
            return any("T=" in l and l.split("T=")[1].split(" ")[0].count(",") >= 1 for l in out)
        if not out or " ; " not in out[0]:
            return False
        per, anyf, anys = {}, False, False
        for tok in case["ops"]:
            if tok[0] in "tm":
                d = tok.split("@")[1]
                per[d] = per.get(d, 0) + 1
        for line in out:
            evs = line.split(" ; ")[0].split(" ")
            anyf = anyf or any(e.startswith("f") for e in evs)
            anys = anys or any(e.startswith("s") for e in evs)
        return anyf and anys and max(per.values() or [0]) >= 2

    def bucket(self, case, out):
        if case["stack"] == "rx":
            tags = ["rx"]
            if any(l.startswith("x") for l in out):
                tags.append("raised")
            if any(t[0] in "VW" and any(x.isdigit() for x in t[1:].split(",")) for t in case["ops"]):
                tags.append("errors")
            return "/".join(tags)
        ops = case["ops"]
        npk = sum(1 for t in ops if t[0] in "tm")
        nd = len(set(t.split("@")[1] for t in ops if t[0] in "tm"))
        tags = [case["stack"], "pk%s" % ("1-2" if npk <= 2 else "3-4" if npk <= 4 else "5-8"), "d%d" % nd]
        if any(t[0] == "O" for t in ops):
            tags.append("once")
        if not self._transient_only(case):
            tags.append("fatal")
        if any(" x" in l or l.startswith("x") for l in out):
            tags.append("raised")
        if any(l.split(" ; ")[0] != "-" and any(e.startswith("f") for e in l.split(" ; ")[0].split(" ")) for l in out if " ; " in l):
            tags.append("failures")
        return "/".join(tags)

    def region(self, finding, case):
        if finding.get("id") == "D20b":
            r = core.Driver(self.ENGINE).run(["region D20b " + " ".join(case["ops"])])
            return r == ["true"]
        return False

    def shrink_candidates(self, case):
        """smaller variants that stay outside the region of known finding D20b"""
        ops = case["ops"]
        cands = []
        for i in range(len(ops)):
            cands.append(dict(case, ops=ops[:i] + ops[i + 1:]))
        for i, t in enumerate(ops):
            if t[0] in "POA" and "," in t:
                parts = t[1:].split(",")
                for j in range(len(parts)):
                    cands.append(dict(case, ops=ops[:i] + [t[0] + ",".join(parts[:j] + parts[j + 1:])] + ops[i + 1:]))
            if t[0] in "POA" and t[1:]:
                parts = t[1:].split(",")
                for j in range(len(parts)):
                    if parts[j] != "k":
                        cands.append(dict(case, ops=ops[:i] + [t[0] + ",".join(parts[:j] + ["k"] + parts[j + 1:])] + ops[i + 1:]))
        cands = [c for c in cands if c["ops"]]
        if not cands:
            return
        if case["stack"] == "rx":
            yield from cands
            return
        if any(t[0] == "O" for t in ops):
            rep = core.Driver(self.ENGINE).run(["region D20b " + " ".join(c["ops"]) for c in cands])
        else:
            rep = ["false"] * len(cands)
        for c, r in zip(cands, rep):
            if r == "false":
                yield c
