"""C36 — stream stacks deliver every queued packet to the peer intact.
Model: lean/IofloModel/Model/StreamStack.lean (TcpClientStack / TcpServerStack of ioflo/aio/proto/stacking.py over
       tcp/clienting.Client and tcp/serving.Server/Incomer)
Theorems: lean/IofloModel/Props/C36.lean
Tie: the real stacks over the real Client / Server / Incomer, whose sockets are doubles (module name `socket`
     shimmed inside clienting / serving for the case) that answer every send / recv from the script of the call;
     compared after every call: bytes the double accepted (per connection), .txbs/.txPkts/.txes, .rxbs/.rxPkts,
     connected/cutoff flags, exception class.
Oracle (independent of the model): bytes accepted by a connection's socket are always a prefix of what was queued
     for it, accepted + pending = queued, pending drains when the socket accepts; received packets + buffer = bytes
     delivered, in order.
The tree this check is meant for: /repo + fixes D21, D21b, D21c, D21d."""
import errno, itertools
import core

LOSS = [errno.ECONNRESET, errno.ENETRESET, errno.ENETUNREACH, errno.EHOSTUNREACH, errno.ENETDOWN,
        errno.EHOSTDOWN, errno.ETIMEDOUT, errno.ECONNREFUSED]
OTHER = [errno.EPERM, errno.EINVAL, errno.ENOBUFS, errno.EPIPE]
SRV_HA = ("127.0.0.1", 7000)


def hx(b):
    return bytes(b).hex() if b else "-"


def unhx(s):
    return b"" if s == "-" else bytes.fromhex(s)


# --------------------------------------------------------------------------- socket doubles

class FakeStreamSock:
    """a connected (or connecting) TCP socket: answers send/recv from the script set for the current call"""
    n_loss = 0

    def __init__(self, peer=SRV_HA, name=("127.0.0.1", 50001)):
        self.peer, self.name = peer, name
        self.sends, self.recvs = [], []
        self.wire = bytearray()       # bytes accepted by send, in order
        self.delivered = bytearray()  # bytes handed out by recv

    def setsockopt(self, *a): pass
    def getsockopt(self, *a): return 1 << 22
    def setblocking(self, flag): pass
    def connect_ex(self, ha): return 0
    def getsockname(self): return self.name
    def getpeername(self): return self.peer
    def shutdown(self, how): pass
    def close(self): pass

    def _loss(self):
        FakeStreamSock.n_loss += 1
        return LOSS[FakeStreamSock.n_loss % len(LOSS)]

    def send(self, data):
        o = self.sends.pop(0) if self.sends else "w"
        if o[0] == "a":
            k = min(int(o[1:]), len(data))
            self.wire += bytes(data[:k])
            return k
        if o == "w":
            raise BlockingIOError(errno.EAGAIN, "would block")
        if o == "l":
            raise OSError(self._loss(), "lost")
        raise OSError(OTHER[len(self.wire) % len(OTHER)], "other")

    def recv(self, bs):
        o = self.recvs.pop(0) if self.recvs else "w"
        if o[0] == "d":
            b = unhx(o[1:])
            self.delivered += b
            return b
        if o == "w":
            raise BlockingIOError(errno.EAGAIN, "would block")
        if o == "l":
            raise OSError(self._loss(), "lost")
        raise OSError(OTHER[len(self.delivered) % len(OTHER)], "other")


class FakeListenSock:
    def __init__(self, pending):
        self.pending = pending
        self.ha = SRV_HA

    def setsockopt(self, *a): pass
    def getsockopt(self, *a): return 1 << 22
    def setblocking(self, flag): pass
    def bind(self, ha): self.ha = ha
    def listen(self, n): pass
    def getsockname(self): return self.ha
    def shutdown(self, how): pass
    def close(self): pass

    def accept(self):
        if self.pending:
            return self.pending.pop(0)
        raise BlockingIOError(errno.EAGAIN, "nothing pending")


class Shim:
    def __init__(self, real, factory):
        self._real, self._factory = real, factory

    def __getattr__(self, k):
        return getattr(self._real, k)

    def socket(self, *a, **k):
        return self._factory()


class StreamHandlerDouble:
    """stands for the handler of a ClientStreamStack used directly (any stream transport): send returns the number of
    bytes taken (0 = blocked), receive returns bytes or None"""
    def __init__(self):
        self.opened = False
        self.ha = SRV_HA
        self.sends, self.recvs = [], []
        self.wire = bytearray()
        self.delivered = bytearray()

    def reopen(self):
        self.opened = True
        return True

    def close(self): self.opened = False

    def send(self, data):
        o = self.sends.pop(0) if self.sends else "w"
        if o[0] == "a":
            k = min(int(o[1:]), len(data))
            self.wire += bytes(data[:k])
            return k
        if o == "w":
            return 0
        raise OSError(OTHER[len(self.wire) % len(OTHER)], "other")

    def receive(self):
        o = self.recvs.pop(0) if self.recvs else "w"
        if o[0] == "d" and o != "d-":
            b = unhx(o[1:])
            self.delivered += b
            return b
        if o == "w":
            return None
        raise OSError(OTHER[len(self.delivered) % len(OTHER)], "other")


def boxes_for(case):
    """caller-supplied containers (documented constructor arguments) when the case says `share`"""
    from collections import deque
    if not case.get("share"):
        return {}
    return dict(txPkts=deque(), rxPkts=deque(), txbs=bytearray(), rxbs=bytearray())


class Held:
    """the caller's references to a stack's queues and buffers, taken right after construction"""
    def __init__(self, stack, boxes):
        self.stack = stack
        self.txPkts, self.rxPkts, self.txbs, self.rxbs = stack.txPkts, stack.rxPkts, stack.txbs, stack.rxbs
        self.given_ok = all(getattr(stack, k) is v for k, v in boxes.items())

    def rebound(self):
        s = self.stack
        same = (s.txPkts is self.txPkts and s.rxPkts is self.rxPkts and s.txbs is self.txbs and s.rxbs is self.rxbs
                and self.given_ok)
        return "" if same else " !rebound"


def expand(case):
    """ops with every `u` (queue the SAME Packet object again) written as the `t` it repeats: the bytes the packet had
    when it was made — what the peer must receive however often and to whomever the object is queued"""
    made, out = [], []
    srv = case["kind"] == "srv"
    for tok in case["ops"]:
        if tok[0] == "t":
            made.append(tok[1:].split(":")[1] if srv else tok[1:])
            out.append(tok)
        elif tok[0] == "u":
            if srv:
                ca, idx = tok[1:].split(":")
                if not made:
                    made.append("-")
                out.append("t%s:%s" % (ca, made[int(idx) % len(made)]))
            else:
                if not made:
                    made.append("-")
                out.append("t" + made[int(tok[1:]) % len(made)])
        else:
            out.append(tok)
    return out


class Pool:
    """the caller's Packet objects: made once, possibly queued many times; must read unchanged afterwards"""
    def __init__(self, packeting, stack):
        self.packeting, self.stack, self.made = packeting, stack, []

    def new(self, data):
        pk = self.packeting.Packet(stack=self.stack, packed=data)      # .packed is a bytearray
        self.made.append((pk, bytes(data)))
        return pk

    def again(self, idx):
        if not self.made:
            return self.new(b"")
        return self.made[idx % len(self.made)][0]

    def mutated(self):
        return "" if all(bytes(pk.packed) == orig for pk, orig in self.made) else " !mutated"


def ca_of(n):
    return ("127.0.0.1", 6000 + n)


def n_of(ca):
    return ca[1] - 6000


# --------------------------------------------------------------------------- the check

class CHECK(core.Check):
    PROPERTY = "C36"
    LEAN_MODULES = ["IofloModel.Props.C36"]
    ENGINE = "streamstack"
    N_QUICK = 1200
    N_THOROUGH = 30000
    N_SEARCH = 3000
    RULE = ("call sequences on a real TcpClientStack (kind cli), a ClientStreamStack over a plain handler double (kind cs: the "
            "base Stack loops) or TcpServerStack with 1..3 connections (kind srv): "
            "transmit of 1..6 packets of 0..6 bytes (empty packets included; .packed is a bytearray), the SAME Packet object queued again / to several peers (op u) with the caller's objects checked unchanged after every call, ~40% of cases with caller-supplied txPkts/rxPkts deques and txbs/rxbs bytearrays (the producer appends to ITS deque; everything observed through the caller's references, identity checked after every call), service calls whose every socket send/recv is answered from a script "
            "(accept k bytes, would block, connection lost, ~5% other error = malformed; data chunks, close), arbitrary "
            "interleavings of serviceTxPkts / serviceTxesAllIx / serviceReceivesAllIx / serviceReceives / serviceConnects; "
            "base Packet (whole buffer) in ~80% and a length-prefixed Packet subclass (parserize override) in ~20%. "
            "Bounded-exhaustive: one Packet object queued to two peers / twice, every pair of cuts of the first send on each connection; client stack, <= 2 packets of <= 3 bytes x every script of <= 3 answers from "
            "{a1,a2,a9,w,l} for two service calls (quick: first call only). Non-trivial = at least one partial send or "
            "would-block and at least 2 bytes delivered in some direction; distinct by call sequence.")
    TRUSTED = ["correspondence: real stacking.TcpClientStack/TcpServerStack over real clienting.Client, serving.Server/Incomer "
               "(tree + fixes D21, D21b, D21c, D21d) with socket doubles vs Lean driver 'streamstack'; compared after every call: bytes "
               "accepted by each double, .txbs/.txPkts/.txes, .rxbs/.rxPkts, connected/cutoff, exception class",
               "socket doubles (send/recv/accept answered from scripts; exhausted script = would block); the kernel's TCP is "
               "not modelled; loopback runs are extra evidence only (extra_evidence.loopback)",
               "Packet.parse is a parameter of the model: whole-buffer (base Packet) and one length-prefixed subclass are exercised"]
    PARTIAL = ["packet boundaries are not preserved by the base Packet (a stream has no framing): 'intact' is proved as "
               "byte-for-byte order and exactly-once per connection, relative to the parser parameter",
               "client stack with a framing parser: a second complete packet already in .rxbs waits until more data arrives "
               "(_serviceOneReceived parses once per reception) — example in Props/C36.lean, not a claim about the base Packet",
               "non-transient socket errors (script answer f) lose the popped data in Incomer.serviceTxes: outside the "
               "property's fault model, reproduced by the model, excluded from the theorems by hypothesis noFail",
               "duplicate accepts of a connected address (C26/D14), idle timeouts (C28), TLS and reconnection (C27) are outside this model"]
    TECHNIQUE = ("Lean 4 theorems (history invariants `accepted ++ pending = queued`, `packets ++ buffer = delivered` by "
                 "induction over call sequences and loop structure) + differential correspondence through socket doubles + "
                 "direct oracle + loopback smoke run")
    LEVEL_TEXT = ("Full proofs on the model of the repaired stacks, for every history of calls, every interleaving and every "
                  "script of socket answers without non-transient errors: C36_client_bytes_in_order, C36_server_bytes_in_order "
                  "(per connection: bytes accepted by the socket ++ .txbs/.txes ++ queued packets = bytes handed to transmit, so "
                  "no loss, duplication or reordering), C36_client_drains / C36_server_drains (everything reaches the socket "
                  "once it accepts), C36_client_rx_each_byte_once, C36_server_rx_each_byte_once (received packets ++ buffer = "
                  "bytes delivered, any parser), C36_*_rx_complete (whole-buffer parser leaves nothing behind), "
                  "C36_framed_packets_recovered (a length-prefixed stream is cut into exactly its packets), "
                  "C36_server_queue_moves, C36_server_addresses_distinct. "
                  "Counterexamples for the unpatched tree: C36_counterexample_asis_server_send (D21 TypeError), "
                  "_server_accept (D21b NameError), _client_tail_stuck (D21c).")
    LEVEL_NOTE = ("Trusted: Lean kernel; axioms propext, Classical.choice, Quot.sound; the hand transcription of the two stacks and "
                  "the transport loops under them, validated by the correspondence runs through socket doubles; the doubles; "
                  "real TCP only as a loopback smoke run.")

    # ---- generation helpers
    def _data(self, rng, lo=0, hi=6):
        return bytes(rng.randrange(256) for _ in range(rng.randrange(lo, hi + 1)))

    def _sends(self, rng, n, fail):
        out = []
        for _ in range(rng.randrange(0, n + 2)):
            r = rng.random()
            if fail and r < 0.05:
                out.append("f")
            elif r < 0.12:
                out.append("l")
            elif r < 0.30:
                out.append("w")
            elif r < 0.6:
                out.append("a%d" % rng.randrange(0, 5))
            else:
                out.append("a%d" % rng.choice([6, 7, 64]))
        return ",".join(out)

    def _chunks(self, rng, stream):
        out, i = [], 0
        while i < len(stream):
            k = rng.randrange(1, 5)
            out.append(stream[i:i + k])
            i += k
        return out

    def _recvs(self, rng, framed, fail):
        if framed:
            stream = b"".join(bytes([len(d)]) + d for d in (self._data(rng, 0, 4) for _ in range(rng.randrange(0, 4))))
            if rng.random() < 0.3:
                stream += bytes([rng.randrange(1, 5)])       # an incomplete frame
        else:
            stream = self._data(rng, 0, 10)
        out = []
        for ch in self._chunks(rng, stream):
            out.append("d" + hx(ch))
            r = rng.random()
            if r < 0.25:
                out.append("w")
            elif r < 0.29:
                out.append("l")
            elif fail and r < 0.33:
                out.append("f")
        r = rng.random()
        if r < 0.1:
            out.append("d-")
        elif r < 0.2:
            out.append("w")
        return ",".join(out)

    def _cli_case(self, rng, fail_ok=True):
        framed = rng.random() < 0.2
        fail = fail_ok and rng.random() < 0.15
        ops = []
        if rng.random() < 0.1:
            ops.append("t" + hx(self._data(rng)))
            ops.append("P" + self._sends(rng, 2, fail))
        ops.append("c")
        npk = 0
        for _ in range(rng.randrange(2, 12)):
            r = rng.random()
            if r < 0.35:
                ops.append("t" + hx(self._data(rng)))
                npk += 1
                if rng.random() < 0.3:              # the SAME Packet object queued again
                    ops.append("u%d" % rng.randrange(npk))
                    npk += 1
            elif r < 0.65:
                ops.append("P" + self._sends(rng, npk, fail))
            elif r < 0.72:
                ops.append("O" + self._sends(rng, 1, fail))
            else:
                ops.append("R" + self._recvs(rng, framed, fail))
        if rng.random() < 0.6:
            ops += ["Pa64,a64,a64,a64,a64,a64,a64,a64", "R"]
        return {"kind": "cli", "parser": "framed" if framed else "whole", "ops": ops, "share": rng.random() < 0.4}

    def _srv_case(self, rng, fail_ok=True):
        framed = rng.random() < 0.2
        fail = fail_ok and rng.random() < 0.15
        ncon = rng.randrange(1, 4)
        ops, live = [], []
        fresh = list(range(1, ncon + 1))
        if rng.random() < 0.1:
            ops.append("t%d:%s" % (fresh[0], hx(self._data(rng))))
        for _ in range(rng.randrange(3, 16)):
            r = rng.random()
            if fresh and (not live or r < 0.15):
                ca = fresh.pop(0)
                live.append(ca)
                ops.append("a%d" % ca)
            elif r < 0.40:
                ca = rng.choice(live if rng.random() < 0.95 else [9])
                ops.append("t%d:%s" % (ca, hx(self._data(rng, 1, 6))))
                if rng.random() < 0.4:              # the SAME Packet object to another peer (broadcast) or once more
                    for other in (live if rng.random() < 0.5 else [rng.choice(live)]):
                        ops.append("u%d:%d" % (other, rng.randrange(8)))
            elif r < 0.55:
                ops.append("P")
            elif r < 0.70:
                ops.append("X" + ";".join("%d=%s" % (ca, self._sends(rng, 3, fail)) for ca in live if rng.random() < 0.8))
            elif r < 0.85:
                ops.append("V" + ";".join("%d=%s" % (ca, self._recvs(rng, framed, fail)) for ca in live if rng.random() < 0.8))
            elif r < 0.95:
                ops.append("S")
            else:
                ops.append("C")
        if rng.random() < 0.6:
            ops += ["P", "X" + ";".join("%d=a64,a64,a64,a64,a64,a64,a64,a64" % ca for ca in range(1, ncon + 1)), "S"]
        return {"kind": "srv", "parser": "framed" if framed else "whole", "ops": ops, "share": rng.random() < 0.4}

    def _cs_case(self, rng, fail_ok=True):
        """a ClientStreamStack over a plain handler: the client generator without connection loss"""
        c = self._cli_case(rng, fail_ok)
        ops = ["c"]
        for t in c["ops"]:
            if t == "c":
                continue
            if t[0] in "POR":
                t = t[0] + ",".join(x for x in t[1:].split(",") if x not in ("l", "d-"))
            ops.append(t)
        return {"kind": "cs", "parser": c["parser"], "ops": ops, "share": c.get("share", False)}

    def generate(self, rng, n, tier):
        for _ in range(n):
            r = rng.random()
            yield self._cli_case(rng) if r < 0.35 else self._cs_case(rng) if r < 0.5 else self._srv_case(rng)

    def search(self, rng, n, tier):
        for _ in range(n):
            r = rng.random()
            yield (self._cli_case(rng, False) if r < 0.35 else self._cs_case(rng, False) if r < 0.5
                   else self._srv_case(rng, False))

    def exhaustive(self, tier):
        yield from self._broadcast_cuts(tier)
        answers = ["a1", "a2", "a9", "w", "l"]
        pk_sets = [[b"\x01"], [b"\x01\x02\x03"], [b"\x01\x02", b"\x03"], [b"\x01", b"\x02\x03\x04"]]
        scripts = [",".join(s) for n in range(0, 4) for s in itertools.product(answers, repeat=n)]
        second = scripts if tier == "thorough" else [""]
        for pks in pk_sets:
            for s1 in scripts:
                for s2 in second:
                    if tier == "thorough" and len(s2) > 5 and len(s1) > 5:
                        continue
                    yield {"kind": "cli", "parser": "whole", "share": (len(s1) + len(s2)) % 2 == 1,
                           "ops": ["c"] + ["t" + hx(p) for p in pks] + ["P" + s1, "P" + s2, "Pa9,a9,a9"]}

    def _broadcast_cuts(self, tier):
        """one Packet OBJECT queued to two peers (and twice to one), every pair of cuts of the first send on each
        connection, then everything accepted: each peer must get the packet's bytes as they were when queued"""
        nmax = 4 if tier == "thorough" else 3
        for n in range(1, nmax + 1):
            data = hx(bytes(range(1, n + 1)))
            for k1 in range(0, n + 1):
                for k2 in range(0, n + 1):
                    for plan in (["t1:" + data, "u2:0"], ["t1:" + data, "u1:0"], ["t2:" + data, "u1:0", "u2:0"]):
                        yield {"kind": "srv", "parser": "whole", "share": (k1 + k2) % 2 == 1,
                               "ops": ["a1", "a2"] + plan + ["P", "X1=a%d;2=a%d" % (k1, k2), "X1=a9,a9,a9;2=a9,a9,a9"]}
        for n in range(1, nmax + 1):
            data = hx(bytes(range(1, n + 1)))
            for k1 in range(0, n + 1):
                yield {"kind": "cli", "parser": "whole", "share": k1 % 2 == 1,
                       "ops": ["c", "t" + data, "u0", "Pa%d" % k1, "Pa9,a9,a9"]}

    # ---- implementation
    def impl(self, case):
        try:
            if case["kind"] == "cli":
                return self._impl_cli(case)
            if case["kind"] == "cs":
                return self._impl_cs(case)
            if case["kind"] == "srv":
                return self._impl_srv(case)
        except (KeyError, IndexError, ValueError) as ex:
            if isinstance(ex, ValueError) and "bad-op" not in str(ex):
                raise
        return ["bad-op"]

    @staticmethod
    def _err(ex):
        if isinstance(ex, OSError):
            return "ERR OSError"
        return "ERR " + type(ex).__name__

    @staticmethod
    def _script(s):
        return [x for x in s.split(",") if x]

    def _impl_cli(self, case):
        import socket as real_socket
        from ioflo.aio.tcp import clienting
        from ioflo.aio.proto import stacking, packeting
        framed = case["parser"] == "framed"

        class FramedClient(stacking.TcpClientStack):
            def parserize(self, raw):
                if not raw or len(raw) < 1 + raw[0]:
                    return None
                return packeting.Packet(stack=self, packed=raw[:1 + raw[0]])

        socks = []

        def factory():
            socks.append(FakeStreamSock())
            return socks[-1]

        saved = clienting.socket
        clienting.socket = Shim(real_socket, factory)
        try:
            boxes = boxes_for(case)
            stack = (FramedClient if framed else stacking.TcpClientStack)(ha=SRV_HA, **boxes)
            held = Held(stack, boxes)
            pool = Pool(packeting, stack)
            out = []
            for tok in case["ops"]:
                k, arg = tok[0], tok[1:]
                sock = socks[-1]
                sock.sends, sock.recvs = [], []
                err = "ok"
                try:
                    if tok == "c":
                        stack.serviceConnect()
                    elif k in "tu":
                        pk = pool.new(unhx(arg)) if k == "t" else pool.again(int(arg))
                        if boxes and len(held.txPkts) % 2:     # the producer appends to ITS queue
                            held.txPkts.append(pk)
                        else:
                            stack.transmit(pk)
                    elif k == "P":
                        sock.sends = self._script(arg)
                        stack.serviceTxPkts()
                    elif k == "O":
                        sock.sends = self._script(arg)
                        stack.serviceTxPktsOnce()
                    elif k == "R":
                        sock.recvs = self._script(arg)
                        stack.serviceReceives()
                    else:
                        raise ValueError("bad-op")
                except ValueError as ex:
                    if "bad-op" in str(ex):
                        raise
                    err = self._err(ex)
                except Exception as ex:
                    err = self._err(ex)
                out.append("%s wire=%s txbs=%s q=%s rxbs=%s rx=%s dl=%s c=%d x=%d%s" % (
                    err, hx(socks[-1].wire), hx(held.txbs), ",".join(hx(p.packed) for p in held.txPkts),
                    hx(held.rxbs), ",".join(hx(p.packed) for p in held.rxPkts), hx(socks[-1].delivered),
                    bool(stack.handler.connected), bool(stack.handler.cutoff), held.rebound() + pool.mutated()))
            return out or ["-"]
        finally:
            clienting.socket = saved

    def _impl_cs(self, case):
        """ClientStreamStack used directly over a handler double: Stack.serviceTxPkts / serviceReceives (the base loops)
        with ClientStreamStack._serviceOneTxPkt / _serviceOneReceived"""
        from ioflo.aio.proto import stacking, packeting
        framed = case["parser"] == "framed"

        class FramedCS(stacking.ClientStreamStack):
            def parserize(self, raw):
                if not raw or len(raw) < 1 + raw[0]:
                    return None
                return packeting.Packet(stack=self, packed=raw[:1 + raw[0]])

        h = StreamHandlerDouble()
        boxes = boxes_for(case)
        stack = (FramedCS if framed else stacking.ClientStreamStack)(handler=h, **boxes)
        held = Held(stack, boxes)
        pool = Pool(packeting, stack)
        if not case["ops"] or case["ops"][0] != "c" or "c" in case["ops"][1:]:
            raise ValueError("bad-op")       # the handler is opened by Stack.__init__: `c` comes first, once
        out = []
        for tok in case["ops"]:
            k, arg = tok[0], tok[1:]
            h.sends, h.recvs = [], []
            if any(x in ("l", "d-") for x in arg.split(",")):
                raise ValueError("bad-op")   # a plain handler has no connection-loss notion
            err = "ok"
            try:
                if tok == "c":
                    stack.reopen()
                elif k in "tu":
                    pk = pool.new(unhx(arg)) if k == "t" else pool.again(int(arg))
                    if boxes and len(held.txPkts) % 2:
                        held.txPkts.append(pk)
                    else:
                        stack.transmit(pk)
                elif k == "P":
                    h.sends = self._script(arg)
                    stack.serviceTxPkts()
                elif k == "O":
                    h.sends = self._script(arg)
                    stack.serviceTxPktsOnce()
                elif k == "R":
                    h.recvs = self._script(arg)
                    stack.serviceReceives()
                else:
                    raise ValueError("bad-op")
            except ValueError as ex:
                if "bad-op" in str(ex):
                    raise
                err = self._err(ex)
            except Exception as ex:
                err = self._err(ex)
            out.append("%s wire=%s txbs=%s q=%s rxbs=%s rx=%s dl=%s c=%d x=0%s" % (
                err, hx(h.wire), hx(held.txbs), ",".join(hx(p.packed) for p in held.txPkts),
                hx(held.rxbs), ",".join(hx(p.packed) for p in held.rxPkts), hx(h.delivered), bool(h.opened),
                held.rebound() + pool.mutated()))
        return out or ["-"]

    def _impl_srv(self, case):
        import socket as real_socket
        from ioflo.aio.tcp import serving
        from ioflo.aio.proto import stacking, packeting
        framed = case["parser"] == "framed"

        class FramedServer(stacking.TcpServerStack):
            def parserize(self, raw):
                if not raw or len(raw) < 1 + raw[0]:
                    return None
                return packeting.Packet(stack=self, packed=raw[:1 + raw[0]])

        pending, socks = [], {}
        saved = serving.socket
        serving.socket = Shim(real_socket, lambda: FakeListenSock(pending))
        try:
            boxes = boxes_for(case)
            stack = (FramedServer if framed else stacking.TcpServerStack)(ha=SRV_HA, **boxes)
            held = Held(stack, boxes)
            pool = Pool(packeting, stack)
            out = []
            for tok in case["ops"]:
                k, arg = tok[0], tok[1:]
                for s in socks.values():
                    s.sends, s.recvs = [], []
                err = "ok"
                try:
                    if k == "a":
                        ca = int(arg)
                        if ca_of(ca) in stack.handler.ixes:
                            err = "ERR DupAccept"          # outside the model (C26); never generated
                        else:
                            socks[ca] = FakeStreamSock(peer=ca_of(ca), name=SRV_HA)
                            # bytes already received from this address over an earlier connection
                            socks[ca].base = b"".join(bytes(p.packed) for p, a in held.rxPkts if a == ca_of(ca))
                            pending.append((socks[ca], ca_of(ca)))
                            stack.serviceConnects()
                    elif tok == "C":
                        stack.serviceConnects()
                    elif k in "tu":
                        ca, h = arg.split(":")
                        pk = pool.new(unhx(h)) if k == "t" else pool.again(int(h))
                        if boxes and len(held.txPkts) % 2:
                            held.txPkts.append((pk, ca_of(int(ca))))
                        else:
                            stack.transmit(pk, ca_of(int(ca)))
                    elif tok == "P":
                        stack.serviceTxPkts()
                    elif k in "XV":
                        for part in [p for p in arg.split(";") if p]:
                            ca, sc = part.split("=")
                            if int(ca) in socks:
                                if k == "X":
                                    socks[int(ca)].sends = self._script(sc)
                                else:
                                    socks[int(ca)].recvs = self._script(sc)
                        if k == "X":
                            stack.handler.serviceTxesAllIx()
                        else:
                            stack.handler.serviceReceivesAllIx()
                    elif tok == "S":
                        stack.serviceReceives()
                    else:
                        raise ValueError("bad-op")
                except ValueError as ex:
                    if "bad-op" in str(ex):
                        raise
                    err = self._err(ex)
                except Exception as ex:
                    err = self._err(ex)
                ixs = []
                for ca, ix in stack.handler.ixes.items():
                    ixs.append("%d:%s:%s:%s:%d:%s" % (n_of(ca), hx(ix.cs.wire), ",".join(hx(d) for d in ix.txes),
                                                     hx(ix.rxbs), bool(ix.cutoff), hx(ix.cs.base + bytes(ix.cs.delivered))))
                out.append("%s ix=%s q=%s rx=%s" % (
                    err, "/".join(ixs),
                    ",".join("%d:%s" % (n_of(ca), hx(p.packed)) for p, ca in held.txPkts),
                    ",".join("%d:%s" % (n_of(ca), hx(p.packed)) for p, ca in held.rxPkts)) + held.rebound() + pool.mutated())
            return out or ["-"]
        finally:
            serving.socket = saved

    # ---- model
    def requests(self, case):
        kind = "cli" if case["kind"] == "cs" else case["kind"]     # same loops, guard `handler.opened`
        return ["%s repaired %s %s" % (kind, case["parser"], " ".join(expand(case)))]

    def model_post(self, case, replies):
        return replies[0].split(" | ")

    # ---- oracle
    @staticmethod
    def _no_fail(case):
        for tok in case["ops"]:
            if tok[0] in "POR":
                if "f" in tok[1:].split(","):
                    return False
            if tok[0] in "XV":
                for part in tok[1:].split(";"):
                    if "=" in part and "f" in part.split("=")[1].split(","):
                        return False
        return True

    @staticmethod
    def _accepting(script, need_bytes, need_calls):
        parts = [x for x in script.split(",") if x]
        return (len(parts) >= need_calls and
                all(p[0] == "a" and int(p[1:]) >= need_bytes for p in parts))

    def oracle(self, case, out):
        if out and (out[0] == "bad-op" or out[0].startswith("HARNESS-EXC")):
            return None if out[0] == "bad-op" else out[0]
        if len(out) != len(case["ops"]):
            return "implementation answered %d of %d calls" % (len(out), len(case["ops"]))
        for tok, line in zip(case["ops"], out):
            if "!rebound" in line:
                return ("after %s the stack no longer uses the queue/buffer objects it had (a caller-supplied container or a "
                        "saved reference is orphaned)" % tok[:12])
            if "!mutated" in line:
                return ("after %s a Packet object the caller queued no longer reads as it did when it was queued (the stack "
                        "or transport changed the caller's .packed in place)" % tok[:12])
        case = dict(case, ops=expand(case))      # `u` = the same bytes queued again
        if not self._no_fail(case):
            return None
        return self._oracle_cli(case, out) if case["kind"] in ("cli", "cs") else self._oracle_srv(case, out)

    def _oracle_cli(self, case, out):
        queued = b""
        n_before = 0          # packets waiting before the call (each needs one send; + 1 for a leftover in txbs)
        for tok, line in zip(case["ops"], out):
            f = dict(x.split("=", 1) for x in line.split(" ")[-8:])
            err = line.split(" wire=")[0]
            if err != "ok":
                return "call %s raised %s" % (tok[:12], err)
            wire, txbs = unhx(f["wire"]), unhx(f["txbs"])
            q = [unhx(x) for x in f["q"].split(",") if x]
            rxbs, delivered = unhx(f["rxbs"]), unhx(f["dl"])
            rx = [unhx(x) for x in f["rx"].split(",") if x]
            if tok[0] == "t":
                queued += unhx(tok[1:])
            if wire + txbs + b"".join(q) != queued:
                return ("after %s: accepted %s + txbs %s + queue %s != queued %s"
                        % (tok[:12], wire.hex(), txbs.hex(), [x.hex() for x in q], queued.hex()))
            if b"".join(rx) + rxbs != delivered:
                return ("after %s: packets %s + buffer %s != bytes delivered by the socket %s"
                        % (tok[:12], [x.hex() for x in rx], rxbs.hex(), delivered.hex()))
            connected, cut = f["c"] == "1", f["x"] == "1"
            if tok[0] == "P" and connected and not cut:
                if self._accepting(tok[1:], len(queued), n_before + 1) and (txbs or q):
                    return ("after %s: socket accepted everything but %d bytes are still pending"
                            % (tok[:12], len(txbs) + sum(map(len, q))))
            if tok[0] == "R" and case["parser"] == "whole" and rxbs:
                return "after %s: %d received bytes left outside any packet" % (tok[:12], len(rxbs))
            n_before = len(q)
        return None

    def _oracle_srv(self, case, out):
        expected, n_before = {}, {}
        last_full = False
        for tok, line in zip(case["ops"], out):
            head, rest = line.split(" ix=")
            ixs, rest = rest.split(" q=")
            qs, rxs = rest.split(" rx=")
            q = [(int(x.split(":")[0]), unhx(x.split(":")[1])) for x in qs.split(",") if x]
            rx = [(int(x.split(":")[0]), unhx(x.split(":")[1])) for x in rxs.split(",") if x]
            ix = {}
            for part in [p for p in ixs.split("/") if p]:
                ca, wire, txes, rxbs, cut, recvd = part.split(":")
                ix[int(ca)] = (unhx(wire), [unhx(x) for x in txes.split(",") if x], unhx(rxbs), cut == "1", unhx(recvd))
            if head != "ok" and not (head == "ERR ValueError" and tok == "P"):
                # ValueError from P = a packet for an address that is not connected: the property does not speak
                return "call %s raised %s" % (tok[:12], head)
            k = tok[0]
            if k == "a" and int(tok[1:]) in ix:
                expected[int(tok[1:])] = b"".join(d for c, d in q if c == int(tok[1:]))
            if k == "t":
                ca, h = tok[1:].split(":")
                if int(ca) in ix:
                    expected[int(ca)] = expected.get(int(ca), b"") + unhx(h)
            for ca, (wire, txes, rxbs, cut, recvd) in ix.items():
                pend = b"".join(txes) + b"".join(d for c, d in q if c == ca)
                if wire + pend != expected.get(ca, b""):
                    return ("after %s connection %d: accepted %s + pending %s != queued %s"
                            % (tok[:12], ca, wire.hex(), pend.hex(), expected.get(ca, b"").hex()))
                if k == "X" and last_full and not cut:
                    sc = dict(p.split("=") for p in tok[1:].split(";") if "=" in p).get(str(ca), "")
                    if self._accepting(sc, len(expected.get(ca, b"")), n_before.get(ca, 0)) and pend:
                        return ("after %s connection %d: socket accepted everything but %d bytes pending"
                                % (tok[:12], ca, len(pend)))
                got = b"".join(d for c, d in rx if c == ca) + rxbs
                if got != recvd:
                    return ("after %s connection %d: packets+buffer %s != bytes received from it %s"
                            % (tok[:12], ca, got.hex(), recvd.hex()))
                if tok == "S" and case["parser"] == "whole" and rxbs:
                    return "after S connection %d: %d received bytes left outside any packet" % (ca, len(rxbs))
            last_full = (tok == "P" and head == "ok")
            n_before = {ca: len(v[1]) for ca, v in ix.items()}
        return None

    def nontrivial(self, case, out):
        partial = False
        for tok in case["ops"]:
            if tok[0] in "POX":
                for p in tok[1:].replace(";", ",").replace("=", ",").split(","):
                    if p == "w" or (p.startswith("a") and p[1:].isdigit() and int(p[1:]) < 6):
                        partial = True
        moved = any(("wire=" in l and len(l.split("wire=")[1].split(" ")[0]) >= 4) or
                    (" rx=" in l and len(l.split(" rx=")[1].split(" ")[0]) >= 4) or
                    ("ix=" in l and any(len(p.split(":")[1]) >= 4 for p in l.split("ix=")[1].split(" ")[0].split("/") if p.count(":") >= 5))
                    for l in out)
        return partial and moved

    def bucket(self, case, out):
        tags = [case["kind"], case["parser"]]
        if not self._no_fail(case):
            tags.append("fail")
        if any("ERR" in l for l in out):
            tags.append("raised")
        if any(" x=1" in l or ":1:" in l.split(" q=")[0] for l in out):
            tags.append("cutoff")
        n = len(case["ops"])
        tags.append("ops%s" % ("<=6" if n <= 6 else "<=12" if n <= 12 else ">12"))
        return "/".join(tags)

    def shrink_candidates(self, case):
        ops = case["ops"]
        for i in range(len(ops)):
            if ops[i] != "c" and ops[i][0] != "a":
                yield dict(case, ops=ops[:i] + ops[i + 1:])
        for i, t in enumerate(ops):
            if t[0] in "POR" and "," in t:
                parts = t[1:].split(",")
                for j in range(len(parts)):
                    yield dict(case, ops=ops[:i] + [t[0] + ",".join(parts[:j] + parts[j + 1:])] + ops[i + 1:])

    # ---- extra evidence: one loopback run with real sockets (not part of the verdict's correspondence)
    def extra_evidence(self):
        try:
            return {"loopback": self._loopback()}
        except Exception as ex:
            return {"loopback": "not run: %s: %s" % (type(ex).__name__, ex)}

    def _loopback(self):
        import time
        from ioflo.aio.proto import stacking, packeting
        srv = stacking.TcpServerStack(ha=("127.0.0.1", 0))
        cli = stacking.TcpClientStack(ha=srv.handler.ha)
        try:
            for _ in range(200):
                cli.serviceConnect()
                srv.serviceConnects()
                if cli.handler.connected and srv.handler.ixes:
                    break
                time.sleep(0.005)
            up = [bytes([i]) * (1 + i % 5) for i in range(1, 40)]
            down = [bytes([200 - i]) * (1 + i % 7) for i in range(1, 30)]
            ca = list(srv.handler.ixes.keys())[0]
            for d in up:
                cli.transmit(packeting.Packet(stack=cli, packed=d))
            for d in down:
                srv.transmit(packeting.Packet(stack=srv, packed=d), ca)
            got_up, got_down = b"", b""
            for _ in range(200):
                cli.serviceTxPkts()
                srv.serviceTxPkts()
                srv.handler.serviceTxesAllIx()
                srv.handler.serviceReceivesAllIx()
                srv.serviceReceives()
                cli.serviceReceives()
                while srv.rxPkts:
                    got_up += bytes(srv.rxPkts.popleft()[0].packed)
                while cli.rxPkts:
                    got_down += bytes(cli.rxPkts.popleft().packed)
                if got_up == b"".join(up) and got_down == b"".join(down):
                    break
                time.sleep(0.002)
            return {"client_to_server_intact": got_up == b"".join(up), "server_to_client_intact": got_down == b"".join(down),
                    "bytes": len(got_up) + len(got_down)}
        finally:
            cli.close()
            srv.handler.closeAll()
