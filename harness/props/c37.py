"""C37 — a stack's remote indexes (uid / name / host address) stay mutually consistent.

Model:    lean/IofloModel/Model/Remotes.lean (RemoteStack.addRemote/moveRemote/renameRemote/rehaRemote/removeRemote/
          removeAllRemotes, RemoteDevice uid assignment, Stack.nextUid)
Theorems: lean/IofloModel/Props/C37.lean
Tie:      a real RemoteStack (no handler) and real RemoteDevice objects driven by the same request lines as the Lean
          driver; after every call: result, puid, the three indexes as (key, object) lists in iteration order, and the
          fields of every device created so far.
Oracle:   the property itself, evaluated on the implementation's output lines (independent of the Lean model).

A case is {"init": [puid, uid|~, name|~, ha|~], "ops": [[word, ...], ...]}; `_` stands for the empty string.
"""
import itertools
import core


def tok(s):
    return "_" if s == "" else str(s)


def untok(s):
    return "" if s == "_" else s


# Ip devices (IpLocalDevice / IpRemoteDevice, the classes UdpStack and TcpServerStack use): an address is a
# (host, port) duple; on the wire it is the token <host code><port>
HOSTS = {"e": "", "z": "0.0.0.0", "l": "localhost", "L": "LOCALHOST", "n": "127.0.0.1", "c": "::", "o": "::1",
         "t": "10.0.0.5", "f": "0:0:0:0:0:0:0:0"}
CODES = {v: k for k, v in HOSTS.items()}
IP_PORT = 12357          # RemoteStack has no .Port; the IP stacks have Port = 12357


def tok_ip(ha):
    try:
        host, port = ha
        return CODES[host] + str(port)
    except Exception:
        return "?" + repr(ha).replace(" ", "")


def untok_ip(s):
    return (HOSTS[s[0]], int(s[1:]))


def sep(l, c=","):
    l = list(l)
    return c.join(l) if l else "-"


def opt(s, f=lambda x: x):
    return None if s == "~" else f(s)


class BadOp(Exception):
    pass


def run_impl(case):
    from ioflo.aio.proto import stacking, devicing
    p, u, n, h = case["init"]
    ip = bool(case.get("ip"))
    if ip:
        # as UdpStack/TcpServerStack do: the local device is an IpLocalDevice (no socket is opened: no handler)
        stack = stacking.RemoteStack(puid=int(p), uid=opt(u, int))
        stack.Port = IP_PORT
        stack.local = devicing.IpLocalDevice(stack=stack, uid=stack.local.uid, name=opt(n, untok), ha=opt(h, untok_ip))
        Remote, hatok, haun = devicing.IpRemoteDevice, tok_ip, untok_ip
    else:
        Remote, hatok, haun = devicing.RemoteDevice, tok, untok
    devs = []
    ident = {}
    pre = case.get("pre")
    caller = None
    if pre and not ip:
        # a stack constructed with caller-supplied, already populated index odicts (documented constructor
        # arguments), each in its own order; the caller keeps its references
        from ioflo.aid.odicting import odict
        maker = stacking.RemoteStack()
        for du, dn_, dh_ in pre["devs"]:
            d = devicing.RemoteDevice(stack=maker, uid=int(du), name=untok(dn_), ha=untok(dh_))
            ident[id(d)] = len(devs)
            devs.append(d)
        U = odict((devs[i].uid, devs[i]) for i in pre["U"])
        N = odict((devs[i].name, devs[i]) for i in pre["N"])
        H = odict((devs[i].ha, devs[i]) for i in pre["H"])
        caller = (U, N, H)
        stack = stacking.RemoteStack(puid=int(p), uid=opt(u, int), name=opt(n, untok), ha=opt(h, untok),
                                     remotes=U, nameRemotes=N, haRemotes=H)
        for d in devs:
            d.stack = stack
    elif not ip:
        stack = stacking.RemoteStack(puid=int(p), uid=opt(u, int), name=opt(n, untok), ha=opt(h, untok))

    def fdev(d):
        return "%s,%s,%s" % (d.uid, tok(d.name), hatok(d.ha))

    def index(od, kt=tok):
        return sep("%s:%s" % (kt(k), ident.get(id(v), "?")) for k, v in od.items())

    def dump():
        # with caller-supplied indexes the state is read through the caller's own references
        U, N, H = caller if caller else (stack.uidRemotes, stack.nameRemotes, stack.haRemotes)
        flag = ""
        if caller and not (stack.remotes is U and stack.uidRemotes is U and stack.nameRemotes is N and stack.haRemotes is H):
            flag = " !the stack no longer uses the caller's index odicts"
        return "p=%s L=%s U=%s N=%s H=%s D=%s%s" % (stack.puid, fdev(stack.local), index(U), index(N), index(H, hatok),
                                                    sep((fdev(d) for d in devs), ";"), flag)

    def dev(i):
        i = int(i)
        if i < 0 or i >= len(devs):
            raise BadOp()
        return devs[i]
    out = ["ok | " + dump()]
    if stack.remotes is not stack.uidRemotes:
        out[0] += " !remotes is not uidRemotes"
    for w in case["ops"]:
        try:
            op = w[0]
            r = "None"
            if op == "create":
                kw = {}
                if w[1] != "~": kw["uid"] = int(w[1])
                if w[2] != "~": kw["name"] = untok(w[2])
                if w[3] != "~": kw["ha"] = haun(w[3])
                d = Remote(stack=stack, **kw)
                ident[id(d)] = len(devs)
                devs.append(d)
                r = "ref %d" % (len(devs) - 1)
            elif op == "add":
                res = stack.addRemote(dev(w[1]))
                if res is not dev(w[1]): r = "?addRemote returned something else"
            elif op == "move":
                stack.moveRemote(dev(w[1]), int(w[2]))
            elif op == "rename":
                stack.renameRemote(dev(w[1]), untok(w[2]))
            elif op == "reha":
                stack.rehaRemote(dev(w[1]), haun(w[2]))
            elif op == "remove":
                stack.removeRemote(dev(w[1]))
            elif op == "setuid":          # behind the stack's back (or by another stack holding the same device)
                dev(w[1]).uid = int(w[2])
            elif op == "setname":
                dev(w[1]).name = untok(w[2])
            elif op == "setha":
                dev(w[1]).ha = haun(w[2])
            elif op == "removeall":
                stack.removeAllRemotes()
            else:
                raise BadOp()
        except BadOp:
            out.append("bad-op"); continue
        except (ValueError, NameError):
            # a rejection; removeRemote's "not identical" message names an unbound variable (NameError, see DESIGN C37):
            # the property speaks about what a rejected call changes, not about its exception class
            r = "REJECTED"
        except Exception as ex:
            r = "ERR " + type(ex).__name__
        out.append(r + " | " + dump())
    return out


def parse(line):
    """-> (result, dict) of one reply line"""
    res, _, rest = line.partition(" | ")
    f = dict(x.split("=", 1) for x in rest.split(" "))
    def idx(s):
        return [] if s == "-" else [(p.split(":")[0], int(p.split(":")[1])) for p in s.split(",")]
    def devl(s):
        return [] if s == "-" else [tuple(d.split(",")) for d in s.split(";")]
    return res, {"p": int(f["p"]), "L": tuple(f["L"].split(",")), "U": idx(f["U"]), "N": idx(f["N"]), "H": idx(f["H"]),
                 "D": devl(f["D"])}


def check_state(st):
    U, N, H, D, L = st["U"], st["N"], st["H"], st["D"], st["L"]
    ids = [r for _, r in U]
    if sorted(ids) != sorted(r for _, r in N) or sorted(ids) != sorted(r for _, r in H):
        return "the three indexes do not hold the same remotes: %s %s %s" % (U, N, H)
    if len(set(ids)) != len(ids):
        return "a remote is indexed twice: %s" % (U,)
    for name, lst, fld in (("uid", U, 0), ("name", N, 1), ("ha", H, 2)):
        keys = [k for k, _ in lst]
        if len(set(keys)) != len(keys):
            return "duplicate %s key" % name
        for k, r in lst:
            if r >= len(D) or D[r][fld] != k:
                return "remote %s is indexed under %s %s but its %s is %s" % (r, name, k, name, D[r][fld] if r < len(D) else "?")
        if L[fld] in keys:
            return "%s key %s collides with the local device" % (name, L[fld])
    return None


def oracle(case, out):
    for n, line in enumerate(out):
        if "?" in line or " !" in line or line.startswith("HARNESS-EXC"):
            return "step %d: %s" % (n, line[:200])
    prev = None
    for n, line in enumerate(out):
        if line == "bad-op":
            continue
        res, st = parse(line)
        w = case["ops"][n - 1] if n else ["init"]
        if w[0] in TAMPER:
            # outside the histories of the property: only what must survive a direct assignment is checked here
            # (indexes untouched, only that field of that device changed); what follows is compared with the model only
            if prev is not None:
                r, fld = int(w[1]), {"setuid": 0, "setname": 1, "setha": 2}[w[0]]
                if any(st[k] != prev[k] for k in "UNH") or st["p"] != prev["p"]:
                    return "step %d (%s): a direct assignment changed an index" % (n, " ".join(w))
                for i, (a, b) in enumerate(zip(st["D"], prev["D"])):
                    if a != b and (i != r or any(a[f] != b[f] for f in range(3) if f != fld)):
                        return "step %d (%s): another device or field changed" % (n, " ".join(w))
            return None
        why = check_state(st)
        if why:
            return "after step %d (%s): %s" % (n, " ".join(w), why)
        if prev is not None:
            if res == "REJECTED" or res.startswith("ERR"):
                if st != prev:
                    return "step %d (%s) was rejected (%s) but changed the stack or a device" % (n, " ".join(w), res)
            seq = lambda s, key: [r for _, r in s[key]]
            op = w[0]
            if res == "None" and op in ("move", "rename", "reha"):
                r = int(w[1])
                for key in "UNH":
                    if seq(st, key) != seq(prev, key):
                        return "step %d (%s) changed the iteration order of an index" % (n, " ".join(w))
                fld = {"move": 0, "rename": 1, "reha": 2}[op]
                if st["D"][r][fld] != w[2]:
                    return "step %d (%s) accepted but the remote's field is %s" % (n, " ".join(w), st["D"][r][fld])
                if [d for i, d in enumerate(st["D"]) if i != r] != [d for i, d in enumerate(prev["D"]) if i != r]:
                    return "step %d (%s) changed another device" % (n, " ".join(w))
            if res == "None" and op == "add":
                r = int(w[1])
                for key in "UNH":
                    if seq(st, key) != seq(prev, key) + [r]:
                        return "step %d (%s) accepted but the remote is not appended to every index" % (n, " ".join(w))
            if res == "None" and op == "remove":
                r = int(w[1])
                for key in "UNH":
                    if seq(st, key) != [x for x in seq(prev, key) if x != r] or r not in seq(prev, key):
                        return "step %d (%s) accepted but did not remove exactly that remote" % (n, " ".join(w))
            if res == "None" and op == "removeall":
                if st["U"] or st["N"] or st["H"]:
                    return "step %d removeall left remotes behind" % n
            if op == "create" and res.startswith("ref"):
                d = st["D"][-1]
                if st["D"][:-1] != prev["D"] or any(st[k] != prev[k] for k in "UNH"):
                    return "step %d create changed something else" % n
                if w[1] == "~":
                    if d[0] in [k for k, _ in st["U"]] or d[0] == st["L"][0] or int(d[0]) <= prev["p"] or st["p"] != int(d[0]):
                        return "step %d: assigned uid %s is not fresh (puid %s -> %s)" % (n, d[0], prev["p"], st["p"])
                elif d[0] != w[1] or st["p"] != prev["p"]:
                    return "step %d: explicit uid not taken / puid changed" % n
        prev = st
    return None


TAMPER = ("setuid", "setname", "setha")
UIDS = ["1", "2", "3", "4", "5", "6"]
NAMES = ["a", "b", "c", "Device2", "Device3", "Device5"]
HAS = ["_", "x", "y", "z", "w"]


HAS_IP = [c + p for c in "ezlLncotf" for p in ("1", "2", "3")] + ["n12357", "z12357"]


def norm_ip(t):
    return ("n" if t[0] in "ezlL" else "o" if t[0] in "cf" else t[0]) + t[1:]


def gen(rng, n_ops, ip=False):
    """mostly valid calls: a light simulation of what is indexed steers ~70% of the calls to ones that should be
    accepted (fresh keys, un-added / added devices as appropriate); the rest is drawn blindly and mostly rejected"""
    HASP = HAS_IP if ip else HAS
    init = [rng.choice(["0", "0", "3"]), rng.choice(["~", "~", "1", "4"]), rng.choice(["~", "~", "a"]),
            rng.choice(["~", "~"] + (["n3", "z2", "l1"] if ip else ["x"]))]
    puid = int(init[0])
    luid = int(init[1]) if init[1] != "~" else puid + 1
    if init[1] == "~":
        puid += 1
    loc = [str(luid), init[2] if init[2] != "~" else "Device%d" % luid,
           (norm_ip(init[3]) if init[3] != "~" else "n12357") if ip else (init[3] if init[3] != "~" else "_")]
    devs, ops = [], []          # devs: [uid, name, ha, added]
    pre = None
    if not ip and rng.random() < 0.35:
        # caller-supplied, already populated indexes in three different orders
        k = rng.choice([2, 3, 3, 4])
        us = rng.sample([x for x in UIDS if x != loc[0]], k)
        ns = rng.sample([x for x in NAMES + ["q", "r"] if x != loc[1]], k)
        hs = rng.sample([x for x in HAS[1:] + ["v", "u", "t"] if x != loc[2]], k)
        devs = [[us[i], ns[i], hs[i], True] for i in range(k)]
        perm = lambda: rng.sample(range(k), k)
        pre = {"devs": [d[:3] for d in devs], "U": perm(), "N": perm(), "H": perm()}

    def used(f):
        return {d[f] for d in devs if d[3]} | {loc[f]}

    def fresh(f, pool):
        free = [k for k in pool if k not in used(f)]
        return rng.choice(free) if free else rng.choice(pool)
    for _ in range(n_ops):
        blind = rng.random() < 0.3
        c = rng.randrange(20)
        if (not devs and not pre) or not devs or c < 4:
            if blind:
                u, n, h = rng.choice(["~"] + UIDS), rng.choice(["~", "~"] + NAMES), rng.choice(["~"] + HASP)
            else:
                u = rng.choice(["~", "~", fresh(0, UIDS)])
                n = rng.choice(["~", fresh(1, NAMES)])
                h = fresh(2, HASP if ip else HAS[1:] + ["v", "u", "t"])
            if u == "~":
                puid += 1
                while str(puid) in used(0):
                    puid += 1
                uid = str(puid)
            else:
                uid = u
            devs.append([uid, n if n != "~" else "Device" + uid,
                         (norm_ip(h) if h != "~" else "n12357") if ip else (h if h != "~" else "_"), False])
            ops.append(["create", u, n, h])
            continue
        added = [i for i, d in enumerate(devs) if d[3]]
        idle = [i for i, d in enumerate(devs) if not d[3]]
        any_ = lambda: rng.randrange(len(devs))
        if c < 9:
            i = any_() if blind or not idle else rng.choice(idle)
            d = devs[i]
            if not d[3] and all(d[f] not in used(f) for f in range(3)):
                d[3] = True
            ops.append(["add", str(i)])
        elif c < 16:
            f = 0 if c < 12 else 1 if c < 14 else 2
            pool = [UIDS, NAMES, HASP if ip else HAS + ["v", "u"]][f]
            i = any_() if blind or not added else rng.choice(added)
            new = rng.choice(pool) if blind else fresh(f, pool)
            d = devs[i]
            if new != d[f]:
                owner = [j for j, e in enumerate(devs) if e[3] and e[f] == d[f]]
                if new not in used(f) and owner == [i]:
                    d[f] = new
            ops.append([["move", "rename", "reha"][f], str(i), new])
        elif c < 19:
            i = any_() if blind or not added else rng.choice(added)
            if devs[i][3]:
                devs[i][3] = False
            ops.append(["remove", str(i)])
        else:
            for d in devs:
                d[3] = False
            ops.append(["removeall"])
    if not ip and devs and rng.random() < 0.12:
        # a device changed behind the stack's back, then more calls (compared with the model only)
        for _ in range(rng.choice([1, 1, 2])):
            i = rng.randrange(len(devs))
            f = rng.randrange(3)
            ops.append([TAMPER[f], str(i), rng.choice([UIDS, NAMES, HAS][f])])
            for _ in range(rng.randrange(1, 5)):
                j = str(rng.randrange(len(devs)))
                ops.append(rng.choice([["remove", j], ["add", j], ["move", j, rng.choice(UIDS)], ["rename", j, rng.choice(NAMES)],
                                       ["reha", j, rng.choice(HAS)], ["removeall"]]))
    if pre:
        return {"init": init, "ops": ops, "pre": pre}
    return {"init": init, "ops": ops, "ip": True} if ip else {"init": init, "ops": ops}


class CHECK(core.Check):
    PROPERTY = "C37"
    LEAN_MODULES = ["IofloModel.Props.C37"]
    ENGINE = "remotes"
    N_QUICK = 1500
    N_THOROUGH = 40000
    N_SEARCH = 4000
    RULE = ("sequences of 1..40 calls (create / add / move / rename / reha / remove / removeall) on up to ~10 RemoteDevice "
            "objects over uids 1..6, six names (incl. default-name look-alikes), five host addresses (incl. the empty default "
            "that the local device has), stacks with given or defaulted local uid/name/ha and puid 0 or 3; 35% of the plain histories "
            "start from a stack CONSTRUCTED with caller-supplied, already populated remotes=/nameRemotes=/haRemotes= odicts that "
            "list 2-4 remotes in three independent orders (state read through the caller's references); 40% of the histories "
            "with IpLocalDevice/IpRemoteDevice and (host, port) addresses over 9 host spellings (7 of which the normaliser "
            "rewrites) x 3 ports + the default port; bounded-exhaustive: "
            "every sequence of <=2 (quick) / <=4 (thorough) calls from an 18-call alphabet after a 5-call prefix (two indexed remotes, one not added), and from a 14-call Ip alphabet (re-addressing to rewritten spellings, to the local device's and another remote's address). non-trivial = at "
            "least two remotes were in the indexes at once, a move/rename/reha was accepted and some call was rejected; "
            "distinct by init + op list")
    TRUSTED = ["correspondence: a real stacking.RemoteStack (handler None) and devicing.RemoteDevice objects are driven in-process by "
               "the same request lines as the Lean driver (engine 'remotes'); compared after every call: result (None / new "
               "object / rejected / other exception), puid, the three indexes as (key, object identity) lists in iteration order, "
               "uid/name/ha of every device created",
               "the three indexes are odicts; they are modelled as the ordered dictionaries C39 proves odicts to be",
               "ValueError and NameError (removeRemote's 'not identical' message) both count as 'rejected'"]
    PARTIAL = ["devices changed behind the stack's back (remote.name = ..., local device fields changed later, one device "
               "in two stacks): modelled as the extra operations setuid/setname/setha (Tamper); C37_direct_assignment_survivors "
               "states which index invariants survive, C37_counterexample_direct_assignment what is lost; such histories are "
               "compared with the model (incl. removeRemote failing half way with KeyError) but are outside the property",
               "which calls must be accepted is proved on the model (C37_accepted_iff) and tied to the code by the "
               "correspondence; the Python oracle only constrains the result of a call",
               "Ip devices: host normalisation is a function parameter of the model applied where the code applies it "
               "(IpDevice.__init__ only; rehaRemote stores the new address as given); in the runs it is aioing.normalizeHost + "
               "the two rewrites of IpDevice.__init__ over the hosts '', 0.0.0.0, localhost, LOCALHOST, 127.0.0.1, ::, ::1, "
               "0:0:0:0:0:0:0:0, 10.0.0.5 (name resolution of the machine is trusted); two addresses that are equal only "
               "after normalisation are different keys for the code and for the property as stated; the real UDP/TCP stacks "
               "are not opened (RemoteStack with an IpLocalDevice, IpRemoteDevice objects, Port 12357)"]
    TECHNIQUE = "Lean 4 theorems (state invariant by induction over call histories) + differential correspondence"
    LEVEL_TEXT = ("Full proofs on the model (no _partial theorem): the consistency invariant (the three indexes hold the same remote "
                  "objects in the same order, each under its current uid/name/ha, no remote twice, no duplicate key, no key equal to the "
                  "local device's) holds for a new stack and is kept by every call with any arguments, hence after every history "
                  "(C37_init_consistent, C37_step_keeps_consistent, C37_remote_indexes_consistent; the invariant asks for the same remotes, "
                  "not the same order, so it also covers stacks constructed with caller-supplied indexes in differing orders); on a consistent stack no call ends "
                  "in an exception other than the rejection and removeRemote never stops between its three deletions "
                  "(C37_never_crashes); a rejected call changes neither the indexes nor any device nor the uid counter "
                  "(C37_rejected_unchanged); an accepted move/rename/reha replaces the entry in place - same object, same position, "
                  "new key - and leaves the other two indexes and all other devices alone (C37_move_rename_keep_position); an "
                  "accepted add appends to all three, an accepted remove takes out exactly that remote, removeAll empties them "
                  "(C37_add_remove_effect); nothing is rejected without need: add is accepted exactly when all three keys are free, "
                  "remove exactly when that object is indexed, a move exactly when the uid is free and the object indexed "
                  "(C37_accepted_iff); an auto-assigned uid is larger than all earlier ones and not in use, for plain and Ip remotes, whose "
                  "address is the normalised one (C37_create_uid_fresh, C37_createIp_uid_fresh). "
                  "No defect of the unchanged tree violates C37 (removeRemote's 'not identical' branch raises NameError instead of "
                  "ValueError; still a rejection that changes nothing).")
    LEVEL_NOTE = ("Trusted: Lean kernel; axioms propext, Classical.choice, Quot.sound; the hand transcription of the seven methods "
                  "(Model/Remotes.lean) with the indexes modelled as the ordered dictionaries that C39 shows odicts to be, validated only "
                  "by the correspondence runs (random histories up to 40 calls + all sequences of <= 2 (quick) / <= 4 (thorough) calls "
                  "from an 18-call alphabet on a prepared stack); identity of Python objects = creation index; names/addresses opaque "
                  "tokens; devices are changed only through the stack's methods.")

    def generate(self, rng, n, tier):
        for _ in range(n):
            yield gen(rng, rng.choice([1, 3, 6, 10, 15, 25, 40]), ip=rng.random() < 0.4)

    def exhaustive(self, tier):
        depth = 4 if tier == "thorough" else 2
        # two indexed remotes (objects 0, 1), one created but not added (2); the alphabet has every kind of collision
        # (with another remote, with the local device uid 1 / name Device1 / ha ''), valid calls and calls on the
        # un-added object, so that two- and three-call sequences reach re-adds after removal, moves onto freed keys ...
        pre = [["create", "~", "~", "x"], ["create", "3", "b", "y"], ["create", "~", "c", "z"], ["add", "0"], ["add", "1"]]
        alpha = [["add", "2"], ["add", "0"], ["move", "0", "3"], ["move", "0", "5"], ["move", "1", "1"], ["move", "2", "2"],
                 ["rename", "0", "b"], ["rename", "1", "Device1"], ["rename", "0", "q"], ["reha", "0", "y"], ["reha", "1", "_"],
                 ["reha", "0", "w"], ["remove", "0"], ["remove", "1"], ["remove", "2"], ["removeall"],
                 ["create", "~", "~", "w"], ["add", "3"]]
        for d in range(1, depth + 1):
            for seq in itertools.product(alpha, repeat=d):
                yield {"init": ["0", "~", "~", "~"], "ops": pre + [list(x) for x in seq]}
        # caller-supplied indexes in different orders: uid order 0,1,2; name order 2,0,1; ha order 1,2,0
        prep = {"devs": [["3", "m", "z"], ["4", "n", "x"], ["5", "l", "y"]], "U": [0, 1, 2], "N": [2, 0, 1], "H": [1, 2, 0]}
        alphap = [["move", "0", "6"], ["move", "2", "2"], ["move", "1", "3"], ["rename", "2", "k"], ["rename", "0", "a"],
                  ["rename", "1", "l"], ["reha", "0", "w"], ["reha", "1", "v"], ["reha", "2", "x"], ["remove", "0"],
                  ["remove", "1"], ["remove", "2"], ["create", "~", "~", "u"], ["add", "3"], ["add", "0"], ["removeall"]]
        for d in range(1, depth + 1):
            for seq in itertools.product(alphap, repeat=d):
                yield {"init": ["0", "~", "~", "~"], "ops": [list(x) for x in seq], "pre": prep}
        # Ip devices: re-addressing to hosts the normaliser of IpDevice.__init__ rewrites, to the local device's
        # address in another spelling, to another remote's; creation with such spellings; removal afterwards
        prei = [["create", "~", "~", "n1"], ["create", "~", "b", "z2"], ["add", "0"], ["add", "1"]]
        alphai = [["reha", "0", "z1"], ["reha", "0", "l2"], ["reha", "1", "e1"], ["reha", "0", "z9"], ["reha", "0", "n3"],
                  ["reha", "1", "c1"], ["reha", "0", "L12357"], ["create", "~", "~", "L1"], ["create", "~", "~", "~"],
                  ["create", "~", "c", "e9"], ["add", "2"], ["remove", "0"], ["remove", "1"], ["removeall"]]
        for d in range(1, depth + 1):
            for seq in itertools.product(alphai, repeat=d):
                yield {"init": ["0", "~", "~", "l9"], "ops": prei + [list(x) for x in seq], "ip": True}

    def requests(self, case):
        if case.get("ip"):
            return ["initip " + " ".join(case["init"])] + [" ".join(["createip"] + w[1:] if w[0] == "create" else w)
                                                           for w in case["ops"]]
        pre = case.get("pre")
        if pre:
            d = pre["devs"]
            first = "initpre %s %s %s %s %s" % (" ".join(case["init"]), sep((",".join(x) for x in d), ";"),
                                                sep("%s:%d" % (d[i][0], i) for i in pre["U"]),
                                                sep("%s:%d" % (d[i][1], i) for i in pre["N"]),
                                                sep("%s:%d" % (d[i][2], i) for i in pre["H"]))
            return [first] + [" ".join(w) for w in case["ops"]]
        return ["init " + " ".join(case["init"])] + [" ".join(w) for w in case["ops"]]

    def impl(self, case):
        return run_impl(case)

    def oracle(self, case, out):
        return oracle(case, out)

    def nontrivial(self, case, out):
        two = rej = moved = False
        for w, line in zip(case["ops"], out[1:]):
            if line == "bad-op":
                continue
            res, st = parse(line)
            two = two or len(st["U"]) >= 2
            rej = rej or res == "REJECTED"
            moved = moved or (res == "None" and w[0] in ("move", "rename", "reha") and
                              any(int(w[1]) == r for _, r in st["U"]))
        return two and rej and moved

    def bucket(self, case, out):
        n = len(case["ops"])
        rej = sum(1 for l in out[1:] if l.startswith("REJECTED"))
        most = max([len(parse(l)[1]["U"]) for l in out if l != "bad-op"] or [0])
        return "%s%s%s/%s/max-indexed=%s" % ("tampered/" if any(w[0] in TAMPER for w in case["ops"]) else "",
                                         "ip/" if case.get("ip") else "pre/" if case.get("pre") else "", "len<=6" if n <= 6 else "len7-15" if n <= 15 else "len16+",
                                         "no-reject" if rej == 0 else "rejects<=33%" if rej * 3 <= n else "rejects>33%",
                                         most if most < 3 else "3+")

    def shrink_candidates(self, case):
        ops = case["ops"]
        extra = {"ip": True} if case.get("ip") else {"pre": case["pre"]} if case.get("pre") else {}
        for k in range(1, len(ops)):
            yield dict(extra, init=case["init"], ops=ops[:k])
        for i in range(len(ops)):
            if ops[i][0] != "create":
                yield dict(extra, init=case["init"], ops=ops[:i] + ops[i + 1:])
        if case["init"] != ["0", "~", "~", "~"]:
            yield dict(extra, init=["0", "~", "~", "~"], ops=ops)
