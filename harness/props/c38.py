"""C38 — exchanges time out and retransmit on schedule.
Model: lean/IofloModel/Model/Exchange.lean (ioflo/aio/proto/exchanging.py + timing.StoreTimer, exact ticks)
Theorems: lean/IofloModel/Props/C38.lean
Tie: real Exchange / Exchanger / Exchangent on a real Stack with its Stamper, driven by the same call
     sequence as the Lean driver; compared per call: messages put on stack.txPkts, exception class,
     done / failed flags.  Time is on the dyadic grid 1/1024 s, where float arithmetic is exact.
Oracle (independent of the model): creation succeeds for every setting; while started and not finished
     `process` retransmits the latest message iff a full redo interval has elapsed since the last
     (re)transmission time, never at/after the timeout, and fails iff the positive timeout has elapsed.
The tree this check is meant for: /repo + fixes/D22-exchange-redotimeout-nameerror.patch."""
import itertools
import core

TICK = 1024.0
T_GRID = ["N", 0, -512, 1, 256, 512, 1000, 2048, 4096]
R_GRID = ["N", 0, -128, 1, 64, 128, 333, 512, 2048]
DEF = {"e": (2048, 512), "x": (2048, 512), "n": (512, 128)}


def tok_create(k, t, r, tx="N", rx="N"):
    return "C%s:%s:%s:%s:%s" % (k, t, r, tx, rx)


def unhexf(h):
    """time value of a float case: 16 hex digits = the binary64 bit pattern"""
    import struct
    return struct.unpack(">d", bytes.fromhex(h))[0]


def hexf(x):
    import struct
    return struct.pack(">d", float(x)).hex()


def parse(tok, flt=False):
    k = tok[0]
    if k == "C":
        kind = tok[1]
        t, r, tx, rx = tok[3:].split(":")
        f = lambda s: None if s == "N" else int(s)
        g = (lambda s: None if s == "N" else unhexf(s)) if flt else f
        return "C", (kind, g(t), g(r), f(tx), f(rx))
    if k == "A" and flt:
        return "A", unhexf(tok[1:])
    if k in "STYM":
        return k, (None if tok[1:] == "N" else int(tok[1:]))
    if k in "AR":
        return k, int(tok[1:])
    if tok in ("P", "F", "X", "U"):
        return tok, None
    raise ValueError(tok)


class CHECK(core.Check):
    PROPERTY = "C38"
    LEAN_MODULES = ["IofloModel.Props.C38"]
    ENGINE = "exchange"
    N_QUICK = 1200
    N_THOROUGH = 30000
    N_SEARCH = 3000
    RULE = ("call sequences on a real Exchange/Exchanger/Exchangent (Exchangent through a subclass with "
            "RedoTimeout=0.125 so that its default is on the dyadic grid): create with timeout/redo each of "
            "{not given, 0, negative, 1 tick .. 4 s}, start, then 5..60 steps of (advance; process) with the advance "
            "drawn per case from a style (fixed poll period, exactly / just below / just above the redo interval, "
            "zero, random up to 2 intervals, occasional negative), interleaved send / transmit / message of new messages, receive, "
            "finish/fail/run, restarts; three message alphabets, each with falsy members (base Packets incl. an empty one; "
            "Packets that are empty until packed; plain payloads 0 / falsy objects / ints on a stack double) at every "
            "position (constructor tx, start, mid-exchange, before a redo); ~6% malformed (start/send without a message, calls before create). "
            "every fourth random case on a decimal (non-dyadic) grid through the Float instantiation. Bounded-exhaustive: every (timeout, redo) pair of the 9x9 grid x 3 classes x 4 fixed schedules. "
            "Non-trivial = at least 3 process calls and at least one retransmission or one timeout failure; "
            "distinct by call sequence.")
    TRUSTED = ["correspondence: real exchanging.Exchange/Exchanger/Exchangent on stacking.Stack (tree + "
               "fixes/D22-exchange-redotimeout-nameerror.patch) vs Lean driver 'exchange' on the same calls; compared per "
               "call: WHICH messages (by identity) were appended to stack.txPkts / stack.txMsgs, exception class, .done, .failed",
               "time on the grid 1/1024 s (CPython float arithmetic exact there) for 3/4 of the cases; every fourth random case "
               "uses decimal times (0.1, 0.3, 0.7, 1/3, class defaults incl. Exchangent 0.5/0.1) passed as binary64 bit "
               "patterns and run through the Float instantiation of the definitions (Lean Float = IEEE binary64 = CPython float)",
               "a device is always given (process()/start() format self.device.name eagerly)"]
    PARTIAL = ["schedules off the dyadic grid (e.g. Exchangent's own RedoTimeout = 0.1): the theorems are about exact time; "
               "there the Float (binary64) instantiation of the same generic definitions (gstep/grun, proved equal to the "
               "model at Int: C38_generic_definitions_at_int_are_the_model) is compared bit for bit with the code, and the "
               "oracle evaluates the same statement in binary64 (.stop = .start + .duration, expired when stamp >= .stop)",
               "process() on an exchange without a device raises AttributeError from the log call's format arguments; "
               "not part of the property, not modelled"]
    TECHNIQUE = ("Lean 4 theorems (invariant of the running phase by induction over the call sequence; refinement to the "
                 "reference schedule Sched) + differential correspondence + direct oracle")
    LEVEL_TEXT = ("Full proofs on the model (repaired constructor), for every timeout/redo setting, every time of creation and "
                  "every sequence of passive calls (advance by any amount, process, send, receive): C38_create_any_combination; "
                  "C38_redo_once_per_interval (the record of calls follows the reference schedule: retransmit the latest "
                  "message exactly when a full redo interval has elapsed since the last restart, restart then), "
                  "C38_redo_spacing / C38_redo_count_bound (at most one per interval), C38_redo_exact_when_polled (polled every "
                  "tick it retransmits at exactly the stamps s+R, s+2R, ...), C38_fails_iff_timeout_first, "
                  "C38_timeout_takes_precedence, C38_no_redo_after_timeout, C38_timeout_zero_never_expires, "
                  "C38_timers_well_formed_always (the hypothesis is an invariant of every call), C38_start_exchanger, "
                  "C38_started_exchanger_schedule (end to end from create+start), C38_generic_definitions_at_int_are_the_model (the generic-time definitions the driver runs on floats are the model at Int). C38_counterexample_asis: the unpatched "
                  "constructor raises NameError whenever a redo timeout is given (D22, repaired by the fix patch).")
    LEVEL_NOTE = ("Trusted: Lean kernel; axioms propext, Classical.choice, Quot.sound; the hand transcription of exchanging.py "
                  "and StoreTimer, validated by the correspondence runs (9x9 settings grid x classes x schedules, plus random "
                  "histories) on the exact-time grid; float rounding off that grid is not covered.")

    # ---- generation
    def _schedule(self, rng, T, R, n):
        r = R if isinstance(R, int) and R > 0 else 512
        style = rng.choice(["poll", "poll", "exact", "below", "above", "rand", "zero", "mixed"])
        out = []
        period = rng.choice([1, 16, 32, 64, 100, 128, 256])
        for _ in range(n):
            if style == "poll":
                dt = period
            elif style == "exact":
                dt = r
            elif style == "below":
                dt = max(r - 1, 0)
            elif style == "above":
                dt = r + 1
            elif style == "zero":
                dt = rng.choice([0, 0, 0, r])
            elif style == "rand":
                dt = rng.randrange(0, 2 * r + 1)
            else:
                dt = rng.choice([0, 1, r - 1, r, r + 1, rng.randrange(0, 3 * r + 1), period])
                dt = max(dt, 0)
            out.append(dt)
        return out

    def _case(self, rng, malformed_ok=True):
        kind = rng.choice("xxxxxen")
        T = rng.choice(T_GRID + [rng.choice([128, 300, 777, 1536, 3000])])
        R = rng.choice(R_GRID + [rng.choice([2, 17, 100, 250, 700])])
        ops = []
        if rng.random() < 0.3:
            ops.append("A%d" % rng.randrange(0, 5000))
        malformed = malformed_ok and rng.random() < 0.06
        if malformed and rng.random() < 0.3:
            ops.append(rng.choice(["P", "S1", "T2", "F"]))
        tx0 = rng.choice(["N", "N", 1, 0])
        ops.append(tok_create(kind, T, R, tx0, rng.choice(["N", 9])))
        if rng.random() < 0.2:
            ops.append("A%d" % rng.randrange(0, 600))
            ops.append("P")
        mid = 1
        if kind == "x":
            ops.append("SN" if (malformed and rng.random() < 0.5) else "S%d" % (0 if rng.random() < 0.1 else mid))
        elif kind == "n":
            ops.append("SN" if (malformed and rng.random() < 0.5) else "S7")
        else:
            ops.append("SN")
        n = rng.randrange(5, 61)
        for dt in self._schedule(rng, T, R, n):
            if rng.random() < 0.03:
                ops.append("A-%d" % rng.randrange(1, 300))
            ops.append("A%d" % dt)
            ops.append("P")
            x = rng.random()
            if x < 0.07:
                mid += 1
                ops.append(rng.choice("TTYM") + str(0 if rng.random() < 0.15 else mid))
            elif x < 0.08:
                ops.append("R%d" % rng.randrange(20))
            elif x < 0.09:
                ops.append(rng.choice(["F", "X", "U"]))
            elif x < 0.10:
                ops.append("S%d" % mid if kind == "x" else "SN" if kind == "e" else "S3")
            elif malformed and x < 0.13:
                ops.append(rng.choice(["TN", "YN", "MN", tok_create(kind, T, R)]))
        return {"ops": ops, "msgs": rng.choice(["packet", "lazy", "plain"]), "share": rng.random() < 0.4}

    def _float_case(self, rng):
        """decimal (non-dyadic) settings and schedules: the classes as they are (Exchangent.RedoTimeout = 0.1)"""
        kind = rng.choice("xxxne")
        dec = [0.1, 0.2, 0.3, 0.7, 1.1, 0.05, 2.0, 0.5, 0.15, 1.0 / 3.0]
        T = rng.choice(["N", "N", 0.0] + dec + [x * 3 for x in dec])
        R = rng.choice(["N", "N", 0.0] + dec)
        h = lambda x: x if x == "N" else hexf(x)
        ops = []
        if rng.random() < 0.3:
            ops.append("A" + hexf(rng.choice(dec) * rng.randrange(1, 50)))
        ops.append("C%s:%s:%s:%s:N" % (kind, h(T), h(R), rng.choice(["N", "1"])))
        ops.append({"x": "S1", "n": "S7", "e": "SN"}[kind])
        step = rng.choice(dec[:6] + [0.01, 0.025])
        mid = 1
        for _ in range(rng.randrange(5, 61)):
            ops.append("A" + hexf(step if rng.random() < 0.85 else rng.choice(dec)))
            ops.append("P")
            x = rng.random()
            if x < 0.06:
                mid += 1
                ops.append(rng.choice("TTYM") + str(mid))
            elif x < 0.08:
                ops.append("S%d" % mid if kind == "x" else "SN" if kind == "e" else "S3")
        return {"ops": ops, "msgs": rng.choice(["packet", "lazy", "plain"]), "share": rng.random() < 0.4, "float": True}

    def generate(self, rng, n, tier):
        for i in range(n):
            yield self._float_case(rng) if i % 4 == 3 else self._case(rng)

    def search(self, rng, n, tier):
        for _ in range(n):
            yield self._case(rng, malformed_ok=False)

    def exhaustive(self, tier):
        scheds = [[64] * 40, None, [0, 1] * 10, [700] * 8]
        for T, R, kind in itertools.product(T_GRID, R_GRID, "xen"):
            for sch in scheds:
                if sch is None:
                    r = R if isinstance(R, int) and R > 0 else DEF[kind][1]
                    sch = [r - 1, 1, r, r + 1, r - 1, r - 1, 2 * r, 3 * r + 1] + [r] * 6
                ops = [tok_create(kind, T, R), {"x": "S1", "n": "S7", "e": "SN"}[kind]]
                for i, dt in enumerate(sch):
                    ops += ["A%d" % dt, "P"]
                    if i == 3:      # a new, falsy-looking message in the middle of the exchange, by each of the three methods
                        ops.append("TYM"[(len(sch) + (T if isinstance(T, int) else 0)) % 3] + "2")
                yield {"ops": ops, "msgs": ["packet", "lazy", "plain"][(len(ops) + (R if isinstance(R, int) else 1)) % 3]}

    # ---- implementation
    def impl(self, case):
        from ioflo.aio.proto import stacking, packeting, devicing, exchanging

        class Exchangent125(exchanging.Exchangent):
            RedoTimeout = 0.125

        flt = bool(case.get("float"))      # decimal (non-dyadic) times: the classes as they are, float arithmetic
        unit = 1.0 if flt else TICK
        classes = {"e": exchanging.Exchange, "x": exchanging.Exchanger,
                   "n": exchanging.Exchangent if flt else Exchangent125}
        # three alphabets of messages, all with FALSY members (the code must test `is not None`, not truthiness):
        #   packet: real Stack, base Packets; id 0 is an empty Packet (len 0)
        #   lazy:   real Stack, Packets that are empty until the stack packs them on transmit
        #   plain:  a minimal stack double, payloads 0 / falsy objects / ints (sequence-number style)
        mode = case.get("msgs", "packet")

        class LazyPacket(packeting.Packet):
            def __init__(self, body, **kwa):
                super(LazyPacket, self).__init__(**kwa)
                self.body = body

            def pack(self):
                self.packed = bytearray(self.body)
                return self.packed

        class Quiet(object):
            """a falsy message object"""
            def __init__(self, mid): self.mid = mid
            def __len__(self): return 0

        class PlainStack(object):
            name = "plain"
            def __init__(self):
                from ioflo.aid.timing import Stamper
                self.stamper = Stamper(stamp=0.0)
                self.txPkts, self.txMsgs = [], []
            def transmit(self, pkt): self.txPkts.append(pkt)
            def message(self, msg): self.txMsgs.append(msg)

        from collections import deque
        given = dict(txPkts=deque(), txMsgs=deque()) if case.get("share") and mode != "plain" else {}
        stack = PlainStack() if mode == "plain" else stacking.Stack(**given)
        outbox, msgbox = stack.txPkts, stack.txMsgs      # the caller's own references to the stack's queues
        device = devicing.Device(stacking.Stack()) if mode == "plain" else devicing.Device(stack)
        pkts = {}

        def pkt(i):
            if i is None:
                return None
            if i not in pkts:
                if mode == "plain":
                    pkts[i] = 0 if i == 0 else (Quiet(i) if i % 2 else i)
                elif mode == "lazy":
                    pkts[i] = LazyPacket(str(i).encode("ascii"), stack=stack)
                else:
                    pkts[i] = packeting.Packet(stack=stack, packed=(b"" if i == 0 else str(i).encode("ascii")))
                if not isinstance(pkts[i], int):
                    pkts[i].mid = i
            return pkts[i]

        def mid_of(x):
            return x if isinstance(x, int) else x.mid

        ex, kind, out = None, None, []
        for tok in case["ops"]:
            try:
                k, arg = parse(tok, flt)
            except Exception:
                return ["bad-op"]
            mark, markm = len(outbox), len(msgbox)
            err = "ok"
            try:
                if k == "C":
                    kind, t, r, tx, rx = arg
                    kw = {}
                    if t is not None:
                        kw["timeout"] = t / unit
                    if r is not None:
                        kw["redoTimeout"] = r / unit
                    ex = None
                    ex = classes[kind](stack=stack, device=device, tx=pkt(tx),
                                       rx=(None if rx is None else ("rx", rx)), **kw)
                elif k == "A":
                    stack.stamper.advance(arg / unit)
                elif ex is None:
                    err = "ERR NoExchange"
                elif k == "S":
                    if kind == "e":
                        ex.start()
                    elif kind == "x":
                        ex.start(pkt(arg))
                    else:
                        ex.start(None if arg is None else ("rx", arg))
                elif k == "P":
                    ex.process()
                elif k == "T":
                    ex.send(pkt(arg))
                elif k == "Y":
                    ex.transmit(pkt(arg))
                elif k == "M":
                    ex.message(pkt(arg))
                elif k == "R":
                    ex.receive(("rx", arg))
                elif k == "F":
                    ex.finish()
                elif k == "X":
                    ex.fail()
                elif k == "U":
                    ex.run()
            except Exception as e:
                err = "ERR " + type(e).__name__
            queued = [mid_of(p) for p in list(outbox)[mark:]] + [mid_of(m) for m in list(msgbox)[markm:]]
            if stack.txPkts is not outbox or stack.txMsgs is not msgbox or any(getattr(stack, k) is not v for k, v in given.items()):
                err += " !rebound"
            flags = " d=- f=-" if ex is None else " d=%d f=%d" % (bool(ex.done), bool(ex.failed))
            out.append("%s %s%s" % (",".join(map(str, queued)) or "-", err, flags))
        return out or ["-"]

    # ---- model
    def requests(self, case):
        return [("runf" if case.get("float") else "run") + " repaired " + " ".join(case["ops"])]

    def model_post(self, case, replies):
        return replies[0].split(" | ")

    # ---- oracle
    def oracle(self, case, out):
        if out and (out[0] == "bad-op" or out[0].startswith("HARNESS-EXC")):
            return None if out[0] == "bad-op" else out[0]
        ops = case["ops"]
        if len(out) != len(ops):
            return "implementation answered %d of %d calls" % (len(out), len(ops))
        flt = bool(case.get("float"))
        # float cases: the same statement evaluated in binary64, the way StoreTimer documents it (.stop = .start +
        # .duration, expired when the stamp has reached .stop; the clock is advanced by float addition): the oracle adds and
        # compares the very floats of the case, so a boundary decided by IEEE rounding is a definite claim as well
        DEFS = ({"e": (2.0, 0.5), "x": (2.0, 0.5), "n": (0.5, 0.1)} if flt else DEF)
        now = 0
        have = False           # an exchange exists
        kind = T = R = None
        t0 = last = None       # when the overall timer / the redo interval were last (re)started; None = unknown
        latest = None
        started = done = False
        for tok, line in zip(ops, out):
            if "!rebound" in line:
                return "after %s the stack no longer uses the queue objects the caller holds" % tok
            k, arg = parse(tok, flt)
            q, rest = line.split(" ", 1)
            queued = [] if q == "-" else [int(x) for x in q.split(",")]
            err = None if rest.startswith("ok") else rest.split(" ")[1]
            failed_flag = rest.endswith("f=1")
            done_flag = "d=1" in rest
            if k == "C":
                kind, t, r, tx, rx = arg
                if err is not None:
                    return "creating %s with timeout=%s redoTimeout=%s raised %s" % (kind, t, r, err)
                have = True
                T = DEFS[kind][0] if t is None else t
                R = DEFS[kind][1] if r is None else r
                t0 = last = abs(now)
                latest, started, done = tx, False, False
                if failed_flag or done_flag:
                    return "a new exchange is already done/failed"
            elif k == "A":
                now += arg
            elif not have:
                continue
            elif k == "S":
                if err is None:
                    started, done = True, False
                    if kind in "xn":
                        t0 = last = now
                    if kind == "x":
                        latest = arg if arg is not None else latest
                        if queued != [latest]:
                            return "start(%s) queued %s, expected the message once" % (arg, queued)
                    if kind == "n":
                        done = True            # the base correspondent finishes at once
                else:
                    started = False            # start raised (no message): no claim until a good start
                    t0 = last = None
            elif k in "TYM":
                if err is None:
                    latest = arg if arg is not None else latest
                    if queued != [latest]:
                        return "%s(%s) queued %s, the latest message is %s" % (
                            {"T": "send", "Y": "transmit", "M": "message"}[k], arg, queued, latest)
            elif k in "FXU":
                done = True
            elif k == "P":
                if not (started and not done):
                    last = None                # a process call outside the span may restart the interval
                    continue
                if err is not None:
                    return "process raised %s" % err
                timed_out = T > 0 and t0 is not None and now >= t0 + T
                if T <= 0 and failed_flag:
                    return "timeout %s <= 0 but the exchange failed at %s" % (T, now)
                if t0 is not None and T > 0:
                    if timed_out:
                        if queued:
                            return "process at %s (timeout elapsed at %s) still queued %s" % (now, t0 + T, queued)
                        if not failed_flag or not done_flag:
                            return "process at %s >= %s: timeout elapsed but failed=%s done=%s" % (
                                now, t0 + T, failed_flag, done_flag)
                        done = True
                        continue
                    elif failed_flag:
                        return "failed at %s before the timeout elapses at %s" % (now, t0 + T)
                if len(queued) > 1 or (queued and queued != [latest]):
                    return "process queued %s, latest message is %s" % (queued, latest)
                if last is not None and (t0 is not None or T <= 0):
                    due = R > 0 and now >= last + R
                    if due:
                        if latest is not None and queued != [latest]:
                            return ("redo interval %s elapsed at %s (now %s) but nothing retransmitted"
                                    % (R, last + R, now))
                        last = now
                    elif queued:
                        return ("retransmitted at %s although the redo interval %s (restarted at %s) has not elapsed"
                                % (now, R, last))
                elif queued:
                    last = now
        return None

    def nontrivial(self, case, out):
        n_p = sum(1 for t in case["ops"] if t == "P")
        redo = any(t == "P" and not l.startswith("-") for t, l in zip(case["ops"], out))
        failed = any(l.endswith("f=1") for l in out)
        return n_p >= 3 and (redo or failed)

    def bucket(self, case, out):
        c = next((t for t in case["ops"] if t[0] == "C"), None)
        if c is None:
            return "no-create"
        kind = c[1]
        t, r = c[3:].split(":")[:2]
        if case.get("float"):
            val = lambda s: unhexf(s)
        else:
            val = int
        cls = lambda s: "dflt" if s == "N" else "zero" if val(s) == 0 else "neg" if val(s) < 0 else "pos"
        tags = [kind, "T" + cls(t), "R" + cls(r)] + (["float"] if case.get("float") else [])
        if any(l.endswith("f=1") for l in out):
            tags.append("failed")
        if any(tk == "P" and not l.startswith("-") for tk, l in zip(case["ops"], out)):
            tags.append("redo")
        if any("ERR" in l for l in out):
            tags.append("err")
        return "/".join(tags)

    def shrink_candidates(self, case):
        ops = case["ops"]
        for i in range(len(ops)):
            if ops[i][0] != "C":
                yield dict(case, ops=ops[:i] + ops[i + 1:])
        for i in range(len(ops) - 1):
            if ops[i][0] == "A" and ops[i + 1] == "P":
                yield dict(case, ops=ops[:i] + ops[i + 2:])
