"""C39 — ordered dictionaries (odict, lodict, modict) and the ordered set (oset) behave like their models.

Model:    lean/IofloModel/Model/Containers.lean (method-by-method transcription of ioflo/aid/odicting.py and
          osetting.py + the collections.abc.MutableSet mixin methods that oset inherits)
Theorems: lean/IofloModel/Props/C39.lean
Tie:      operation sequences on several live objects; after every call the returned value / exception and the
          contents of every object (items()/listitems()/iteration order, len) are compared with the Lean driver.
Oracle:   independent of the Lean model: plain-Python reference containers (a list of pairs, a list of
          (key, list) pairs, a duplicate-free list) replay the same sequence; plus API-consistency checks made on
          the live objects after every call (keys()/values()/iteration/len/membership agree with items()).

A case is {"kind": "d"|"m"|"s", "ops": [[word, ...], ...]}; the words of one op are exactly the driver request.
"""
import zlib, itertools, pickle
import core

ERRS = (KeyError, ValueError, TypeError, IndexError, AttributeError)


def errname(ex):
    for e in ERRS:
        if type(ex) is e:
            return "ERR " + e.__name__
    return "ERR other:" + type(ex).__name__


# ------------------------------------------------------------------ formatting (same as Drv/Containers.lean)
def sep(l):
    l = list(l)
    return ",".join(l) if l else "-"

# Unicode keys (lodict beyond ASCII): on the wire a key is the token u<hex4>u<hex4>…; the implementation is driven with
# the real strings; KF turns a key of the implementation back into its token; LOWER is key.lower() on tokens
import re
UTOK = re.compile(r"(?:u[0-9a-f]{4})+")
KF = [lambda k: k]
LOWER = [lambda t: t.lower()]


def utok(k):
    return "".join("u%04x" % ord(c) for c in k)


def unutok(t):
    return "".join(chr(int(t[i + 1:i + 5], 16)) for i in range(0, len(t), 5))


def ulower(t):
    return utok(unutok(t).lower())


def skeys(l):
    return sep(KF[0](k) for k in l)

def fpairs(l):
    return sep("%s=%s" % (KF[0](k), fint(v)) for k, v in l)

def fint(v):
    return repr(v) if isinstance(v, int) and not isinstance(v, bool) else "?" + repr(v)

def flist(l):
    return "[" + ",".join(fint(v) for v in l) + "]" if isinstance(l, list) else "?" + repr(l)

def flpairs(l):
    return sep("%s=%s" % (k, flist(v)) for k, v in l)

def fbool(b):
    return "b True" if b is True else "b False" if b is False else "b ?" + repr(b)

def clist(s):
    return [] if s == "-" else s.split(",")

def cpairs(s):
    return [(p.split("=")[0], int(p.split("=")[1])) for p in clist(s)]


def arg_forms(pairs, sel):
    """the same pairs handed over in the different shapes update()/create()/__init__ accept:
    -> (args, kwargs).  `sel` (derived from the case, not random) picks the shape."""
    from ioflo.aid.odicting import odict
    keys = [k for k, _ in pairs]
    uniq = len(set(keys)) == len(keys)
    ident = all(k.isidentifier() for k in keys)
    shapes = ["pairs", "split", "gen", "iter", "map", "revrev"]
    if uniq:
        shapes += ["dict", "odict", "items"]
        if ident:
            shapes += ["kwargs", "mixed"]
    shape = shapes[sel % len(shapes)]
    # one-shot iterables: whatever is iterated must be iterated once
    if shape == "gen":
        return ((p for p in list(pairs)),), {}
    if shape == "iter":
        return (iter(list(pairs)),), {}
    if shape == "map":
        return (map(tuple, [list(p) for p in pairs]),), {}
    if shape == "revrev":
        return (reversed(list(reversed(list(pairs)))),), {}
    if shape == "items":
        return (dict(pairs).items(),), {}
    if shape == "pairs":
        return (list(pairs),), {}
    if shape == "split":
        h = len(pairs) // 2
        return (list(pairs[:h]), tuple(pairs[h:])), {}
    if shape == "dict":
        return (dict(pairs),), {}
    if shape == "odict":
        return (odict(pairs),), {}
    if shape == "kwargs":
        return (), dict(pairs)
    h = len(pairs) // 2
    return (list(pairs[:h]),), dict(pairs[h:])


def one_shot(l, sel):
    """a list of keys handed over as list / tuple / iterator / generator / reversed / map / dict keys view"""
    l = list(l)
    k = sel % 7
    if k == 0: return l
    if k == 1: return tuple(l)
    if k == 2: return iter(l)
    if k == 3: return (x for x in l)
    if k == 4: return reversed(l[::-1])
    if k == 5: return map(str, l)
    return dict.fromkeys(l).keys() if len(set(l)) == len(l) else iter(l)


def sel_of(words):
    return zlib.crc32(" ".join(words).encode())


# /repo HEAD: at pickle protocols 0 and 1 an odict/lodict is rebuilt by copyreg._reconstructor (dict part filled
# directly, no __new__), which works for a non-empty one and returns an unusable object (no _keys) for an EMPTY one
# (defect D39f, fixes/D39f-odict-pickle-protocol-0-1-empty.patch).  Until that patch is in /repo the generated
# sequences do not pickle an empty odict/lodict at protocol 0/1 (`sanitize`).  With the patch every protocol takes the
# __new__ path: set D39F_APPLIED = True (pickle01 is then answered by the model's `pickle` and empties are included).
D39F_APPLIED = True


def roundtrip(o, sel, legacy=False, all_protocols=False):
    """pickle round trip, copy.copy or copy.deepcopy.  odict/lodict: `pickle` = protocols 2..5 + copy + deepcopy,
    `pickle01` (legacy=True) = protocols 0 and 1; modict (own __reduce__) and oset: every protocol 0..5"""
    import copy
    if legacy:
        return pickle.loads(pickle.dumps(o, sel % 2))
    if all_protocols:
        k = sel % 8
        if k < 6:
            return pickle.loads(pickle.dumps(o, k))
        return copy.copy(o) if k == 6 else copy.deepcopy(o)
    k = sel % 6
    if k < 4:
        return pickle.loads(pickle.dumps(o, 2 + k))
    return copy.copy(o) if k == 4 else copy.deepcopy(o)


# ------------------------------------------------------------------ implementation adapters
class BadOp(Exception):
    pass


def obj(objs, i):
    i = int(i)
    if i < 0 or i >= len(objs):
        raise BadOp()
    return objs[i]


def d_dump(objs):
    from ioflo.aid.odicting import lodict
    out = []
    for o in objs:
        name = "lod" if isinstance(o, lodict) else "od"
        try:
            body = fpairs(o.items())
        except Exception as ex:
            body = errname(ex)
        out.append("%s{%s}#%d" % (name, body, len(o)))
    return " ".join(out)


def d_consistency(objs, universe):
    """API consistency of every live odict/lodict (the model has no counterpart: any hit is a failure)"""
    from ioflo.aid.odicting import lodict
    for n, o in enumerate(objs):
        try:
            items = o.items()
            keys = [k for k, _ in items]
            if o.keys() != keys or list(o) != keys or list(o.iterkeys()) != keys:
                return "!%d:keys/iter differ from items" % n
            if o.values() != [v for _, v in items] or list(o.itervalues()) != o.values():
                return "!%d:values differ from items" % n
            if list(o.iteritems()) != items:
                return "!%d:iteritems differ from items" % n
            if len(o) != len(keys) or len(set(keys)) != len(keys):
                return "!%d:len/duplicate keys" % n
            if list(reversed(o)) != keys[::-1]:
                return "!%d:reversed() is not the reverse of iteration" % n
            low = isinstance(o, lodict)
            if low and any(k != k.lower() for k in keys):
                return "!%d:lodict key not lower case" % n
            for k in universe:
                want = (k.lower() if low else k) in keys
                if (k in o) != want:
                    return "!%d:membership of %s" % (n, k)
                if want and o[k] != dict(items)[k.lower() if low else k]:
                    return "!%d:getitem of %s" % (n, k)
        except Exception as ex:
            return "!%d:%s" % (n, errname(ex))
    return ""


def d_exec(objs, w):
    from ioflo.aid.odicting import odict, lodict
    cls = {"od": odict, "lod": lodict}
    op = w[0]
    if op == "new":
        a, kw = arg_forms(cpairs(w[2]), sel_of(w))
        objs.append(cls[w[1]](*a, **kw))
        return "ref %d" % (len(objs) - 1)
    if op == "newfrom":
        o = obj(objs, w[2])
        objs.append(cls[w[1]](o))
        return "ref %d" % (len(objs) - 1)
    if op == "newfk":
        c = cls[w[1]].fromkeys(one_shot(clist(w[2]), sel_of(w)), int(w[3]))
        if type(c) is not cls[w[1]]:
            return "?fromkeys type " + type(c).__name__
        objs.append(c); return "ref %d" % (len(objs) - 1)
    o = obj(objs, w[1])
    if op == "set":
        o[w[2]] = int(w[3]); return "None"
    if op == "del":
        del o[w[2]]; return "None"
    if op == "getitem":
        return "v " + fint(o[w[2]])
    if op == "has":
        return fbool(w[2] in o)
    if op == "get":
        r = o.get(w[2]) if w[3] == "~" else o.get(w[2], int(w[3]))
        return "None" if r is None else "v " + fint(r)
    if op == "len":
        return "n %d" % len(o)
    if op == "keys":
        return "k " + skeys(o.keys())
    if op == "values":
        return "vs " + sep(fint(v) for v in o.values())
    if op == "items":
        return "it " + fpairs(o.items())
    if op == "append":
        r = o.append(w[2], int(w[3])); return "None" if r is None else "?" + repr(r)
    if op == "clear":
        o.clear(); return "None"
    if op == "copy":
        c = o.copy()
        if type(c) is not type(o) or c is o:
            return "?copy type/identity"
        objs.append(c); return "ref %d" % (len(objs) - 1)
    if op in ("pickle", "pickle01"):
        c = roundtrip(o, sel_of(w + [str(len(objs))]), legacy=(op == "pickle01"))
        if type(c) is not type(o) or c is o:
            return "?pickle type/identity"
        objs.append(c); return "ref %d" % (len(objs) - 1)
    if op == "createp":
        a, kw = arg_forms(cpairs(w[2]), sel_of(w))
        o.create(*a, **kw); return "None"
    if op == "sift":
        c = o.sift() if w[2] == "~" else o.sift(one_shot(clist(w[2]), sel_of(w)))
        if type(c) is not type(o) or c is o:
            return "?sift type/identity"
        objs.append(c); return "ref %d" % (len(objs) - 1)
    if op == "insert":
        o.insert(int(w[2]), w[3], int(w[4])); return "None"
    if op == "pop":
        r = o.pop(w[2]) if w[3] == "~" else o.pop(w[2], int(w[3]))
        return "v " + fint(r)
    if op == "popitem":
        k, v = o.popitem(); return "p %s=%s" % (KF[0](k), fint(v))
    if op == "reorder":
        o.reorder(obj(objs, w[2])); return "None"
    if op == "reorderbad":
        o.reorder({"a": 1}); return "None"
    if op == "setdefault":
        return "v " + fint(o.setdefault(w[2], int(w[3])))
    if op == "updatep":
        a, kw = arg_forms(cpairs(w[2]), sel_of(w))
        o.update(*a, **kw); return "None"
    if op == "update":
        o.update(obj(objs, w[2])); return "None"
    if op == "create":
        o.create(obj(objs, w[2])); return "None"
    if op == "eq":
        return fbool(o == obj(objs, w[2]))
    if op == "rev":
        return "k " + skeys(list(reversed(o)))
    if op in ("ior", "or"):
        return ior_or(objs, o, int(w[1]), op, w)
    raise BadOp()


def ior_or(objs, o, i, op, w):
    """`o |= other` / `o | other` with other a dict, an odict or a list of pairs"""
    from ioflo.aid.odicting import odict
    pairs = cpairs(w[2])
    keys = [k for k, _ in pairs]
    shapes = [list(pairs)] + ([dict(pairs), odict(pairs)] if len(set(keys)) == len(keys) else [])
    other = shapes[sel_of(w) % len(shapes)]
    if op == "ior":
        o |= other
        if o is not objs[i]:
            return "?|= returned another object"
        return "None"
    c = o | other
    if type(c) is not type(o) or c is o:
        return "?| result type/identity " + type(c).__name__
    objs.append(c); return "ref %d" % (len(objs) - 1)


def m_dump(objs):
    out = []
    for o in objs:
        try:
            body = flpairs(o.listitems())
        except Exception as ex:
            body = errname(ex)
        out.append("mod{%s}#%d" % (body, len(o)))
    return " ".join(out)


def m_consistency(objs, universe):
    for n, o in enumerate(objs):
        try:
            li = o.listitems()
            keys = [k for k, _ in li]
            if o.keys() != keys or list(o) != keys or len(o) != len(keys) or len(set(keys)) != len(keys):
                return "!%d:keys/iter/len differ from listitems" % n
            if any((not isinstance(l, list)) or not l for _, l in li):
                return "!%d:value list empty or not a list" % n
            if o.items() != [(k, l[-1]) for k, l in li] or o.values() != [l[-1] for _, l in li]:
                return "!%d:items/values are not the newest" % n
            if o.allitems() != [(k, v) for k, l in li for v in l] or o.listvalues() != [l for _, l in li]:
                return "!%d:allitems/listvalues differ" % n
            if list(o.iteritems()) != o.items() or list(o.iterallitems()) != o.allitems():
                return "!%d:iterators differ" % n
            for k in universe:
                if (k in o) != (k in keys) or o.has_key(k) != (k in keys):
                    return "!%d:membership of %s" % (n, k)
                if k in keys and o[k] != dict(li)[k][-1]:
                    return "!%d:getitem of %s is not the newest" % (n, k)
        except Exception as ex:
            return "!%d:%s" % (n, errname(ex))
    return ""


def m_exec(objs, w):
    from ioflo.aid.odicting import modict
    op = w[0]
    if op == "new":
        a, kw = arg_forms(cpairs(w[1]), sel_of(w))
        objs.append(modict(*a, **kw)); return "ref %d" % (len(objs) - 1)
    if op == "newfrom":
        objs.append(modict(obj(objs, w[1]))); return "ref %d" % (len(objs) - 1)
    o = obj(objs, w[1])
    if op == "set":
        o[w[2]] = int(w[3]); return "None"
    if op == "append":
        (o.append if sel_of(w) % 2 else o.add)(w[2], int(w[3])); return "None"
    if op == "getitem":
        return "v " + fint(o[w[2]])
    if op == "has":
        return fbool(w[2] in o)
    if op == "del":
        del o[w[2]]; return "None"
    if op == "len":
        return "n %d" % len(o)
    if op == "keys":
        return "k " + sep(o.keys())
    if op == "clear":
        o.clear(); return "None"
    if op == "values":
        return "vs " + sep(fint(v) for v in o.values())
    if op == "listvalues":
        return "ls " + sep(flist(l) for l in o.listvalues())
    if op == "allvalues":
        return "vs " + sep(fint(v) for v in o.allvalues())
    if op == "items":
        return "it " + fpairs(o.items())
    if op == "listitems":
        return "lit " + flpairs(o.listitems())
    if op == "allitems":
        return "it " + fpairs(o.allitems())
    if op == "copy":
        c = o.copy()
        if type(c) is not modict or c is o:
            return "?copy type/identity"
        objs.append(c); return "ref %d" % (len(objs) - 1)
    if op == "pickle":
        c = roundtrip(o, sel_of(w + [str(len(objs))]), all_protocols=True)
        if type(c) is not modict or c is o:
            return "?pickle type/identity"
        objs.append(c); return "ref %d" % (len(objs) - 1)
    if op == "get":
        kw = {} if w[4] == "-1" and sel_of(w) % 2 else {"index": int(w[4])}
        f = o.get if sel_of(w) % 3 else o.getone
        r = f(w[2], **kw) if w[3] == "~" else f(w[2], int(w[3]), **kw)
        return "None" if r is None else "v " + fint(r)
    if op == "getlist":
        return "l " + flist(o.getlist(w[2]))
    if op == "replace":
        o.replace(w[2], int(w[3])); return "None"
    if op == "setdefault":
        return "v " + fint(o.setdefault(w[2], int(w[3])))
    if op == "pop":
        kw = {} if w[4] == "-1" and sel_of(w) % 2 else {"index": int(w[4])}
        r = o.pop(w[2], **kw) if w[3] == "~" else o.pop(w[2], int(w[3]), **kw)
        return "v " + fint(r)
    if op == "poplist":
        f = o.poplist if sel_of(w) % 2 else o.popall
        r = f(w[2]) if w[3] == "~" else f(w[2], int(w[3]))
        return "l " + flist(r) if isinstance(r, list) else "v " + fint(r)
    if op == "popitem":
        k, v = o.popitem(last=bool(int(w[2])), index=int(w[3])); return "p %s=%s" % (k, fint(v))
    if op == "poplistitem":
        k, l = o.poplistitem(last=bool(int(w[2]))); return "lp %s=%s" % (k, flist(l))
    if op == "fromkeys":
        c = o.fromkeys(one_shot(clist(w[2]), sel_of(w)), int(w[3]))
        if type(c) is not modict:
            return "?fromkeys type"
        objs.append(c); return "ref %d" % (len(objs) - 1)
    if op == "update":
        a, kw = arg_forms(cpairs(w[2]), sel_of(w))
        o.update(*a, **kw); return "None"
    if op == "updatefrom":
        if int(w[1]) == int(w[2]):
            raise BadOp()          # m.update(m) never returns (appends to the lists it iterates over)
        o.update(obj(objs, w[2])); return "None"
    if op == "create":
        a, kw = arg_forms(cpairs(w[2]), sel_of(w))
        o.create(*a, **kw); return "None"
    if op == "eq":
        return fbool(o == obj(objs, w[2]))
    if op == "rev":
        return "k " + sep(list(reversed(o)))
    if op in ("ior", "or"):
        return ior_or(objs, o, int(w[1]), op, w)
    raise BadOp()


def s_dump(objs):
    return " ".join("os{%s}#%d" % (sep(list(o)), len(o)) for o in objs)


def s_consistency(objs, universe):
    for n, o in enumerate(objs):
        try:
            l = list(o)
            if len(set(l)) != len(l) or len(o) != len(l) or list(reversed(o)) != l[::-1]:
                return "!%d:duplicates/len/reversed" % n
            for k in universe:
                if (k in o) != (k in l):
                    return "!%d:membership of %s" % (n, k)
        except Exception as ex:
            return "!%d:%s" % (n, errname(ex))
    return ""


def s_arg(objs, a, sel=None):
    if a[0] == "S":
        return obj(objs, a[1:])
    if a[0] == "L":
        return clist(a[1:]) if sel is None else one_shot(clist(a[1:]), sel)
    raise BadOp()


def s_exec(objs, w):
    from ioflo.aid.osetting import oset
    op = w[0]
    if op == "new":
        l = clist(w[1])
        objs.append(oset(one_shot(l, sel_of(w))) if l or sel_of(w) % 2 else oset()); return "ref %d" % (len(objs) - 1)
    i = int(w[1])
    o = obj(objs, i)

    def newobj(r):
        if type(r) is not oset:
            return "?result type " + type(r).__name__
        objs.append(r); return "ref %d" % (len(objs) - 1)
    if op == "add":
        o.add(w[2]); return "None"
    if op == "pickle":
        return newobj(roundtrip(o, sel_of(w + [str(len(objs))]), all_protocols=True))
    if op == "discard":
        o.discard(w[2]); return "None"
    if op == "remove":
        o.remove(w[2]); return "None"
    if op == "pop":
        last = bool(int(w[2]))
        return "e " + (o.pop() if last and sel_of(w) % 2 else o.pop(last=last))
    if op == "clear":
        o.clear(); return "None"
    if op == "has":
        return fbool(w[2] in o)
    if op == "len":
        return "n %d" % len(o)
    if op == "iter":
        return "k " + sep(list(o))
    if op == "rev":
        return "k " + sep(list(reversed(o)))
    if op in ("or", "and", "sub", "rsub", "xor"):
        a = s_arg(objs, w[2])
        lit = not isinstance(a, oset)
        flip = lit and sel_of(w) % 2          # `list | oset` reaches the same method through __ror__ etc.
        if op == "or":
            return newobj((a | o) if flip else (o | a))
        if op == "and":
            return newobj((a & o) if flip else (o & a))
        if op == "xor":
            return newobj((a ^ o) if flip else (o ^ a))
        if op == "sub":
            return newobj(o - a)
        if lit:
            return newobj(a - o)                # list - oset -> oset.__rsub__
        return newobj(oset.__rsub__(o, a))
    if op in ("ior", "iand", "ixor", "isub"):
        a = s_arg(objs, w[2], sel_of(w))
        if op == "ior":
            o |= a
        elif op == "iand":
            o &= a
        elif op == "ixor":
            o ^= a
        else:
            o -= a
        if o is not objs[i]:
            return "?in-place operator returned another object"
        return "None"
    if op == "disjoint":
        return fbool(o.isdisjoint(s_arg(objs, w[2], sel_of(w))))
    if op in ("le", "lt", "ge", "gt"):
        p = obj(objs, w[2])
        return fbool({"le": o <= p, "lt": o < p, "ge": o >= p, "gt": o > p}[op])
    if op == "eq":
        return fbool(o == s_arg(objs, w[2]))
    raise BadOp()


KIND = {"d": (d_exec, d_dump, d_consistency), "m": (m_exec, m_dump, m_consistency), "s": (s_exec, s_dump, s_consistency),
        "p": (s_exec, s_dump, s_consistency),
        "l": (m_exec, m_dump, m_consistency)}     # "l": modict calls answered by the list-object Lean model      # "p": the same oset calls, answered by the cell-level Lean model


def universe_of(case):
    u = set()
    for w in case["ops"]:
        for t in w:
            for part in t.replace("=", ",").replace("S", ",").replace("L", ",").split(","):
                if part.isalnum() and not part.lstrip("-").isdigit():
                    u.add(part); u.add(part.lower()); u.add(part.upper())
    return sorted(u)


CASE_LIMIT_S = 10          # a case normally takes well under a millisecond
_timeouts = [0]


class _CallTimeout(BaseException):
    pass


def _alarm(signum, frame):
    raise _CallTimeout()


def run_impl(case):
    """a call that does not return within the limit ends the case with the line TIMEOUT: if the lines before it
    already violate the property that is reported; if the timeout is the only symptom the run ends as an
    infrastructure failure (exit 2), never as a verdict (DESIGN 2.2)"""
    import signal
    limit = CASE_LIMIT_S if _timeouts[0] == 0 else 1
    if _timeouts[0] > 20:
        return ["SKIPPED"]          # enough calls hung already; the verdict comes from the cases that were run
    out = []
    old = signal.signal(signal.SIGALRM, _alarm)
    signal.setitimer(signal.ITIMER_REAL, limit)
    try:
        _run_impl(case, out)
    except _CallTimeout:
        _timeouts[0] += 1
        out.append("TIMEOUT")
    finally:
        signal.setitimer(signal.ITIMER_REAL, 0)
        signal.signal(signal.SIGALRM, old)
    return out


def _run_impl(case, out):
    if case.get("uni"):
        KF[0] = utok
        try:
            real = dict(case, ops=[[UTOK.sub(lambda m: unutok(m.group(0)), t) for t in w] for w in case["ops"]])
            real.pop("uni")
            toks = set(m for w in case["ops"] for t in w for m in UTOK.findall(t))
            keys = set(unutok(t) for t in toks)
            _run_impl2(real, out, universe=sorted(keys | {k.lower() for k in keys} | {k.upper() for k in keys}))
        finally:
            KF[0] = lambda k: k
        return out
    return _run_impl2(case, out)


BADKEYS = {"XL": lambda: ["x"], "XD": lambda: {"x": 1}, "XS": lambda: {"x"},
           "XI": lambda: "zero"}      # XI: a non-integer INDEX (insert, modict pop / popitem)


UNHASHABLE = ["XL", "XD", "XS"]


def has_bad(w):
    return any(t in BADKEYS or any(p.split("=")[0] in BADKEYS for p in t.split(",")) for t in w[1:])


def bad_exec(kind, objs, w):
    """a call with an UNHASHABLE key (list / dict / set): whatever it raises, the container must stay as it was
    (a multi-item update may have stored the pairs before the bad one, like dict.update)"""
    op = w[0]
    o = obj(objs, w[1])
    K = lambda t: BADKEYS[t]() if t in BADKEYS else t
    if kind == "d":
        if op == "set": o[K(w[2])] = int(w[3]); return "None"
        if op == "del": del o[K(w[2])]; return "None"
        if op == "getitem": return "v " + fint(o[K(w[2])])
        if op == "has": return fbool(K(w[2]) in o)
        if op == "get":
            r = o.get(K(w[2])) if w[3] == "~" else o.get(K(w[2]), int(w[3]))
            return "None" if r is None else "v " + fint(r)
        if op == "append": o.append(K(w[2]), int(w[3])); return "None"
        if op == "insert": o.insert(K(w[2]) if w[2] == "XI" else int(w[2]), K(w[3]), int(w[4])); return "None"
        if op == "pop":
            r = o.pop(K(w[2])) if w[3] == "~" else o.pop(K(w[2]), int(w[3]))
            return "v " + fint(r)
        if op == "setdefault": return "v " + fint(o.setdefault(K(w[2]), int(w[3])))
        if op == "updatep":
            o.update([(K(p.split("=")[0]), int(p.split("=")[1])) for p in clist(w[2])]); return "None"
    if kind in ("m", "l"):
        if op in ("set", "append"): o[K(w[2])] = int(w[3]); return "None"
        if op == "del": del o[K(w[2])]; return "None"
        if op == "getitem": return "v " + fint(o[K(w[2])])
        if op == "has": return fbool(K(w[2]) in o)
        if op == "replace": o.replace(K(w[2]), int(w[3])); return "None"
        if op == "setdefault": return "v " + fint(o.setdefault(K(w[2]), int(w[3])))
        if op == "update":
            o.update([(K(p.split("=")[0]), int(p.split("=")[1])) for p in clist(w[2])]); return "None"
        if kind == "m" and op == "pop" and w[3] == "~" and w[4] == "XI":
            return "v " + fint(o.pop(w[2], index=K("XI")))
        if kind == "m" and op == "popitem" and w[3] == "XI":
            k, v = o.popitem(last=bool(int(w[2])), index=K("XI")); return "p %s=%s" % (k, fint(v))
    if kind in ("s", "p"):
        if op == "add": o.add(K(w[2])); return "None"
        if op == "discard": o.discard(K(w[2])); return "None"
        if op == "has": return fbool(K(w[2]) in o)
        if kind == "s" and op == "remove": o.remove(K(w[2])); return "None"
    raise BadOp()


def bad_ref(kind, low):
    """what the reference says for a call with an unhashable key: rejected (odict/modict/oset hash the key: TypeError;
    lodict calls key.lower() first: AttributeError)"""
    return "Rejected"


def _run_impl2(case, out, universe=None):
    ex, dump, cons = KIND[case["kind"]]
    objs = []
    out.append("ok")
    uni = universe if universe is not None else universe_of(case)
    for w in case["ops"]:
        try:
            r = bad_exec(case["kind"], objs, w) if has_bad(w) else ex(objs, w)
        except BadOp:
            out.append("bad-op"); continue
        except ERRS as e:
            # which exception an unhashable key gets is CPython's business (dict.pop on an empty dict does not even hash
            # it: KeyError): the property only says the call is rejected and changes nothing
            r = "ERR Rejected" if has_bad(w) else errname(e)
        line = r + " | " + dump(objs)
        c = cons(objs, uni)
        out.append(line + (" " + c if c else ""))
    return out


# ------------------------------------------------------------------ reference containers (the oracle)
class Raise(Exception):
    def __init__(self, name):
        self.name = name


def py_index(l, i):
    try:
        return l[i]
    except IndexError:
        raise Raise("IndexError")


class RefD:
    """insertion-ordered dictionary: a list of [key, value]; lodict = the same with every key lower-cased first"""
    def __init__(self, low, pairs=()):
        self.low, self.it = low, []
        for k, v in pairs:
            self.set(k, v)
    def n(self, k):
        return LOWER[0](k) if self.low else k
    def find(self, k):
        k = self.n(k)
        for e in self.it:
            if e[0] == k:
                return e
        return None
    def set(self, k, v):
        e = self.find(k)
        if e:
            e[1] = v
        else:
            self.it.append([self.n(k), v])
    def delete(self, k):
        e = self.find(k)
        if not e:
            raise Raise("KeyError")
        self.it.remove(e)
    def items(self):
        return [(k, v) for k, v in self.it]


def ref_d(ops):
    objs, out = [], ["ok"]
    def dump():
        return " ".join("%s{%s}#%d" % ("lod" if o.low else "od", fpairs(o.items()), len(o.it)) for o in objs)
    def new(o):
        objs.append(o); return "ref %d" % (len(objs) - 1)
    for w in ops:
        op = w[0]
        try:
            if op == "new":
                r = new(RefD(w[1] == "lod", cpairs(w[2])))
            elif op == "newfrom":
                r = new(RefD(w[1] == "lod", obj(objs, w[2]).items()))
            elif op == "newfk":
                r = new(RefD(w[1] == "lod", [(k, int(w[3])) for k in clist(w[2])]))
            elif has_bad(w):
                o = obj(objs, w[1])
                if op == "updatep" and not o.low:
                    for p in clist(w[2]):                  # like dict.update: the pairs before the bad one are stored
                        if p.split("=")[0] in BADKEYS: break
                        o.set(p.split("=")[0], int(p.split("=")[1]))
                elif op not in ("set", "del", "getitem", "has", "get", "append", "insert", "pop", "setdefault", "updatep"):
                    raise BadOp()
                raise Raise(bad_ref("d", o.low))
            else:
                o = obj(objs, w[1]); r = "None"
                if op == "set":
                    o.set(w[2], int(w[3]))
                elif op == "del":
                    o.delete(w[2])
                elif op == "getitem":
                    e = o.find(w[2])
                    if not e: raise Raise("KeyError")
                    r = "v %d" % e[1]
                elif op == "has":
                    r = fbool(o.find(w[2]) is not None)
                elif op == "get":
                    e = o.find(w[2])
                    r = "v %d" % e[1] if e else ("None" if w[3] == "~" else "v %d" % int(w[3]))
                elif op == "len":
                    r = "n %d" % len(o.it)
                elif op == "keys":
                    r = "k " + sep(k for k, _ in o.it)
                elif op == "values":
                    r = "vs " + sep(str(v) for _, v in o.it)
                elif op == "items":
                    r = "it " + fpairs(o.items())
                elif op == "append":
                    if o.find(w[2]): raise Raise("KeyError")
                    o.set(w[2], int(w[3]))
                elif op == "clear":
                    o.it = []
                elif op in ("copy", "pickle", "pickle01"):
                    r = new(RefD(o.low, o.items()))
                elif op in ("createp", "create"):
                    ps = cpairs(w[2]) if op == "createp" else obj(objs, w[2]).items()
                    for k, v in ps:
                        if not o.find(k):
                            o.set(k, v)
                elif op == "sift":
                    if w[2] == "~":
                        r = new(RefD(o.low, o.items()))
                    else:
                        ps = []
                        for k in clist(w[2]):
                            e = o.find(k)
                            if not e: raise Raise("KeyError")
                            ps.append((k, e[1]))
                        r = new(RefD(o.low, ps))
                elif op == "insert":
                    if o.find(w[3]): raise Raise("KeyError")
                    o.it.insert(int(w[2]), [o.n(w[3]), int(w[4])])
                elif op == "pop":
                    e = o.find(w[2])
                    if e:
                        o.it.remove(e); r = "v %d" % e[1]
                    elif w[3] == "~":
                        raise Raise("KeyError")
                    else:
                        r = "v %d" % int(w[3])
                elif op == "popitem":
                    if not o.it: raise Raise("KeyError")
                    k, v = o.it.pop(); r = "p %s=%d" % (k, v)
                elif op == "reorder":
                    p = obj(objs, w[2])
                    # values taken from other, other's keys moved to the end in other's order
                    for k, v in RefD(o.low, p.items()).items():
                        e = o.find(k)
                        if e: o.it.remove(e)
                        o.it.append([k, v])
                elif op == "reorderbad":
                    raise Raise("ValueError")
                elif op == "setdefault":
                    e = o.find(w[2])
                    if not e:
                        o.set(w[2], int(w[3])); e = o.find(w[2])
                    r = "v %d" % e[1]
                elif op in ("updatep", "update"):
                    ps = cpairs(w[2]) if op == "updatep" else obj(objs, w[2]).items()
                    for k, v in ps:
                        o.set(k, v)
                elif op == "eq":
                    p = obj(objs, w[2])
                    r = fbool(sorted(o.items()) == sorted(p.items()))
                elif op == "rev":
                    r = "k " + sep(k for k, _ in o.it[::-1])
                elif op == "ior":
                    for k, v in cpairs(w[2]):
                        o.set(k, v)
                elif op == "or":
                    c = RefD(o.low, o.items())
                    for k, v in cpairs(w[2]):
                        c.set(k, v)
                    r = new(c)
                else:
                    raise BadOp()
        except BadOp:
            out.append("bad-op"); continue
        except Raise as e:
            r = "ERR " + e.name
        out.append(r + " | " + dump())
    return out


def ref_m(ops):
    """multi-valued ordered dictionary: list of [key, [values]]; every stored value is kept, the newest is returned"""
    objs, out = [], ["ok"]
    def dump():
        return " ".join("mod{%s}#%d" % (flpairs(o), len(o)) for o in objs)
    def new(o):
        objs.append(o); return "ref %d" % (len(objs) - 1)
    def find(o, k):
        for e in o:
            if e[0] == k:
                return e
        return None
    def add(o, k, v):
        e = find(o, k)
        if e: e[1].append(v)
        else: o.append([k, [v]])
    def build(ps):
        o = []
        for k, v in ps: add(o, k, v)
        return o
    for w in ops:
        op = w[0]
        try:
            if op == "new":
                r = new(build(cpairs(w[1])))
            elif op == "newfrom":
                r = new([[k, list(l)] for k, l in obj(objs, w[1])])
            elif has_bad(w):
                o = obj(objs, w[1])
                if op == "update":
                    for p in clist(w[2]):
                        if p.split("=")[0] in BADKEYS: break
                        add(o, p.split("=")[0], int(p.split("=")[1]))
                elif op not in ("set", "append", "del", "getitem", "has", "replace", "setdefault", "pop", "popitem"):
                    raise BadOp()
                raise Raise("Rejected")
            else:
                o = obj(objs, w[1]); r = "None"
                e = find(o, w[2]) if len(w) > 2 and op not in ("popitem", "poplistitem", "fromkeys", "update", "updatefrom", "create", "eq", "ior", "or") else None
                if op in ("set", "append"):
                    add(o, w[2], int(w[3]))
                elif op == "getitem":
                    if not e: raise Raise("KeyError")
                    r = "v %d" % e[1][-1]
                elif op == "has":
                    r = fbool(e is not None)
                elif op == "del":
                    if not e: raise Raise("KeyError")
                    o.remove(e)
                elif op == "len":
                    r = "n %d" % len(o)
                elif op == "keys":
                    r = "k " + sep(k for k, _ in o)
                elif op == "clear":
                    del o[:]
                elif op == "values":
                    r = "vs " + sep(str(l[-1]) for _, l in o)
                elif op == "listvalues":
                    r = "ls " + sep(flist(l) for _, l in o)
                elif op == "allvalues":
                    r = "vs " + sep(str(v) for _, l in o for v in l)
                elif op == "items":
                    r = "it " + fpairs((k, l[-1]) for k, l in o)
                elif op == "listitems":
                    r = "lit " + flpairs(o)
                elif op == "allitems":
                    r = "it " + fpairs((k, v) for k, l in o for v in l)
                elif op in ("copy", "pickle"):
                    r = new([[k, list(l)] for k, l in o])
                elif op == "get":
                    v = None if w[3] == "~" else int(w[3])
                    if e:
                        try: v = e[1][int(w[4])]
                        except IndexError: pass
                    r = "None" if v is None else "v %d" % v
                elif op == "getlist":
                    r = "l " + flist(e[1] if e else [])
                elif op == "replace":
                    if e: e[1][:] = [int(w[3])]
                    else: o.append([w[2], [int(w[3])]])
                elif op == "setdefault":
                    if not e:
                        add(o, w[2], int(w[3])); e = find(o, w[2])
                    r = "v %d" % e[1][-1]
                elif op == "pop":
                    if e:
                        r = "v %d" % py_index(e[1], int(w[4])); o.remove(e)      # a bad index is rejected: nothing removed
                    elif w[3] == "~": raise Raise("KeyError")
                    else: r = "v %d" % int(w[3])
                elif op == "poplist":
                    if e:
                        o.remove(e); r = "l " + flist(e[1])
                    elif w[3] == "~": raise Raise("KeyError")
                    else: r = "v %d" % int(w[3])
                elif op in ("popitem", "poplistitem"):
                    if not o: raise Raise("KeyError")
                    k, l = o[-1 if int(w[2]) else 0]
                    r = "lp %s=%s" % (k, flist(l)) if op == "poplistitem" else "p %s=%d" % (k, py_index(l, int(w[3])))
                    o.pop(-1 if int(w[2]) else 0)                                  # only after the index was accepted
                elif op == "fromkeys":
                    r = new(build((k, int(w[3])) for k in clist(w[2])))
                elif op == "update":
                    for k, v in cpairs(w[2]): add(o, k, v)
                elif op == "updatefrom":
                    if int(w[1]) == int(w[2]): raise BadOp()
                    for k, l in obj(objs, w[2]):
                        for v in l: add(o, k, v)
                elif op == "create":
                    for k, v in cpairs(w[2]):
                        if not find(o, k): add(o, k, v)
                elif op == "eq":
                    p = obj(objs, w[2])
                    r = fbool(sorted(map(repr, o)) == sorted(map(repr, p)))
                elif op == "rev":
                    r = "k " + sep(k for k, _ in o[::-1])
                elif op == "ior":
                    for k, v in cpairs(w[2]): add(o, k, v)
                elif op == "or":
                    c = [[k, list(l)] for k, l in o]
                    for k, v in cpairs(w[2]): add(c, k, v)
                    r = new(c)
                else:
                    raise BadOp()
        except BadOp:
            out.append("bad-op"); continue
        except Raise as e:
            r = "ERR " + e.name
        out.append(r + " | " + dump())
    return out


def uniq(l):
    r = []
    for x in l:
        if x not in r: r.append(x)
    return r


def oracle_s(case, impl_out):
    """replay with the reference set; where the reference allows several results (order of an intersection)
    the one the implementation returned is carried forward, provided it is among the acceptable ones"""
    import copy
    if not impl_out or impl_out[0] != "ok":
        return "first line is not ok"
    state = []
    for n, w in enumerate(case["ops"], 1):
        if n >= len(impl_out):
            return "missing output line %d" % n
        got = impl_out[n]
        cands = ref_s_apply(copy.deepcopy(state), w)
        for line, newstate in cands:
            if got == line:
                state = newstate
                break
        else:
            return "step %d %s: implementation %r, reference set %r" % (n, " ".join(w), got, [c[0] for c in cands])
    return None


def ref_s_apply(st, w):
    import copy
    def dump(s):
        return " ".join("os{%s}#%d" % (sep(o), len(o)) for o in s)
    def arg(a):
        if a[0] == "S": return obj(st, a[1:]), True
        if a[0] == "L": return clist(a[1:]), False
        raise BadOp()
    op = w[0]
    try:
        if op == "new":
            st.append(uniq(clist(w[1]))); return [("ref %d | %s" % (len(st) - 1, dump(st)), st)]
        i = int(w[1]); o = obj(st, i); r = "None"
        if has_bad(w):
            if op not in ("add", "discard", "has", "remove"): raise BadOp()
            raise Raise("Rejected")
        if op == "add":
            if w[2] not in o: o.append(w[2])
        elif op == "discard":
            if w[2] in o: o.remove(w[2])
        elif op == "remove":
            if w[2] not in o: raise Raise("KeyError")
            o.remove(w[2])
        elif op == "pop":
            if not o: raise Raise("KeyError")
            r = "e " + o.pop(-1 if int(w[2]) else 0)
        elif op == "clear":
            del o[:]
        elif op == "has":
            r = fbool(w[2] in o)
        elif op == "len":
            r = "n %d" % len(o)
        elif op == "iter":
            r = "k " + sep(o)
        elif op == "rev":
            r = "k " + sep(o[::-1])
        elif op == "pickle":
            s2 = copy.deepcopy(st); s2.append(list(o))
            return [("ref %d | %s" % (len(s2) - 1, dump(s2)), s2)]
        elif op in ("or", "and", "sub", "rsub", "xor"):
            a, _ = arg(w[2]); a = list(a)
            if op == "or": res = [uniq(o + a)]
            elif op == "and": res = [[x for x in o if x in a], uniq([x for x in a if x in o])]
            elif op == "sub": res = [[x for x in o if x not in a]]
            elif op == "rsub": res = [uniq([x for x in a if x not in o])]
            else: res = [[x for x in o if x not in a] + uniq([x for x in a if x not in o])]
            outs = []
            for x in res:
                s2 = copy.deepcopy(st); s2.append(list(x))
                outs.append(("ref %d | %s" % (len(s2) - 1, dump(s2)), s2))
            return outs
        elif op in ("ior", "iand", "ixor", "isub"):
            a, _ = arg(w[2]); a = list(a)
            if op == "ior":
                for x in a:
                    if x not in o: o.append(x)
            elif op == "iand":
                o[:] = [x for x in o if x in a]
            elif op == "isub":
                o[:] = [x for x in o if x not in a]
            else:
                o[:] = [x for x in o if x not in a] + uniq([x for x in a if x not in o])
        elif op == "disjoint":
            a, _ = arg(w[2]); r = fbool(not any(x in o for x in a))
        elif op in ("le", "lt", "ge", "gt"):
            p = set(obj(st, w[2])); s = set(o)
            r = fbool({"le": s <= p, "lt": s < p, "ge": s >= p, "gt": s > p}[op])
        elif op == "eq":
            a, isset = arg(w[2])
            r = fbool(list(o) == list(a) if isset else set(o) == set(a))
        else:
            raise BadOp()
    except BadOp:
        return [("bad-op", st)]
    except Raise as e:
        r = "ERR " + e.name
    return [(r + " | " + dump(st), st)]


# ------------------------------------------------------------------ generators
DKEYS = ["a", "b", "c", "A", "B", "aB", "Ab", "d1", "C", "x"]
MKEYS = ["a", "b", "c", "d", "A"]
SKEYS = ["a", "b", "c", "d", "e", "f", "A"]


def rpairs(rng, keys, lo=0, hi=4):
    return sep("%s=%d" % (rng.choice(keys), rng.randrange(-3, 10)) for _ in range(rng.randrange(lo, hi + 1)))


def related_d(rng):
    """objects that are permutations / equal-but-distinct copies / sub- and supersets of one another (also across
    odict and lodict, also spelled in another case), then the calls that take another object by reference, each
    followed by a look at the order: reorder, update, create, ==, construction from the other, sift by its keys"""
    base = rng.sample(["a", "b", "c", "d1", "x"], rng.choice([2, 3, 3, 4]))
    vals = {k: rng.randrange(-3, 10) for k in base}
    def pairs(ks, newvals=False, upper=False):
        return sep("%s=%d" % (k.upper() if upper and rng.random() < 0.5 else k,
                              rng.randrange(-3, 10) if newvals and rng.random() < 0.5 else vals.get(k, 7)) for k in ks)
    def shuffled(ks):
        ks = list(ks); rng.shuffle(ks); return ks
    cls = lambda: rng.choice(["od", "od", "lod"])
    ops = [["new", cls(), pairs(base)],
           ["new", cls(), pairs(shuffled(base))],                                        # same items, other order
           ["new", cls(), pairs(shuffled(base)[:max(1, len(base) - 1)], newvals=True)],  # subset
           ["new", cls(), pairs(shuffled(base + ["q"]), newvals=rng.random() < 0.5)],    # superset
           ["new", "lod", pairs(shuffled(base), upper=True)]]                            # other spelling
    n = len(ops)
    for _ in range(rng.randrange(2, 7)):
        i, j = rng.randrange(n), rng.randrange(n)
        k = rng.randrange(8)
        if k < 3: ops.append(["reorder", str(i), str(j)])
        elif k < 4: ops.append(["update", str(i), str(j)])
        elif k < 5: ops.append(["create", str(i), str(j)])
        elif k < 6: ops.append(["eq", str(i), str(j)])
        elif k < 7 and n < 6: ops.append(["newfrom", cls(), str(j)]); n += 1
        elif n < 6: ops.append(["sift", str(i), sep(shuffled(base)[:rng.randrange(1, len(base) + 1)])]); n += 1
        ops.append(["items", str(i)])
    return ops, n


def with_bad_keys(rng, ops, keypos, pairsop):
    """in ~15% of the sequences: after some calls, the same call again with an unhashable key (must be rejected and
    change nothing), and an update whose 2nd..last pair has one"""
    if rng.random() > 0.15:
        return ops
    out = []
    for w in ops:
        out.append(w)
        if w[0] in keypos and rng.random() < 0.3:
            b = list(w); b[keypos[w[0]]] = rng.choice(UNHASHABLE); out.append(b)
        elif w[0] == pairsop and w[2] != "-" and rng.random() < 0.5:
            ps = clist(w[2]); ps.insert(rng.randrange(len(ps) + 1), rng.choice(UNHASHABLE) + "=1")
            out.append([w[0], w[1], sep(ps)])
    return out


def gen_d(rng, n_ops, keys=DKEYS, uni=False):
    ops, n = [], 0
    if not uni and rng.random() < 0.35:
        ops, n = related_d(rng)
        n_ops = max(0, n_ops - len(ops))
    # start with one or two objects
    for _ in range(rng.choice([1, 1, 2]) if not ops else 0):
        ops.append(["new", rng.choice(["od", "lod"]), rpairs(rng, keys, 0, 5)]); n += 1
    def oi():
        return str(rng.randrange(n))
    def key():
        return rng.choice(keys)
    def val():
        return str(rng.randrange(-3, 10))
    def optv():
        return rng.choice(["~", val()])
    for _ in range(n_ops):
        c = rng.randrange(40)
        if c < 5: ops.append(["set", oi(), key(), val()])
        elif c < 7: ops.append(["del", oi(), key()])
        elif c < 8: ops.append(["getitem", oi(), key()])
        elif c < 9: ops.append(["has", oi(), key()])
        elif c < 10: ops.append(["get", oi(), key(), optv()])
        elif c < 11: ops.append([rng.choice(["len", "keys", "values", "items", "rev", "rev"]), oi()])
        elif c < 13: ops.append(["append", oi(), key(), val()])
        elif c < 14: ops.append(["clear", oi()] if rng.random() < 0.3 else ["reorderbad", oi()])
        elif c < 16 and n < 6: ops.append([rng.choice(["copy", "pickle", "pickle01"]), oi()]); n += 1
        elif c < 18: ops.append(["createp", oi(), rpairs(rng, keys)])
        elif c < 20 and n < 6:
            ops.append(["sift", oi(), rng.choice(["~", sep(rng.choice(keys) for _ in range(rng.randrange(0, 4)))])]); n += 1
        elif c < 24: ops.append(["insert", oi(), str(rng.randrange(-7, 8)), key(), val()])
        elif c < 27: ops.append(["pop", oi(), key(), optv()])
        elif c < 29: ops.append(["popitem", oi()])
        elif c < 32: ops.append(["reorder", oi(), oi()])
        elif c < 34: ops.append(["setdefault", oi(), key(), val()])
        elif c < 35: ops.append(["updatep", oi(), rpairs(rng, keys)])
        elif c < 36:
            if rng.random() < 0.5 or n >= 6: ops.append(["ior", oi(), rpairs(rng, keys)])
            else: ops.append(["or", oi(), rpairs(rng, keys)]); n += 1
        elif c < 37: ops.append([rng.choice(["update", "create"]), oi(), oi()])
        elif c < 38: ops.append(["eq", oi(), oi()])
        elif c < 39 and n < 6:
            if rng.random() < 0.7: ops.append(["new", rng.choice(["od", "lod"]), rpairs(rng, keys, 0, 5)])
            else: ops.append(["newfk", rng.choice(["od", "lod"]), sep(rng.choice(keys) for _ in range(rng.randrange(0, 4))), str(rng.randrange(-3, 10))])
            n += 1
        elif n < 6: ops.append(["newfrom", rng.choice(["od", "lod"]), oi()]); n += 1
    if uni:
        return {"kind": "d", "ops": ops, "uni": True}
    if rng.random() < 0.15:            # insert with a non-integer index: rejected, nothing written
        ops = [x for w in ops for x in (([[w[0], w[1], "XI"] + w[3:]] if w[0] == "insert" and rng.random() < 0.5 else []) + [w])]
    ops = with_bad_keys(rng, ops, {"set": 2, "del": 2, "getitem": 2, "has": 2, "get": 2, "append": 2, "insert": 3,
                                   "setdefault": 2}, "updatep")   # not pop: dict.pop on an EMPTY dict returns/raises without hashing
    return sanitize({"kind": "d", "ops": ops})


def gen_m(rng, n_ops, keys=MKEYS):
    ops, n = [["new", rpairs(rng, keys, 0, 6)]], 1
    if rng.random() < 0.3:
        # a modict with the same (key, value) items in another order, a copy, and the by-reference calls between them
        ps = clist(ops[0][1]); rng.shuffle(ps)
        ops += [["new", sep(ps)], ["newfrom", "0"], ["eq", "0", "1"], ["eq", "0", "2"],
                ["updatefrom", rng.choice(["0", "2"]), "1"], ["allitems", "0"], ["eq", "0", "2"]]
        n = 3
    def oi(): return str(rng.randrange(n))
    def key(): return rng.choice(keys)
    def val(): return str(rng.randrange(-3, 10))
    def optv(): return rng.choice(["~", val()])
    def idx(): return str(rng.choice([-1, -1, -1, 0, 1, -2, 2, 5, -4]))
    def last(): return rng.choice(["0", "1"])
    for _ in range(n_ops):
        c = rng.randrange(40)
        if c < 5: ops.append([rng.choice(["set", "append"]), oi(), key(), val()])
        elif c < 7: ops.append(["getitem", oi(), key()])
        elif c < 8: ops.append(["has", oi(), key()])
        elif c < 10: ops.append(["del", oi(), key()])
        elif c < 12: ops.append([rng.choice(["len", "keys", "values", "listvalues", "allvalues", "items", "listitems", "allitems"]), oi()])
        elif c < 13: ops.append(["clear", oi()] if rng.random() < 0.3 else ["getlist", oi(), key()])
        elif c < 15 and n < 5: ops.append([rng.choice(["copy", "pickle"]), oi()]); n += 1
        elif c < 18: ops.append(["get", oi(), key(), optv(), idx()])
        elif c < 20: ops.append(["replace", oi(), key(), val()])
        elif c < 22: ops.append(["setdefault", oi(), key(), val()])
        elif c < 25: ops.append(["pop", oi(), key(), optv(), idx()])
        elif c < 27: ops.append(["poplist", oi(), key(), optv()])
        elif c < 30: ops.append(["popitem", oi(), last(), idx()])
        elif c < 32: ops.append(["poplistitem", oi(), last()])
        elif c < 33 and n < 5: ops.append(["fromkeys", oi(), sep(key() for _ in range(rng.randrange(0, 4))), val()]); n += 1
        elif c < 35: ops.append(["update", oi(), rpairs(rng, keys)])
        elif c < 36:
            k = rng.random()
            if k < 0.3: ops.append(["rev", oi()])
            elif k < 0.65 or n >= 5: ops.append(["ior", oi(), rpairs(rng, keys)])
            else: ops.append(["or", oi(), rpairs(rng, keys)]); n += 1
        elif c < 37 and n > 1:
            i = rng.randrange(n); j = rng.choice([x for x in range(n) if x != i])
            ops.append(["updatefrom", str(i), str(j)])
        elif c < 38: ops.append(["create", oi(), rpairs(rng, keys)])
        elif c < 39: ops.append(["eq", oi(), oi()])
        elif n < 5: ops.append(rng.choice([["new", rpairs(rng, keys, 0, 6)], ["newfrom", oi()]])); n += 1
    ops = with_bad_keys(rng, ops, {"set": 2, "append": 2, "del": 2, "getitem": 2, "has": 2, "replace": 2, "setdefault": 2}, "update")
    if rng.random() < 0.15:            # a non-integer index: rejected, nothing popped
        out = []
        for w in ops:
            if w[0] == "pop" and w[3] == "~" and rng.random() < 0.5: out.append(w[:4] + ["XI"])
            elif w[0] == "popitem" and rng.random() < 0.5: out.append(w[:3] + ["XI"])
            out.append(w)
        ops = out
    return {"kind": "m", "ops": ops}


def gen_l(rng, n_ops, keys=MKEYS):
    """the modict calls that create lists or append to them, on several modicts made from one another: whether two
    modicts (a copy and its original …) share a value list shows as soon as one of them is appended to"""
    ops, n = [["new", rpairs(rng, keys, 1, 6)]], 1
    def oi(): return str(rng.randrange(n))
    def key(): return rng.choice(keys)
    def val(): return str(rng.randrange(-3, 10))
    for _ in range(n_ops):
        c = rng.randrange(20)
        if c < 6: ops.append([rng.choice(["set", "append"]), oi(), key(), val()])
        elif c < 8: ops.append(["replace", oi(), key(), val()])
        elif c < 10: ops.append(["del", oi(), key()])
        elif c < 11: ops.append(["clear", oi()])
        elif c < 13: ops.append(["update", oi(), rpairs(rng, keys)])
        elif c < 15 and n > 1:
            i = rng.randrange(n); j = rng.choice([x for x in range(n) if x != i])
            ops.append(["updatefrom", str(i), str(j)])
        elif c < 19 and n < 5: ops.append([rng.choice(["copy", "newfrom", "pickle"]), oi()]); n += 1
        elif n < 5: ops.append(["new", rpairs(rng, keys, 0, 5)]); n += 1
    return {"kind": "l", "ops": ops}


def gen_p(rng, n_ops, keys=SKEYS):
    """only the calls oset implements itself on its cells: add / discard / pop / in / len / iteration / reversed"""
    def klist(lo=0, hi=6): return sep(rng.choice(keys) for _ in range(rng.randrange(lo, hi + 1)))
    ops, n = [["new", klist()]], 1
    def oi(): return str(rng.randrange(n))
    for _ in range(n_ops):
        c = rng.randrange(20)
        if c < 6: ops.append(["add", oi(), rng.choice(keys)])
        elif c < 11: ops.append(["discard", oi(), rng.choice(keys)])
        elif c < 15: ops.append(["pop", oi(), rng.choice(["0", "1"])])
        elif c < 16: ops.append(["has", oi(), rng.choice(keys)])
        elif c < 17: ops.append(["len", oi()])
        elif c < 18: ops.append(["iter", oi()])
        elif c < 19: ops.append(["rev", oi()])
        elif n < 3: ops.append(["new", klist()]); n += 1
    return {"kind": "p", "ops": ops}


def gen_s(rng, n_ops, keys=SKEYS):
    def klist(lo=0, hi=6): return sep(rng.choice(keys) for _ in range(rng.randrange(lo, hi + 1)))
    ops, n = [["new", klist()], ["new", klist()]], 2
    if rng.random() < 0.25:
        # the same elements in another order: equality between osets is ordered, against a list it is not
        l = uniq(clist(ops[0][1])); rng.shuffle(l)
        ops += [["new", sep(l)], ["eq", "0", "S2"], ["eq", "0", "L" + sep(l)]]; n = 3
    def oi(): return str(rng.randrange(n))
    def key(): return rng.choice(keys)
    def arg(): return "S" + oi() if rng.random() < 0.6 else "L" + klist(0, 5)
    for _ in range(n_ops):
        c = rng.randrange(40)
        if c < 5: ops.append(["add", oi(), key()])
        elif c < 8: ops.append(["discard", oi(), key()])
        elif c < 10: ops.append(["remove", oi(), key()])
        elif c < 13: ops.append(["pop", oi(), rng.choice(["0", "1"])])
        elif c < 14: ops.append(["clear", oi()] if rng.random() < 0.3 else ["has", oi(), key()])
        elif c < 15: ops.append([rng.choice(["len", "iter", "rev"]), oi()])
        elif c < 24 and n < 7: ops.append([rng.choice(["or", "and", "sub", "rsub", "xor"]), oi(), arg()]); n += 1
        elif c < 25 and n < 7: ops.append(["pickle", oi()]); n += 1
        elif c < 33: ops.append([rng.choice(["ior", "iand", "ixor", "isub"]), oi(), arg()])
        elif c < 34: ops.append(["disjoint", oi(), arg()])
        elif c < 36: ops.append([rng.choice(["le", "lt", "ge", "gt"]), oi(), oi()])
        elif c < 38: ops.append(["eq", oi(), arg()])
        elif n < 7: ops.append(["new", klist()]); n += 1
    return {"kind": "s", "ops": ops}


UKEYS = ["\u0130", "i\u0307", "I", "i", "\u00df", "\u1e9e", "SS", "ss", "\u01c5", "\u01c6", "\u01c4", "\u212a", "k", "K",
         "\u03a3", "\u03c3", "\u03c2", "\u00c9", "\u00e9"]
# İ, i + combining dot, I, i, ß, ẞ, SS, ss, ǅ, ǆ, Ǆ, Kelvin sign, k, K, Σ, σ, final ς, É, é


class lower_of(object):
    """within: LOWER is the real str.lower on key tokens if the case has Unicode keys"""
    def __init__(self, case):
        self.uni = bool(case.get("uni"))
    def __enter__(self):
        if self.uni:
            LOWER[0] = ulower
    def __exit__(self, *a):
        LOWER[0] = lambda t: t.lower()


def lowtab(case):
    toks = set(m for w in case["ops"] for t in w for m in UTOK.findall(t))
    tab = {}
    for t in sorted(toks):
        a = t
        for _ in range(3):
            b = ulower(a)
            tab[a] = b
            a = b
    return sep("%s=%s" % kv for kv in sorted(tab.items()))


def unicode_lower_facts():
    """what str.lower does on the non-ASCII key universe (recorded in the evidence)"""
    rows = {}
    for k in UKEYS:
        l = k.lower()
        rows[ascii(k)] = {"lower": ascii(l), "idempotent": l.lower() == l, "casefold_differs": k.casefold() != l}
    return {"keys": rows,
            "all_idempotent": all(r["idempotent"] for r in rows.values()),
            "laws_checked": "C39_lodict_* need only lower(lower k) = lower k, which holds for every key here; the runs compare "
                            "lodict on these keys with the model using the real str.lower as `lower`",
            "not_case_insensitive_in_the_casefold_sense": "str.lower keeps ß/ẞ→ß apart from SS/ss, final ς apart from Σ/σ: "
                            "lodict treats them as different keys (str.casefold would merge them)"}


def sanitize(case):
    """while D39f is not in /repo: a pickle01 of an odict/lodict that is empty at that point becomes a pickle"""
    if D39F_APPLIED or case["kind"] != "d" or not any(w[0] == "pickle01" for w in case["ops"]):
        return case
    with lower_of(case):
        lines = ref_d(case["ops"])
    ops, dumps = [], []
    for n, w in enumerate(case["ops"]):
        if " | " in lines[n]:                      # the state before call n: the last line that carries a dump
            dumps = lines[n].split(" | ", 1)[1].split(" ")
        if w[0] == "pickle01":
            i = int(w[1])
            if i < len(dumps) and "{-}" in dumps[i]:
                w = ["pickle", w[1]]
        ops.append(w)
    return {"kind": "d", "ops": ops}


ALLOC = {"d": {"new", "newfrom", "newfk", "copy", "sift", "pickle", "pickle01", "or"}, "m": {"new", "newfrom", "copy", "fromkeys", "pickle", "or"},
         "s": {"new", "or", "and", "sub", "rsub", "xor", "pickle"}, "p": {"new"},
         "l": {"new", "newfrom", "copy", "pickle"}}


class CHECK(core.Check):
    PROPERTY = "C39"
    LEAN_MODULES = ["IofloModel.Props.C39"]
    ENGINE = "containers"
    N_QUICK = 600
    N_THOROUGH = 30000
    N_SEARCH = 3000
    RULE = ("operation sequences (1..30 calls, up to 6 live objects) on odict+lodict / modict / oset over small key "
            "universes with case variants, values -3..9, arguments in every accepted shape (pairs, dict, odict, kwargs, "
            "several positionals, and as one-shot iterables: generator, iter(), map, reversed, dict views — also for sift fields, "
            "fromkeys keys, oset operands and constructors), including calls that must raise; in 15% of the sequences calls are "
            "repeated with an UNHASHABLE key (list, dict, set) and updates get a pair with one: the call must raise and leave "
            "the container as it was (a multi-pair update keeps the pairs before the bad one, like dict.update); 35% of the odict/lodict and 30% of the modict sequences start with "
            "objects that are permutations / equal-but-distinct copies / sub- and supersets / other spellings of one another and "
            "apply the by-reference calls (reorder, update, create, ==, construction, sift) between them; bounded-exhaustive: every sequence of <=2 (quick) / "
            "<=3 (thorough) calls from a reduced alphabet on a two-key universe. non-trivial = at least three calls "
            "returned without exception and the contents of some object changed at least twice; distinct by the op list")
    TRUSTED = ["correspondence: the real odict/lodict/modict/oset objects of the working tree are driven in-process by "
               "the same request words as the Lean driver (engine 'containers'); after every call the result and the "
               "items()/listitems()/iteration order and len() of every live object are compared",
               "CPython dict/list semantics (dict.update on a dict subclass that overrides __iter__, list.insert "
               "index clamping, collections.abc.MutableSet mixins) as transcribed in Model/Containers.lean",
               "keys are ASCII alphanumeric strings (str.lower = ASCII lower), values are ints"]
    PARTIAL = ["lodict keys beyond ASCII: C39_lodict_* are proved for any idempotent `lower`; ASCII keys use the model's own "
               "lower (C39_lowerStr_idempotent); for non-ASCII keys (İ, i+U+0307, ß, ẞ, SS, ǅ, ǆ, Ǆ, Kelvin sign, Σ, σ, final ς, É, é) "
               "the runs hand the real str.lower of the key universe to the model as a table, idempotence is checked on it and "
               "recorded in coverage.unicode_lower; str.lower is not casefold: ß/SS and ς/σ stay different keys",
               "pickle: the byte stream is not modelled; what is modelled is which constructor path each protocol takes "
               "(odict/lodict protocols 0-5 + copy.copy/deepcopy through __new__, SETITEMS, __setstate__ since D39f, empty ones "
               "included; modict through its __reduce__ = modict(allitems()); oset = its elements re-added in order, "
               "C39_oset_pickle_equal) and the round trips of all four classes at protocols 0-5 are compared",
               "oset: the MutableSet mixin methods are transcribed on the key-list model, the methods oset defines itself also on "
               "the cell-level model (C39_oset_links_refine_list); Python object identity of cells = index",
               "modict value lists as objects (Model/ModictLists.lean, C39_modict_lists_separate, C39_modict_copy_independent): "
               "covers append/replace/del/clear/update/update(other)/copy/construction; the lists handed OUT to the caller "
               "(getlist, listitems, poplist return the stored list object itself) can of course be mutated by the caller: not modelled",
               "unhashable keys are outside the key type of the models: such a call is answered by the driver as `raises (TypeError; "
               "lodict: AttributeError from key.lower()), state as it was` and compared with the code; likewise a non-integer "
               "index of insert / modict pop / popitem (fixes D39g, D39h); pairs of wrong arity are not generated (update with a "
               "1-tuple raises ValueError after storing the earlier pairs, like dict.update)",
               "modict.update(itself) never returns (appends to the lists it iterates): excluded from the generated calls",
               "modict's inherited insert/reorder/sift(fields) store bare values instead of lists (broken for modict): "
               "not in the modelled call alphabet",
               "lodict/modict setdefault/get `kind=` casts, non-string lodict keys, unhashable keys, `dict | odict` "
               "(reflected operand: a plain dict): not modelled",
               "lodict == other compares raw keys (inherited dict.__eq__): modelled as such, not claimed case-insensitive"]
    TECHNIQUE = "Lean 4 theorems (invariants + refinement by induction over call histories) + differential correspondence"
    LEVEL_TEXT = ("Full proofs on the model (no _partial theorem). odict: the transcribed two-structure implementation (dict part + "
                  "_keys list) refines a one-list reference ordered dictionary for every call and every history "
                  "(C39_odict_refines_ordered_map, C39_odict_history, C39_odict_observed), incl. insert, reorder, create, sift, pop, "
                  "popitem, setdefault, update, copy, ==; laws of the reference that are not definitional (C39_reorder_law, "
                  "C39_update_law). lodict: every call depends only on the lower-cased keys (C39_lodict_case_insensitive, any state) "
                  "and equals the reference call on lower-cased keys, keys stay lower case (C39_lodict_refines_lowered_map, "
                  "C39_lodict_history, C39_lowerStr_idempotent). modict: refines the reference multi-dictionary, no empty value list "
                  "ever, every stored value kept in order and m[k] the newest (C39_modict_refines_multimap, C39_modict_history, "
                  "C39_modict_keeps_all_returns_newest). oset: add/discard loops and the MutableSet mixins equal the filter-based "
                  "reference ordered set, never a duplicate, membership of | & - ^ (C39_oset_refines_ordered_set, C39_oset_history, "
                  "C39_oset_nodup, C39_oset_algebra_membership); the cell-level structure of oset (sentinel, [key, prev, next] cells, map) "
                  "represents that list and its add/discard/pop/in/len/iteration/reversed agree with the list model "
                  "(C39_oset_links_refine_list, C39_oset_links_init). Several live objects with by-reference arguments and aliasing: all "
                  "stay well formed, a call changes only its receiver, copies are equal and independent (C39_heap_invariant, "
                  "C39_heap_history_invariant, C39_heap_frame, C39_copy_equal_independent); keys()/values()/items()/len() are one "
                  "consistent picture for every live odict/lodict after any history and for every well formed modict "
                  "(C39_heap_views_consistent, C39_modict_views_consistent); a call that raises leaves the object exactly as it was "
                  "(C39_rejected_op_is_noop, C39_lodict_rejected_is_noop, C39_oset_rejected_is_noop, C39_modict_rejected_is_noop, the "
                  "last including IndexError of pop/popitem with an index outside the value list since fix D39g); with the per-key value lists of modict as objects, no two "
                  "modicts ever hold the same list and a call on one never changes another (C39_modict_lists_separate, "
                  "C39_modict_copy_independent); an oset round trip keeps elements and order (C39_oset_pickle_equal). The model is of /repo (which has the fixes "
                  "D23 x3, D39a-d) + fixes/D39e (odict.__reversed__/__or__/__ior__) and is tied to the code by running the same call "
                  "sequences on the real objects.")
    LEVEL_NOTE = ("Trusted: Lean kernel; axioms propext, Classical.choice, Quot.sound; the hand transcription of odicting.py / "
                  "osetting.py and of CPython's dict/list/MutableSet behaviour it relies on (Model/Containers.lean), validated only by "
                  "the correspondence runs (random sequences up to 30 calls on up to 6-7 live objects + all sequences of <= 2 (quick) / "
                  "<= 3 (thorough) calls from reduced alphabets); the reference containers of Model/ContainersSpec.lean as the meaning "
                  "of 'insertion-ordered dictionary / multi-dictionary / set' (an intersection is ordered by its second operand, as "
                  "collections.abc.Set.__and__ does; the Python oracle accepts either operand's order); keys ASCII alphanumeric, "
                  "values ints; the MutableSet mixin methods of oset are transcribed on the key-list model (the cell-level model covers "
                  "the methods oset defines itself).")

    # ---- cases
    def generate(self, rng, n, tier):
        for i in range(n):
            n_ops = rng.choice([1, 3, 6, 10, 15, 20, 30])
            k = rng.random()
            if k < 0.07:
                yield gen_d(rng, n_ops, keys=[utok(x) for x in UKEYS], uni=True)
            elif k < 0.5:
                yield gen_d(rng, n_ops)
            elif k < 0.72:
                yield gen_m(rng, n_ops)
            elif k < 0.78:
                yield gen_l(rng, n_ops)
            elif k < 0.92:
                yield gen_s(rng, n_ops)
            else:
                yield gen_p(rng, n_ops)

    def exhaustive(self, tier):
        depth = 3 if tier == "thorough" else 2
        # odict and lodict side by side, two keys differing in case only
        # objects 2 and 3 hold the same items as 0 and 1 in the other order
        pre = [["new", "od", "a=1,A=2"], ["new", "lod", "a=1,b=2"], ["new", "od", "A=2,a=1"], ["new", "lod", "B=2,a=1"]]
        alpha = []
        for i in ("0", "1"):
            alpha += [["set", i, "A", "5"], ["del", i, "A"], ["insert", i, "0", "A", "6"], ["insert", i, "-1", "c", "6"],
                      ["pop", i, "A", "~"], ["pop", i, "a", "7"], ["popitem", i], ["createp", i, "A=8,c=9"],
                      ["updatep", i, "c=3,A=4"], ["setdefault", i, "B", "0"], ["sift", i, "A"], ["append", i, "A", "1"],
                      ["reorder", i, "0"], ["reorder", i, "1"], ["copy", i], ["pickle", i], ["pickle01", i], ["getitem", i, "A"],
                      ["has", i, "B"], ["ior", i, "c=7,A=8"], ["or", i, "B=1"], ["rev", i],
                      ["insert", i, "1", "XL", "5"], ["insert", i, "XI", "c", "5"], ["set", i, "XD", "5"], ["del", i, "XS"], ["updatep", i, "c=1,XL=2,d1=3"],
                      ["sift", i, "a"], ["reorder", i, "2"], ["reorder", i, "3"], ["update", i, "3"], ["create", i, "2"], ["eq", i, "2"],
                      ["eq", i, "3"]]
        for d in range(1, depth + 1):
            if d == 3:
                sub = [a for a in alpha if a[0] not in ("getitem", "has", "copy", "sift", "pickle", "pickle01", "or", "rev")]
            else:
                sub = alpha
            for seq in itertools.product(sub, repeat=d):
                yield sanitize({"kind": "d", "ops": pre + [list(x) for x in seq]})
        prem = [["new", "a=1,a=2,b=3"]]
        alpham = [["pop", "0", "a", "~", "XI"], ["pop", "0", "a", "~", "7"], ["popitem", "0", "1", "XI"], ["popitem", "0", "0", "4"],
                  ["set", "0", "XL", "1"], ["update", "0", "c=1,XD=2,a=3"], ["set", "0", "a", "4"], ["set", "0", "c", "4"], ["del", "0", "a"], ["replace", "0", "a", "9"],
                  ["pop", "0", "a", "~", "0"], ["pop", "0", "c", "7", "-1"], ["poplist", "0", "b", "~"],
                  ["popitem", "0", "0", "-1"], ["popitem", "0", "1", "0"], ["poplistitem", "0", "0"],
                  ["setdefault", "0", "a", "5"], ["setdefault", "0", "c", "5"], ["get", "0", "a", "~", "-1"],
                  ["get", "0", "a", "8", "2"], ["update", "0", "b=1,c=2,b=3"], ["create", "0", "a=1,c=2"], ["copy", "0"], ["pickle", "0"], ["ior", "0", "a=6,d=7"],
                  ["rev", "0"],
                  ["getitem", "0", "a"], ["allitems", "0"]]
        for d in range(1, depth + 1):
            for seq in itertools.product(alpham, repeat=d):
                yield {"kind": "m", "ops": prem + [list(x) for x in seq]}
        pres = [["new", "a,b,c"], ["new", "c,d,a"]]
        alphas = [["add", "0", "XL"], ["discard", "0", "XS"], ["add", "0", "d"], ["add", "0", "a"], ["discard", "0", "b"], ["remove", "0", "d"], ["pop", "0", "1"],
                  ["pop", "0", "0"], ["or", "0", "S1"], ["and", "0", "S1"], ["sub", "0", "S1"], ["xor", "0", "S1"],
                  ["and", "0", "Ld,c,c,a"], ["rsub", "0", "Ld,c,d"], ["ior", "0", "S1"], ["iand", "0", "S1"],
                  ["ixor", "0", "S1"], ["isub", "0", "S1"], ["ixor", "0", "S0"], ["isub", "0", "Lc,c"], ["eq", "0", "S1"],
                  ["eq", "0", "Lc,b,a"], ["le", "0", "1"], ["clear", "0"], ["ior", "1", "S0"], ["ixor", "1", "La,a,e"],
                  ["new", "c,b,a"], ["eq", "0", "S2"]]
        for d in range(1, depth + 1):
            for seq in itertools.product(alphas, repeat=d):
                yield {"kind": "s", "ops": pres + [list(x) for x in seq]}
        alphap = [["add", "0", "d"], ["add", "0", "b"], ["discard", "0", "a"], ["discard", "0", "b"], ["discard", "0", "c"],
                  ["discard", "0", "x"], ["pop", "0", "1"], ["pop", "0", "0"], ["rev", "0"], ["has", "0", "b"], ["len", "0"]]
        for d in range(1, depth + 2):
            for seq in itertools.product(alphap, repeat=d):
                yield {"kind": "p", "ops": [["new", "a,b,c"]] + [list(x) for x in seq]}

    # ---- both sides
    def requests(self, case):
        def line(w):
            if D39F_APPLIED and case["kind"] == "d" and w[0] == "pickle01":
                w = ["pickle"] + w[1:]          # with D39f every protocol takes the __new__ path
            if case["kind"] in ("m", "s", "p", "l") and w[0] == "pickle01":
                w = ["pickle"] + w[1:]
            return case["kind"] + " " + " ".join(w)
        if case.get("uni"):
            return ["reset", "lowtab " + lowtab(case)] + [line(w) for w in case["ops"]]
        return ["reset"] + [line(w) for w in case["ops"]]

    def model_post(self, case, replies):
        return replies[:1] + replies[2:] if case.get("uni") else replies

    def impl(self, case):
        return run_impl(case)

    # ---- the property, stated on the implementation's output
    def oracle(self, case, out):
        if out and out[-1] == "TIMEOUT":
            # judge what was observed before the call that did not return; alone it is not a verdict
            k = len(out) - 1
            why = self.oracle({"kind": case["kind"], "ops": case["ops"][:k - 1]}, out[:k])
            if why is None:
                self._pure_timeouts.append("call %d (%s)" % (k, " ".join(case["ops"][k - 1]) if k - 1 < len(case["ops"]) else "?"))
                return None
            return why + "  [a later call (%d) did not return]" % k
        if out == ["SKIPPED"]:
            return None
        with lower_of(case):
            why = self._oracle(case, out)
        if why is not None:
            self._any_failure = True
        return why

    _pure_timeouts = []
    _any_failure = False

    def extra_evidence(self):
        if self._pure_timeouts and not self._any_failure:
            raise core.HarnessTimeout("%d container call(s) did not return within the limit and nothing observed before them "
                                      "violates the property; first: %s" % (len(self._pure_timeouts), self._pure_timeouts[0]))
        return {"unicode_lower": unicode_lower_facts()}

    def _oracle(self, case, out):
        for n, line in enumerate(out):
            if " !" in line or "?" in line or "ERR other" in line or line.startswith("HARNESS-EXC"):
                return "step %d %s: %s" % (n, " ".join(case["ops"][n - 1]) if n else "", line[-160:])
        if case["kind"] in ("s", "p"):
            return oracle_s(case, out)
        want = (ref_d if case["kind"] == "d" else ref_m)(case["ops"])      # kinds m and l: the reference multi-dictionary
        if len(want) != len(out):
            return "reference has %d lines, implementation %d" % (len(want), len(out))
        for n, (a, b) in enumerate(zip(out, want)):
            if a != b:
                return "step %d %s: implementation %r, reference container %r" % (n, " ".join(case["ops"][n - 1]) if n else "", a, b)
        return None

    def nontrivial(self, case, out):
        ok = sum(1 for l in out[1:] if not l.startswith("ERR") and l != "bad-op")
        dumps = [l.split(" | ", 1)[1] if " | " in l else "" for l in out[1:]]
        changes = sum(1 for a, b in zip(dumps, dumps[1:]) if a != b)
        return ok >= 3 and changes >= 2

    def bucket(self, case, out):
        n = len(case["ops"])
        errs = sum(1 for l in out[1:] if l.startswith("ERR"))
        size = "len<=4" if n <= 4 else "len5-12" if n <= 12 else "len13+"
        return "%s%s/%s/%s" % ("unicode-keys:" if case.get("uni") else "", {"d": "odict+lodict", "m": "modict", "s": "oset", "p": "oset-cells", "l": "modict-list-objects"}[case["kind"]], size,
                             "no-raise" if errs == 0 else "raises<=25%" if errs * 4 <= n else "raises>25%")

    def shrink_candidates(self, case):
        ops = case["ops"]
        # shorter prefixes first, then removal of single calls that do not create an object
        extra = {"uni": True} if case.get("uni") else {}
        for k in range(1, len(ops)):
            yield sanitize(dict(extra, kind=case["kind"], ops=ops[:k]))
        for i in range(len(ops)):
            if ops[i][0] not in ALLOC[case["kind"]]:
                yield sanitize(dict(extra, kind=case["kind"], ops=ops[:i] + ops[i + 1:]))
