"""C40 — bit, byte, hex and binary-string codecs round-trip.
Model: lean/IofloModel/Model/Bits.lean (transcription of ioflo/aid/byting.py)
Theorems: lean/IofloModel/Props/C40.lean
Tie: every byting function of the working tree vs the model on the same arguments, plus the
     round-trip compositions (pack→unpack, bytify→unbytify, ...) on both sides.
Oracle (independent of the model): the property stated with Python ints / int.to_bytes / bytes.hex:
     unpack(pack(fields)) == fields masked to their widths (+ zero padding field), packifyInto frames the same
     bytes, reverse variants are mirror images, the conversions are inverse on their domains, signExtend is
     two's complement.
Input preservation: the Lean functions are pure, so in the model's terms "a codec does not change its argument" is the
     statement that the argument after the call equals the argument before it.  The check therefore (a) compares every
     mutable argument (bytearray, list) before/after every call — only packifyInto's target buffer may change, (b) feeds
     ONE buffer object to a decoder twice and emits the buffer afterwards as an `arg` line that must equal the model's
     input, (c) feeds the same bytes as bytes, bytearray and list and demands equal results."""
import itertools
import core

ERRS = {ValueError: "ERR ValueError", TypeError: "ERR TypeError", IndexError: "ERR IndexError"}


def _snap(x):
    """snapshot of a mutable argument (None for immutable ones)"""
    if isinstance(x, bytearray):
        return bytes(x)
    if isinstance(x, list):
        return list(x)
    return None


def call(f, *a, inplace=()):
    """run f; ('ok', value) or ('err', canonical error line).
    Input preservation: every mutable argument (bytearray, list) is compared before/after the call; a codec that
    changes an argument — other than a documented in-place target listed in `inplace` — yields the line
    ARG-MUTATED ... instead of its result (the Lean functions are pure: the argument after the call IS the argument)."""
    before = [None if i in inplace else _snap(x) for i, x in enumerate(a)]
    try:
        res = "ok", f(*a)
    except core.HarnessTimeout:
        raise
    except Exception as ex:
        res = "err", "ERR other:" + type(ex).__name__
        for t, s in ERRS.items():
            if type(ex) is t:
                res = "err", s
    for i, (b0, x) in enumerate(zip(before, a)):
        if b0 is not None and _snap(x) != b0:
            show = (lambda v: bytes(v).hex() or "-") if isinstance(x, bytearray) else repr
            return "err", "ARG-MUTATED %s argument %d: %s -> %s" % (getattr(f, "__name__", "?"), i, show(b0), show(_snap(x)))
    return res


def hx(b):
    b = bytes(b)
    return b.hex() if b else "-"


def unhx(s):
    return b"" if s == "-" else bytes.fromhex(s)


def ilist(xs):
    return ",".join(str(int(x)) for x in xs) if xs else "-"


def senc(s):
    return ",".join("%x" % ord(c) for c in s) if s else "-"


def sout(s):
    return s if s else "-"


def flds(t):
    if not isinstance(t, tuple):
        return "BAD " + type(t).__name__
    out = []
    for x in t:
        if x is True:
            out.append("T")
        elif x is False:
            out.append("F")
        elif isinstance(x, int):
            out.append(str(x))
        else:
            out.append("?" + type(x).__name__)
    return ",".join(out) if out else "-"


def fmtstr(fmt, ws=" "):
    return ws.join(str(x) for x in fmt)


def sz(size):
    return "N" if size is None else str(size)


def fl(b):
    return "1" if b else "0"


def default_size(fmt):
    t = sum(fmt)
    return (t + 7) // 8


def valid_format(fmt, nfields, size):
    """the domain of the pack/unpack statement: non-negative widths that fit, a value per field"""
    if any(w < 0 for w in fmt) or nfields < len(fmt):
        return False
    s = default_size(fmt) if size is None else size
    return 0 <= sum(fmt) <= 8 * s


def expected_fields(fmt, fields, size, boolean):
    """'each value masked to its field width (booleans for one-bit fields when requested), plus any padding field'"""
    s = default_size(fmt) if size is None else size
    out = []
    for w, f in zip(fmt, fields):
        v = int(f) & ((1 << w) - 1)
        out.append(("T" if v else "F") if (w == 1 and boolean) else str(v))
    pad = 8 * s - sum(fmt)
    if pad:
        out.append("F" if (pad == 1 and boolean) else "0")
    return ",".join(out) if out else "-"


def vectors(fmt, lo, n):
    """value vectors number lo .. lo+n-1 of a format in mixed radix (last field fastest)"""
    total = 1
    for w in fmt:
        total <<= w
    for idx in range(lo, min(lo + n, total)):
        v, r = [], idx
        for w in reversed(fmt):
            v.append(r & ((1 << w) - 1))
            r >>= w
        yield list(reversed(v))


def compositions(total):
    if total == 0:
        yield []
        return
    for first in range(1, total + 1):
        for rest in compositions(total - first):
            yield [first] + rest


class CHECK(core.Check):
    PROPERTY = "C40"
    LEAN_MODULES = ["IofloModel.Props.C40"]
    ENGINE = "bits"
    N_QUICK = 1500
    N_THOROUGH = 60000
    N_SEARCH = 3000
    CHUNK = 256
    RULE = ("kinds: packall = one bit-field format with a block of <=256 consecutive value vectors (all formats = "
            "compositions of total width <= 8 quick / <= 10 thorough with ALL value vectors; widths 11..16 all "
            "compositions with all-zero/all-one/alternating/random vectors), pack = random format (widths 0..70, "
            "optional explicit size, values beyond the width, negative values, bools, occasionally invalid: negative "
            "width, too few fields, size too small) packed, unpacked, packed into a random buffer at a random offset, "
            "both byte orders; unpack = random bytes decoded; bytes/unbytes, hex/unhex, bin/unbin, sign, byte = the "
            "ptext = the format as TEXT (decimal widths with +, leading zeros, underscores; all ten ASCII white-space "
            "separators; malformed tokens) packed, unpacked and packed into a bytearray / list / bytes buffer at "
            "non-negative and NEGATIVE offsets, the buffer re-read also after an exception (random + a small exhaustive "
            "family); scalar codecs incl. malformed strings. Every decoder gets one shared bytearray twice plus the same bytes as "
            "bytes / list; the buffer is re-read after the calls (argument must be unchanged). non-trivial = the call under test returned a value (no exception) "
            "and the input is not empty/zero-width; distinct by full case content. One packall case stands for up to "
            "256 vectors (vector count in coverage.vectors)")
    TRUSTED = ["correspondence: every function of ioflo/aid/byting.py named in the property (and packByte/unpackByte) "
               "is run in-process on the same arguments as the Lean model (driver engine 'bits'); compared: returned "
               "bytes / tuples / ints / strings, the exception class, and the content of every mutable argument after "
               "the call (must equal the input, the Lean functions being pure; packifyInto's target excepted)",
               "CPython: str.split + int() of the format string, bytearray(), '{:02x}'.format, int(s,16), unbounded "
               "int bit operations (the model uses mod/div by powers of two on Int)",
               "strings are restricted to ASCII on the unbinize path (int() of non-ASCII Unicode digits is outside the model)"]
    PARTIAL = ["C40_unpack_pack_masked_partial: literal 'masked to width' needs every one-bit field to hold 0/1 "
               "(False/True); other values are packed by truthiness as documented (known finding D40a, region "
               "Ioflo.Bits.oneBitNonBool)",
               "C40_packIntoFull_negative_offset_partial: a negative offset overwrites in place only while offset+size "
               "stays negative; reaching the end (offset+size >= 0) inserts instead (known finding D40b, region "
               "Ioflo.Bits.negOffsetInserts, C40_counterexample_negative_offset)",
               "not modelled: non-ASCII white space / digits in the format text and in unbinize, list buffers holding "
               "ints outside 0..255, bytearray(int) argument of unpackify"]
    TECHNIQUE = ("Lean 4 theorems (induction over the format with a bit-level invariant via Nat.testBit; digit "
                 "induction for bytify/unbytify; finite tables for hex digits) + differential correspondence")
    LEVEL_TEXT = ("Format TEXT (fmt.split() + int()) is modelled: C40_unpack_pack_text, C40_parse_wellformed_text, "
                  "C40_unpack_pack_wellformed_text. packifyInto in full (any offset, bytearray/list/bytes, buffer after an "
                  "exception): C40_packIntoFull_frame, C40_packIntoFull_after_error (never partially written: old bytes + "
                  "zero padding at most), C40_packIntoFull_negative_offset_partial. "
                  "Full proofs on the model for every format/size/value: C40_unpack_pack (unpackify∘packify returns each "
                  "field reduced to its width — truthiness for one-bit fields — plus the zero padding field, booleans "
                  "when requested, both byte orders), C40_packInto_frame, C40_reverse_mirror_*, C40_unbytify_bytify, "
                  "C40_bytify_unbytify, C40_unhexify_hexify, C40_hexify_unhexify, C40_unbinize_binize, "
                  "C40_binize_unbinize, C40_signExtend_twos_complement, C40_unpackByte_packByte. Partial: the literal 'masked' reading for "
                  "one-bit fields (C40_unpack_pack_masked_partial, counterexample C40_counterexample_onebit).")
    LEVEL_NOTE = ("Trusted: Lean kernel; axioms propext, Classical.choice, Quot.sound; the hand transcription of byting.py "
                  "validated by the correspondence runs only; CPython's int/str/bytearray primitives. Python ints are "
                  "modelled exactly (unbounded); no floats occur in these functions.")

    def __init__(self):
        self.nvec = 0
        self._region = {}          # case_key -> bool, filled from the driver's `region onebit` replies

    @staticmethod
    def _py_region(fmt, fields):
        """python mirror of Ioflo.Bits.oneBitNonBool; used ONLY to keep the shrinker out of the known region"""
        return any(w == 1 and int(f) not in (0, 1) for w, f in zip(fmt, fields))

    # ------------------------------------------------------------------ cases
    def _packall(self, fmt, vecs=None):
        total = 1 << sum(fmt)
        if vecs is not None:
            yield {"kind": "packvec", "fmt": fmt, "vecs": vecs}
            return
        for lo in range(0, total, self.CHUNK):
            yield {"kind": "packall", "fmt": fmt, "lo": lo, "n": min(self.CHUNK, total - lo)}

    def exhaustive(self, tier):
        yield from self._ptext_families()
        W = 10 if tier == "thorough" else 8
        for total in range(0, W + 1):
            for fmt in compositions(total):
                yield from self._packall(fmt)
        if tier == "thorough":
            import random
            r = random.Random(40)          # fixed: this block is an enumeration of formats, values are representatives
            for total in range(W + 1, 17):
                for fmt in compositions(total):
                    vecs = [[0] * len(fmt), [(1 << w) - 1 for w in fmt],
                            [((1 << w) - 1) if i % 2 else 0 for i, w in enumerate(fmt)],
                            [r.randrange(1 << w) for w in fmt]]
                    yield from self._packall(fmt, vecs)
        # scalar codecs, small exhaustive blocks
        for n in range(-260, 260) if tier == "quick" else range(-70000, 70000, 1):
            if tier == "thorough" and abs(n) > 600 and n % 97:
                continue
            for size in (0, 1, 2, 3):
                yield {"kind": "bytes", "n": n, "size": size}
        for x in range(256):
            yield {"kind": "hex", "b": "%02x" % x}
        for n in range(1, 9):
            for x in range(1 << n):
                yield {"kind": "sign", "x": x, "n": n}
        for size in range(0, 7):
            for n in range(1 << size):
                yield {"kind": "bin", "n": n, "size": size}

    def _rand_fmt(self, rng):
        mode = rng.randrange(20)
        k = rng.choice([0, 1, 1, 2, 2, 3, 3, 4, 5, 8, 12])
        if mode >= 10:
            mode -= 10
            if mode >= 8:
                mode = 0
        if mode < 5:
            return [rng.choice([1, 1, 2, 3, 4, 5, 7, 8, 9]) for _ in range(k)]
        if mode < 8:
            return [rng.choice([0, 1, 2, 8, 15, 16, 17, 24, 31, 32, 33, 63, 64, 65, rng.randrange(71)]) for _ in range(k)]
        if mode == 8:
            return [1] * rng.randrange(0, 20)
        return [rng.choice([-8, -1, 0, 1, 4, 8, 9, 16]) for _ in range(max(k, 1))]

    def _rand_val(self, rng, w):
        w = max(w, 0)
        m = rng.randrange(8)
        if m == 0:
            return 0
        if m == 1:
            return (1 << w) - 1
        if m == 2:
            return rng.getrandbits(w + 9)               # beyond the width
        if m == 3:
            return -rng.getrandbits(w + 3) - 1          # negative
        if m == 4 and w == 1:
            return rng.choice([True, False, 2, 3, -1, 256])
        if m == 4 and rng.random() < 0.5:
            return rng.random() < 0.5                   # bool is an int: allowed for a field of any width
        return rng.getrandbits(w) if w else 0

    def _gen_pack(self, rng):
        fmt = self._rand_fmt(rng)
        fields = [self._rand_val(rng, w) for w in fmt]
        r = rng.randrange(20)
        if r == 0 and fields:
            fields = fields[:rng.randrange(len(fields))]        # too few
        elif r == 1:
            fields = fields + [rng.randrange(9)]                # extra ignored
        d = default_size(fmt) if sum(fmt) >= 0 else 0
        size = rng.choice([None, None, None, None, d, d, d, d + 1, d + 1, d + rng.randrange(4), d + 2,
                           rng.choice([max(d - 1, 0), rng.randrange(-1, 4)])])
        buf = bytes(rng.randrange(256) for _ in range(rng.choice([0, 1, 3, 8, 12, 20])))
        off = rng.choice([0, 0, 1, 2, len(buf), len(buf) + 2, rng.randrange(24)])
        return {"kind": "pack", "fmt": fmt, "fields": fields, "size": size, "boolean": rng.random() < 0.5,
                "buf": hx(buf), "offset": off, "ws": rng.choice([" ", " ", "  ", "\t", " \n"])}

    def _gen_unpack(self, rng):
        fmt = self._rand_fmt(rng)
        d = default_size(fmt) if sum(fmt) >= 0 else 0
        size = rng.choice([None, None, d, d + 1, max(d - 1, 0)])
        ln = rng.choice([d, d, d, d + 1, d + 3, max(d - 1, 0), 0])
        b = bytes(rng.choice([0, 0xff, rng.randrange(256), rng.randrange(256)]) for _ in range(ln))
        return {"kind": "unpack", "fmt": fmt, "b": hx(b), "boolean": rng.random() < 0.5, "size": size,
                "reverse": rng.random() < 0.4}

    def _gen_scalar(self, rng):
        k = rng.randrange(9)
        if k == 0:
            bits = rng.choice([0, 1, 7, 8, 9, 15, 16, 17, 31, 32, 33, 64, 100])
            n = rng.getrandbits(bits) if bits else 0
            if rng.random() < 0.3:
                n = -n
            if rng.random() < 0.05:
                n = rng.random() < 0.5                  # bool argument
            return {"kind": "bytes", "n": n, "size": rng.choice([0, 1, 2, 3, 4, 8, (bits + 7) // 8, 13])}
        if k == 1:
            ln = rng.choice([0, 1, 2, 3, 8, 9, 16])
            b = bytes(rng.choice([0, 0, 0xff, rng.randrange(256)]) for _ in range(ln))
            return {"kind": "unbytes", "b": hx(b)}
        if k == 2:
            return {"kind": "hex", "b": hx(bytes(rng.randrange(256) for _ in range(rng.choice([0, 1, 2, 5, 32]))))}
        if k == 3:
            ln = rng.choice([0, 1, 2, 3, 4, 7, 8, 20])
            mode = rng.randrange(4)
            alpha = ["0123456789abcdef", "0123456789abcdefABCDEF", "0123456789abcdefABCDEFgGxX _-:.\né٣",
                     "0123456789abcdef"][mode]
            if mode == 3:
                ln -= ln % 2
            return {"kind": "unhex", "h": "".join(rng.choice(alpha) for _ in range(ln))}
        if k == 4:
            size = rng.choice([0, 1, 4, 8, 9, 16, 33, -1])
            n = rng.getrandbits(max(size, 0) + rng.choice([0, 0, 0, 3]))
            if rng.random() < 0.2:
                n = -n
            return {"kind": "bin", "n": n, "size": size}
        if k == 5:
            ln = rng.choice([0, 1, 2, 8, 9, 40])
            alpha = rng.choice(["01", "01", "01", "0123456789", "01 a-+_"])
            return {"kind": "unbin", "u": "".join(rng.choice(alpha) for _ in range(ln))}
        if k == 6:
            n = rng.choice([1, 2, 7, 8, 9, 16, 32, 64, rng.randrange(-1, 70)])
            m = rng.randrange(5)
            x = rng.getrandbits(max(n, 0)) if m < 3 else (rng.getrandbits(max(n, 0) + 5) if m == 3 else -rng.getrandbits(8))
            if rng.random() < 0.05:
                x = rng.random() < 0.5
            return {"kind": "sign", "x": x, "n": n}
        # packByte / unpackByte
        fmt = []
        left = 8
        while left > 0 and rng.random() < 0.8:
            w = rng.randrange(1, left + 1)
            fmt.append(w)
            left -= w
        if rng.random() < 0.1:
            fmt.append(rng.choice([0, 9, 5, 8]))
        fields = [self._rand_val(rng, w) for w in fmt]
        if rng.random() < 0.05 and fields:
            fields.pop()
        return {"kind": "byte", "fmt": fmt, "fields": fields, "boolean": rng.random() < 0.5,
                "byte": rng.choice([0, 0xff, rng.randrange(256), rng.randrange(-300, 600)])}

    # ---- format given as TEXT, packifyInto in full (any offset, any buffer type, buffer after an exception)
    WS = [" ", " ", " ", "  ", "\t", "\n", "\r\n", "\x0b", "\x0c", "\x1c", "\x1d", "\x1e", "\x1f", " \t "]

    def _gen_ptext(self, rng):
        k = rng.choice([0, 1, 1, 2, 2, 3, 4, 6])
        good = rng.random() < 0.8
        toks = []
        for _ in range(k):
            w = rng.choice([1, 1, 2, 3, 4, 7, 8, 9, 12, 16, 0, 33])
            t = str(w)
            m = rng.randrange(14)
            if m == 0:
                t = "+" + t
            elif m == 1:
                t = "00" + t
            elif m == 2 and len(t) > 1:
                t = t[0] + "_" + t[1:]
            elif not good:
                t = rng.choice(["-" + t, t + "_", "_" + t, "1__0", "x", "0x8", "8.", "+", "-", "1e1", t])
            toks.append(t)
        text = rng.choice(["", "", " ", "\n\t"])
        for i, t in enumerate(toks):
            text += t + (rng.choice(self.WS) if i + 1 < len(toks) else rng.choice(["", "", " ", "\n"]))
        widths = self._ref_parse(text)
        nf = len(text.split())
        fields = [self._rand_val(rng, (widths[i] if widths and i < len(widths) else 4)) for i in range(nf)]
        if rng.random() < 0.06 and fields:
            fields.pop()
        d = (sum(widths) + 7) // 8 if widths and sum(widths) >= 0 else 1
        size = rng.choice([None, None, None, d, d + 1, max(d - 1, 0)])
        buf = bytes(rng.randrange(256) for _ in range(rng.choice([0, 1, 2, 3, 4, 6, 9])))
        s = d if size is None else size
        off = rng.choice([0, 0, 1, 2, len(buf), len(buf) + 2, -1, -2, -s, -s - 1, -len(buf), -len(buf) - 1,
                          rng.randrange(-8, 12)])
        return {"kind": "ptext", "text": text, "fields": fields, "size": size, "boolean": rng.random() < 0.5,
                "buf": hx(buf), "bk": rng.choice("aaalb"), "offset": off, "rev": rng.random() < 0.3}

    @staticmethod
    def _ref_parse(text):
        """reference reading of a format text (regular expressions, not the model): list of ints or None"""
        import re
        out = []
        for t in re.split(r"[ \t\n\r\x0b\x0c\x1c-\x1f]+", text):
            if t == "":
                continue
            if not re.fullmatch(r"[+-]?[0-9]+(_[0-9]+)*", t):
                return None
            out.append(int(t.replace("_", "")))
        return out

    def _ptext_families(self):
        """small exhaustive family: well-formed and malformed texts x buffer kinds x offsets incl. negative ones"""
        texts = ["8", "4 4", " 1\t3  2 2\n", "16", "1_0 6", "+8", "008", "", "8 x", "-8 16", "9", "4\x1c4"]
        for text in texts:
            nf = len(text.split())
            for bk in "alb":
                for buf in ("-", "0102", "0102030405"):
                    for off in (0, 1, 2, 5, 7, -1, -2, -3, -5, -6):
                        yield {"kind": "ptext", "text": text, "fields": [0xA5, 3, 0, 2][:nf], "size": None, "boolean": True,
                               "buf": buf, "bk": bk, "offset": off, "rev": False}
            yield {"kind": "ptext", "text": text, "fields": [1], "size": 1, "boolean": False, "buf": "aabb", "bk": "a",
                   "offset": 1, "rev": True}

    def generate(self, rng, n, tier):
        for i in range(n):
            r = rng.randrange(12)
            if r >= 10:
                yield self._gen_ptext(rng)
            elif r < 5:
                yield self._gen_pack(rng)
            elif r < 7:
                yield self._gen_unpack(rng)
            else:
                yield self._gen_scalar(rng)

    # ------------------------------------------------------------------ implementation
    def impl(self, c):
        from ioflo.aid import byting as B
        k = c["kind"]
        out = []
        if k == "ptext":
            text, fields, size, rev = c["text"], c["fields"], c["size"], c["rev"]
            st, p = call(B.packify, text, fields, size, rev)
            out.append(hx(p) if st == "ok" else p)
            if st == "ok":
                st2, u = call(B.unpackify, text, p, c["boolean"], size, rev)
                out.append(flds(u) if st2 == "ok" else u)
            else:
                out.append(p)
            raw = unhx(c["buf"])
            target = {"a": bytearray(raw), "l": list(raw), "b": bytes(raw)}[c["bk"]]
            try:
                r = str(B.packifyInto(target, text, fields, size, c["offset"], rev))
            except core.HarnessTimeout:
                raise
            except Exception as ex:
                r = {ValueError: "ERR ValueError", TypeError: "ERR TypeError", IndexError: "ERR IndexError",
                     AttributeError: "ERR AttributeError"}.get(type(ex), "ERR other:" + type(ex).__name__)
            try:
                after = hx(bytes(target))           # the caller's buffer after the call, also after an exception
            except Exception:
                after = "BAD"
            out.append("%s %s" % (after, r))
            return out

        def line(st_v, conv):
            st, v = st_v
            out.append(conv(v) if st == "ok" else v)
            return st_v

        if k in ("packall", "packvec"):
            fmt = c["fmt"]
            fs = fmtstr(fmt)
            vecs = c["vecs"] if k == "packvec" else vectors(fmt, c["lo"], c["n"])
            one = 1 in fmt or (8 * default_size(fmt) - sum(fmt)) == 1
            for v in vecs:
                self.nvec += 1
                st, p = line(call(B.packify, fs, v), hx)
                if st == "ok":
                    line(call(B.unpackify, fs, p, False), flds)
                    if one:
                        line(call(B.unpackify, fs, p, True), flds)
                else:
                    out.append("skip")
                    if one:
                        out.append("skip")
            return out
        if k == "pack":
            fs = fmtstr(c["fmt"], c.get("ws", " "))
            fields, size, boolean = c["fields"], c["size"], c["boolean"]
            for rev in (False, True):
                st, p = line(call(B.packify, fs, fields, size, rev), hx)
                if st == "ok":
                    snap = bytes(p)
                    line(call(B.unpackify, fs, p, boolean, size, rev), flds)      # the packed bytearray itself
                    line(call(B.unpackify, fs, p, boolean, size, rev), flds)      # ... decoded a second time
                    out.append("arg " + hx(p))                                    # ... and what is left of it
                    line(call(B.unpackify, fs, snap, boolean, size, rev), flds)   # bytes input
                else:
                    out += [p] * 4
                buf = bytearray(unhx(c["buf"]))
                st, r = call(B.packifyInto, buf, fs, fields, size, c["offset"], rev, inplace=(0,))
                out.append("%s %s" % (hx(buf), r) if st == "ok" else r)
            # pure functions: the same call made again, after all the others, must answer the same
            for rev, idx in ((False, 0), (True, 6)):
                st, p = call(B.packify, fs, fields, size, rev)
                if (hx(p) if st == "ok" else p) != out[idx]:
                    out.append("UNSTABLE packify(reverse=%s) first %s, again %s" % (rev, out[idx], hx(p) if st == "ok" else p))
            return out
        if k == "unpack":
            fs = fmtstr(c["fmt"])
            raw = unhx(c["b"])
            X = bytearray(raw)                       # ONE buffer object, decoded twice, then inspected
            line(call(B.unpackify, fs, X, c["boolean"], c["size"], c["reverse"]), flds)
            line(call(B.unpackify, fs, X, c["boolean"], c["size"], c["reverse"]), flds)
            out.append("arg " + hx(X))
            line(call(B.unpackify, fs, raw, c["boolean"], c["size"], c["reverse"]), flds)          # bytes
            line(call(B.unpackify, fs, list(raw), c["boolean"], c["size"], c["reverse"]), flds)    # list of ints
            Y = bytearray(raw[::-1])                 # the mirror image, same treatment
            line(call(B.unpackify, fs, Y, c["boolean"], c["size"], not c["reverse"]), flds)
            line(call(B.unpackify, fs, Y, c["boolean"], c["size"], not c["reverse"]), flds)
            out.append("arg " + hx(Y))
            return out
        if k == "bytes":
            n, size = c["n"], c["size"]
            for rev in (False, True):
                for strict in (False, True):
                    st, b = line(call(B.bytify, n, size, rev, strict), hx)
                    if st == "ok":
                        line(call(B.unbytify, b, rev), str)
                    else:
                        out.append(b)
            return out
        if k == "unbytes":
            b = unhx(c["b"])
            X = bytearray(b)                         # ONE buffer object for all decodings
            for rev in (False, True):
                st, n = line(call(B.unbytify, X, rev), str)
                if st == "ok":
                    line(call(B.bytify, n, len(b), rev, False), hx)
                    line(call(B.bytify, n, len(b), rev, True), hx)
                else:
                    out += [n, n]
            line(call(B.unbytify, X, False), str)                # decoded again
            out.append("arg " + hx(X))                           # what is left of the buffer
            line(call(B.unbytify, b, False), str)                # bytes
            line(call(B.unbytify, list(b), False), str)          # any iterable of ints
            return out
        if k == "hex":
            b = unhx(c["b"])
            X = bytearray(b)
            st, h = line(call(B.hexify, X), sout)
            if st == "ok":
                line(call(B.unhexify, h), hx)
            line(call(B.hexify, X), sout)                        # same buffer object again
            out.append("arg " + hx(X))
            line(call(B.hexify, b), sout)                        # bytes
            st, h = line(call(B.hexize, b), sout)
            if st == "ok":
                line(call(B.unhexize, h), hx)
            return out
        if k == "unhex":
            h = c["h"]
            st, b = line(call(B.unhexify, h), hx)
            if st == "ok":
                line(call(B.hexify, b), sout)
            st, b = line(call(B.unhexize, h), hx)
            if st == "ok":
                line(call(B.hexize, b), sout)
            return out
        if k == "bin":
            st, u = line(call(B.binize, c["n"], c["size"]), sout)
            if st == "ok":
                line(call(B.unbinize, u), str)
            return out
        if k == "unbin":
            u = c["u"]
            st, n = line(call(B.unbinize, u), str)
            if st == "ok":
                line(call(B.binize, n, len(u)), sout)
            return out
        if k == "sign":
            line(call(B.signExtend, c["x"], c["n"]), str)
            return out
        if k == "byte":
            fb = "".join(str(w) for w in c["fmt"]).encode()
            st, b = line(call(B.packByte, fb, c["fields"]), str)
            if st == "ok":
                line(call(B.unpackByte, fb, b, c["boolean"]), flds)
            line(call(B.unpackByte, fb, c["byte"], c["boolean"]), flds)
            return out
        return ["HARNESS unknown kind"]

    # ------------------------------------------------------------------ model
    def requests(self, c):
        k = c["kind"]
        if k == "ptext":
            t, fv, s = senc(c["text"]), ilist(c["fields"]), sz(c["size"])
            return ["packify-t %s %s %s %s" % (t, fv, s, fl(c["rev"])),
                    "rt-pack-t %s %s %s %s %s" % (t, fv, s, fl(c["boolean"]), fl(c["rev"])),
                    "packinto-t %s %s %s %s %s %d %s" % (c["bk"], c["buf"], t, fv, s, c["offset"], fl(c["rev"])),
                    "region negoffset-t %s %s %d" % (t, s, c["offset"])]
        if k in ("packall", "packvec"):
            fmt = c["fmt"]
            f = ilist(fmt)
            vecs = c["vecs"] if k == "packvec" else vectors(fmt, c["lo"], c["n"])
            one = 1 in fmt or (8 * default_size(fmt) - sum(fmt)) == 1
            r = []
            for v in vecs:
                fv = ilist(v)
                r.append("packify %s %s N 0" % (f, fv))
                r.append("rt-pack %s %s N 0 0" % (f, fv))
                if one:
                    r.append("rt-pack %s %s N 1 0" % (f, fv))
            return r
        if k == "pack":
            f, fv, s = ilist(c["fmt"]), ilist(c["fields"]), sz(c["size"])
            r = []
            for rev in ("0", "1"):
                rt = "rt-pack %s %s %s %s %s" % (f, fv, s, fl(c["boolean"]), rev)
                r.append("packify %s %s %s %s" % (f, fv, s, rev))
                r += [rt, rt]
                r.append("packify %s %s %s %s" % (f, fv, s, rev))       # the argument of the decodings, afterwards
                r.append(rt)
                r.append("packinto %s %s %s %s %d %s" % (c["buf"], f, fv, s, c["offset"], rev))
            r.append("region onebit %s %s" % (f, fv))
            return r
        if k == "unpack":
            f, s = ilist(c["fmt"]), sz(c["size"])
            u = "unpackify %s %s %s %s %s" % (f, c["b"], fl(c["boolean"]), s, fl(c["reverse"]))
            m = "unpackify %s %s %s %s %s" % (f, hx(unhx(c["b"])[::-1]), fl(c["boolean"]), s, fl(not c["reverse"]))
            return [u, u, u, u, m, m]
        if k == "bytes":
            r = []
            for rev in "01":
                for strict in "01":
                    r.append("bytify %d %d %s %s" % (c["n"], c["size"], rev, strict))
                    r.append("rt-bytes %d %d %s %s" % (c["n"], c["size"], rev, strict))
            return r
        if k == "unbytes":
            r = []
            for rev in "01":
                r += ["unbytify %s %s" % (c["b"], rev), "rt-unbytes %s %s 0" % (c["b"], rev),
                      "rt-unbytes %s %s 1" % (c["b"], rev)]
            r += ["unbytify %s 0" % c["b"]] * 3
            return r
        if k == "hex":
            return ["hexify " + c["b"], "rt-hex " + c["b"], "hexify " + c["b"], "hexify " + c["b"],
                    "hexify " + c["b"], "rt-hex " + c["b"]]
        if k == "unhex":
            return ["unhexify " + senc(c["h"]), "rt-unhex " + senc(c["h"])] * 2
        if k == "bin":
            return ["binize %d %d" % (c["n"], c["size"]), "rt-bin %d %d" % (c["n"], c["size"])]
        if k == "unbin":
            return ["unbinize " + senc(c["u"]), "rt-unbin " + senc(c["u"])]
        if k == "sign":
            return ["signext %d %d" % (c["x"], c["n"])]
        if k == "byte":
            f, fv = ilist(c["fmt"]), ilist(c["fields"])
            return ["packbyte %s %s" % (f, fv), "rt-byte %s %s %s" % (f, fv, fl(c["boolean"])),
                    "unpackbyte %s %d %s" % (f, c["byte"], fl(c["boolean"])), "region onebit %s %s" % (f, fv)]
        return ["unknown"]

    def model_post(self, c, replies):
        k = c["kind"]
        r = list(replies)
        if k == "ptext":
            self._region[("negoff", core.case_key(c))] = (r.pop() == "1")
            return r
        if k in ("pack", "byte"):
            self._region[core.case_key(c)] = (r.pop() == "1")     # the Lean region predicate, same driver run
        # The Lean functions are pure: the argument of a decoding after the call is the argument before the call.
        if k == "pack":
            for base in (0, 6):
                if not r[base + 3].startswith("ERR"):
                    r[base + 3] = "arg " + r[base + 3]
            return r
        if k == "unpack":
            b = unhx(c["b"])
            return r[:2] + ["arg " + hx(b)] + r[2:6] + ["arg " + hx(b[::-1])]
        if k == "unbytes":
            return r[:7] + ["arg " + c["b"]] + r[7:]
        if k in ("packall", "packvec"):
            # after a failed pack the implementation side prints "skip"; the model's rt lines repeat the error
            out, i = [], 0
            fmt = c["fmt"]
            per = 3 if (1 in fmt or (8 * default_size(fmt) - sum(fmt)) == 1) else 2
            for i in range(0, len(r), per):
                blk = r[i:i + per]
                if blk[0].startswith("ERR"):
                    blk = [blk[0]] + ["skip"] * (per - 1)
                out += blk
            return out
        if k in ("hex", "unhex", "bin", "unbin", "byte"):
            # a failed first call is printed once by the implementation side
            if k == "byte":
                return ([r[0]] if r[0].startswith("ERR") else r[:2]) + r[2:]
            if k == "hex":
                return r[:3] + ["arg " + c["b"]] + r[3:]
            if k == "unhex":
                out = []
                for a, b in (r[0:2], r[2:4]):
                    out += [a] if a.startswith("ERR") else [a, b]
                return out
            return [r[0]] if r[0].startswith("ERR") else r
        return r

    # ------------------------------------------------------------------ property oracle
    def oracle(self, c, out):
        try:
            return self._oracle(c, out)
        except core.HarnessTimeout:
            raise
        except Exception as ex:     # an unexpected shape of the implementation's output is a failure, not a crash
            return "implementation output does not have the expected form (%s: %s): %s" % (type(ex).__name__, ex, out[:6])

    def _ptext_oracle(self, c, out):
        if len(out) != 3:
            return "wrong number of results"
        for o in out:
            if o.startswith("ARG-MUTATED"):
                return "a codec changed its argument: " + o[12:]
        p, u, into = out
        after, _, ret = into.partition(" ")
        raw = unhx(c["buf"])
        if ret.startswith("ERR"):
            # an exception must not leave other bytes disturbed: the old content is still there, anything
            # appended is zero padding
            a = unhx(after)
            if a[:len(raw)] != raw or any(a[len(raw):]):
                return "packifyInto raised %s and left the buffer %s (was %s)" % (ret, after, c["buf"])
        widths = self._ref_parse(c["text"])
        fields, size = c["fields"], c["size"]
        if widths is None or not valid_format(widths, len(fields), size):
            return None
        s = default_size(widths) if size is None else size
        if p.startswith("ERR"):
            return "packify raised %s on the well-formed format %r" % (p, c["text"])
        want = expected_fields(widths, fields, size, c["boolean"])
        if u != want:
            return "unpackify(packify(fields)) with format text %r = %s, expected masked fields %s" % (c["text"], u, want)
        if c["bk"] == "b":
            return None                          # bytes is immutable: nothing is claimed
        off, n = c["offset"], len(raw)
        if off >= 0:
            ext = raw + b"\0" * max(0, off + s - n)
            wantbuf = ext[:off] + unhx(p) + ext[off + s:]
        elif -n <= off and off + s <= 0:
            wantbuf = raw[:n + off] + unhx(p) + raw[n + off + s:]      # counted from the end, in place
        else:
            return None                          # slice not inside the buffer: nothing is claimed
        if into != "%s %d" % (hx(wantbuf), s):
            return ("packifyInto(offset=%d) left %s, expected %s %d (same bytes at the offset, others untouched)"
                    % (off, into, hx(wantbuf), s))
        return None

    def _oracle(self, c, out):
        k = c["kind"]
        if k == "ptext":
            return self._ptext_oracle(c, out)
        if any(o.startswith("HARNESS") for o in out):
            return "harness: " + out[0]
        for o in out:
            if o.startswith("UNSTABLE"):
                return "the same call answered differently the second time: " + o[9:]
            if o.startswith("ARG-MUTATED"):      # only packifyInto may write to an argument (its target buffer)
                return "a codec changed its argument: " + o[12:]
        if k in ("packall", "packvec"):
            fmt = c["fmt"]
            vecs = c["vecs"] if k == "packvec" else vectors(fmt, c["lo"], c["n"])
            one = 1 in fmt or (8 * default_size(fmt) - sum(fmt)) == 1
            per = 3 if one else 2
            for j, v in enumerate(vecs):
                blk = out[j * per:(j + 1) * per]
                if len(blk) < per or blk[0].startswith("ERR"):
                    return "packify(%r, %r) raised/absent: %s" % (fmtstr(fmt), v, blk[:1])
                if blk[1] != expected_fields(fmt, v, None, False):
                    return "unpackify(packify(%r, %r)) = %s, expected %s" % (fmtstr(fmt), v, blk[1], expected_fields(fmt, v, None, False))
                if one and blk[2] != expected_fields(fmt, v, None, True):
                    return "unpackify(packify(%r, %r), boolean=True) = %s, expected %s" % (fmtstr(fmt), v, blk[2], expected_fields(fmt, v, None, True))
            return None
        if k == "pack":
            fmt, fields, size = c["fmt"], c["fields"], c["size"]
            if not valid_format(fmt, len(fields), size) or len(out) != 12:
                return None if len(out) == 12 else "wrong number of results"
            s = default_size(fmt) if size is None else size
            want = expected_fields(fmt, fields, size, c["boolean"])
            p0, u0, u0b, a0, u0c, i0, p1, u1, u1b, a1, u1c, i1 = out
            if p0.startswith("ERR") or p1.startswith("ERR"):
                return "packify raised on a valid format: %s / %s" % (p0, p1)
            if len(unhx(p0)) != s:
                return "packify returned %d bytes, size is %d" % (len(unhx(p0)), s)
            if u0 != want:
                return "unpackify(packify(fields)) = %s, expected masked fields %s" % (u0, want)
            if u1 != want:
                return "reverse=True: unpackify(packify(fields)) = %s, expected %s" % (u1, want)
            if unhx(p1) != unhx(p0)[::-1]:
                return "packify(reverse=True) = %s is not the mirror image of %s" % (p1, p0)
            for name, p, u, ub, a, uc in (("False", p0, u0, u0b, a0, u0c), ("True", p1, u1, u1b, a1, u1c)):
                if a != "arg " + p:
                    return "reverse=%s: unpackify changed the packed buffer it was given: %s -> %s" % (name, p, a[4:])
                if ub != u:
                    return "reverse=%s: unpacking the same buffer a second time gives %s, the first time %s" % (name, ub, u)
                if uc != u:
                    return "reverse=%s: unpackify of the same bytes as bytes gives %s, as bytearray %s" % (name, uc, u)
            buf = unhx(c["buf"])
            off = c["offset"]
            ext = buf + b"\0" * max(0, off + s - len(buf))
            for p, i, name in ((p0, i0, "False"), (p1, i1, "True")):
                wantbuf = ext[:off] + unhx(p) + ext[off + s:]
                if i != "%s %d" % (hx(wantbuf), s):
                    return "packifyInto(reverse=%s) left %s, expected %s %d (same bytes at the offset, others untouched)" % (name, i, hx(wantbuf), s)
            return None
        if k == "unpack":
            if len(out) != 8:
                return "wrong number of results"
            u, ub, a, ubytes, ulist, m, mb, am = out
            raw = unhx(c["b"])
            if a != "arg " + hx(raw) or am != "arg " + hx(raw[::-1]):
                return "unpackify changed the buffer it was given: %s -> %s / %s -> %s" % (hx(raw), a[4:], hx(raw[::-1]), am[4:])
            if ub != u or mb != m:
                return "unpacking the same buffer a second time gives %s / %s, the first time %s / %s" % (ub, mb, u, m)
            if ubytes != u or ulist != u:
                return "unpackify of the same bytes as bytearray / bytes / list gives %s / %s / %s" % (u, ubytes, ulist)
            if u != m:
                return "unpackify(b, reverse) = %s but unpackify(mirror(b), not reverse) = %s" % (u, m)
            return None
        if k == "bytes":
            n, size = c["n"], c["size"]
            if len(out) != 8:
                return "wrong number of results"
            res = {}
            i = 0
            for rev in (False, True):
                for strict in (False, True):
                    b, u = out[i], out[i + 1]
                    i += 2
                    if b.startswith("ERR"):
                        return "bytify raised " + b
                    want = int(n) if (n >= 0 and not strict) else int(n) % (256 ** size)
                    if u != str(want):
                        return "unbytify(bytify(%d, %d, reverse=%s, strict=%s)) = %s, expected %d" % (n, size, rev, strict, u, want)
                    bb = unhx(b)
                    if len(bb) < size or ((strict or n < 0) and len(bb) != size):
                        return "bytify(%d, %d, strict=%s) has length %d" % (n, size, strict, len(bb))
                    res[(rev, strict)] = bb
            for strict in (False, True):
                if res[(True, strict)] != res[(False, strict)][::-1]:
                    return "bytify reverse=True is not the mirror image (strict=%s)" % strict
            return None
        if k == "unbytes":
            b = unhx(c["b"])
            if len(out) != 10:
                return "wrong number of results"
            if out[7] != "arg " + c["b"]:
                return "unbytify changed the buffer it was given: %s -> %s" % (c["b"], out[7][4:])
            if not (out[6] == out[0] == out[8] == out[9]):
                return "unbytify of the same bytes (again / as bytes / as list) gives %s, first %s" % ([out[6], out[8], out[9]], out[0])
            for j, rev in enumerate((False, True)):
                u, b0, b1 = out[3 * j:3 * j + 3]
                ref = int.from_bytes(b, "little" if rev else "big")
                if u != str(ref):
                    return "unbytify(%s, reverse=%s) = %s, expected %d" % (c["b"], rev, u, ref)
                if unhx(b0) != b or unhx(b1) != b:
                    return "bytify(unbytify(b), len(b), reverse=%s) = %s / %s, expected %s" % (rev, b0, b1, c["b"])
            return None
        if k == "hex":
            if len(out) != 7:
                return "hexify/hexize raised: %s" % out
            if out[3] != "arg " + c["b"]:
                return "hexify changed the buffer it was given: %s -> %s" % (c["b"], out[3][4:])
            if not (out[2] == out[0] == out[4]):
                return "hexify of the same bytes (again / as bytes) gives %s, first %s" % ([out[2], out[4]], out[0])
            if out[1] != c["b"] or out[6] != c["b"]:
                return "unhexify(hexify(%s)) = %s, unhexize(hexize) = %s" % (c["b"], out[1], out[6])
            return None
        if k == "unhex":
            h = c["h"]
            if len(h) % 2 == 0 and all(ch in "0123456789abcdef" for ch in h):
                if len(out) != 4 or out[1] != sout(h) or out[3] != sout(h):
                    return "hexify(unhexify(%r)) = %s" % (h, out)
            return None
        if k == "bin":
            n, size = c["n"], c["size"]
            if size >= 0 and 0 <= n < (1 << size):
                if len(out) != 2 or out[1] != str(n):
                    return "unbinize(binize(%d, %d)) = %s" % (n, size, out)
            return None
        if k == "unbin":
            u = c["u"]
            if all(ch in "01" for ch in u):
                if len(out) != 2 or out[1] != sout(u):
                    return "binize(unbinize(%r), %d) = %s" % (u, len(u), out)
            return None
        if k == "sign":
            x, n = c["x"], c["n"]
            if n >= 1 and 0 <= x < (1 << n):
                want = int(x) if x < (1 << (n - 1)) else int(x) - (1 << n)
                if out != [str(want)]:
                    return "signExtend(%d, %d) = %s, two's complement value is %d" % (x, n, out, want)
            return None
        if k == "byte":
            fmt, fields = c["fmt"], c["fields"]
            if all(1 <= w <= 8 for w in fmt) and sum(fmt) <= 8 and len(fields) >= len(fmt):
                want = []
                for w, f in zip(fmt, fields):
                    v = int(f) & ((1 << w) - 1)
                    want.append(("T" if v else "F") if (w == 1 and c["boolean"]) else str(v))
                want = ",".join(want) if want else "-"
                if len(out) != 3 or out[1] != want:
                    return "unpackByte(packByte(%r, %r)) = %s, expected %s" % (fmt, fields, out[:2], want)
            return None
        return None

    # ------------------------------------------------------------------ bookkeeping
    def region(self, finding, c):
        if c["kind"] == "ptext":
            widths = self._ref_parse(c["text"])
            if finding.get("region") == "Ioflo.Bits.negOffsetInserts":
                key = ("negoff", core.case_key(c))
                if key not in self._region:
                    self._region[key] = core.Driver(self.ENGINE).run([self.requests(c)[-1]]) == ["1"]
                return self._region[key]
            if finding.get("region") == "Ioflo.Bits.oneBitNonBool" and widths is not None:
                r = core.Driver(self.ENGINE).run(["region onebit %s %s" % (ilist(widths), ilist(c["fields"]))])
                return r == ["1"]
            return False
        if finding.get("region") != "Ioflo.Bits.oneBitNonBool":
            return False
        if c["kind"] == "pack":
            fmt, fields = c["fmt"], c["fields"]
        elif c["kind"] == "byte":
            fmt, fields = c["fmt"], c["fields"]
        else:
            return False
        key = core.case_key(c)
        if key not in self._region:
            r = core.Driver(self.ENGINE).run(["region onebit %s %s" % (ilist(fmt), ilist(fields))])
            self._region[key] = (r == ["1"])
        return self._region[key]

    def nontrivial(self, c, out):
        if not out or out[0].startswith("ERR") or out[0].startswith("HARNESS"):
            return False
        k = c["kind"]
        if k == "ptext":
            w = self._ref_parse(c["text"])
            return bool(w) and sum(w) > 0
        if k in ("packall", "packvec", "pack", "unpack", "byte"):
            return sum(c["fmt"]) > 0
        if k in ("hex", "unbytes"):
            return c["b"] != "-"
        if k == "unhex":
            return c["h"] != ""
        if k == "unbin":
            return c["u"] != ""
        if k == "bin":
            return c["size"] > 0
        return True

    def bucket(self, c, out):
        k = c["kind"]
        err = bool(out) and out[0].startswith("ERR")
        if k == "ptext":
            return "ptext %s buf:%s offset%s" % ("malformed" if self._ref_parse(c["text"]) is None else "error" if err else "ok",
                                                  c["bk"], "<0" if c["offset"] < 0 else ">=0")
        if k in ("packall", "packvec"):
            return "%s width%s" % (k, "<=8" if sum(c["fmt"]) <= 8 else "9-16")
        if k in ("pack", "unpack"):
            t = sum(c["fmt"])
            return "%s %s" % (k, "error" if err else "width0" if t == 0 else "width<=16" if t <= 16 else "width<=64" if t <= 64 else "width>64")
        return k + (" error" if err else "")

    def extra_evidence(self):
        return {"vectors": self.nvec,
                "outside_model": "no floating point occurs in byting.py; Python ints are modelled exactly as unbounded Int/Nat"}

    def shrink_candidates(self, c):
        inside = c["kind"] in ("pack", "byte") and self._py_region(c["fmt"], c["fields"])
        for cand in self._shrink(c):
            if not inside and cand["kind"] in ("pack", "byte") and self._py_region(cand["fmt"], cand["fields"]):
                continue            # never walk a new failure into the region of the known finding
            yield cand

    def _shrink(self, c):
        k = c["kind"]
        if k == "ptext":
            toks = c["text"].split()
            for i in range(len(toks)):
                yield dict(c, text=" ".join(toks[:i] + toks[i + 1:]), fields=c["fields"][:i] + c["fields"][i + 1:])
            if c["text"] != " ".join(toks):
                yield dict(c, text=" ".join(toks))
            for key, val in (("buf", "-"), ("offset", 0), ("size", None), ("rev", False), ("bk", "a"), ("boolean", False)):
                if c[key] != val:
                    yield dict(c, **{key: val})
            for i, f in enumerate(c["fields"]):
                if f not in (0, 1) and not isinstance(f, bool):
                    yield dict(c, fields=c["fields"][:i] + [1] + c["fields"][i + 1:])
            return
        if k in ("packall",):
            for v in vectors(c["fmt"], c["lo"], c["n"]):
                yield {"kind": "pack", "fmt": c["fmt"], "fields": v, "size": None, "boolean": True, "buf": "-", "offset": 0}
        if k == "packvec":
            for v in c["vecs"]:
                yield {"kind": "pack", "fmt": c["fmt"], "fields": v, "size": None, "boolean": True, "buf": "-", "offset": 0}
        if k == "pack":
            fmt, fields = c["fmt"], c["fields"]
            if c.get("ws", " ") != " ":
                yield dict(c, ws=" ")
            if c["buf"] != "-" or c["offset"]:
                yield dict(c, buf="-", offset=0)
                yield dict(c, offset=0)
            if c["size"] is not None:
                yield dict(c, size=None)
            for i in range(len(fmt)):
                if len(fields) >= len(fmt):
                    yield dict(c, fmt=fmt[:i] + fmt[i + 1:], fields=fields[:i] + fields[i + 1:])
            for i in range(len(fmt)):
                if fmt[i] > 1:
                    yield dict(c, fmt=fmt[:i] + [fmt[i] // 2] + fmt[i + 1:])
                    yield dict(c, fmt=fmt[:i] + [fmt[i] - 1] + fmt[i + 1:])
            for i in range(len(fields)):
                f = fields[i]
                if isinstance(f, bool):
                    yield dict(c, fields=fields[:i] + [int(f)] + fields[i + 1:])
                elif f not in (0, 1):
                    for g in (0, 1, f // 2, f & 0xff):
                        if g != f:
                            yield dict(c, fields=fields[:i] + [g] + fields[i + 1:])
            if c["boolean"]:
                yield dict(c, boolean=False)
        if k in ("unbytes", "hex"):
            b = unhx(c["b"])
            for i in range(len(b)):
                yield dict(c, b=hx(b[:i] + b[i + 1:]))
            for i in range(len(b)):
                if b[i] not in (0, 1):
                    yield dict(c, b=hx(b[:i] + bytes([b[i] // 2]) + b[i + 1:]))
        if k in ("unhex", "unbin"):
            key = "h" if k == "unhex" else "u"
            s = c[key]
            step = 2 if k == "unhex" else 1
            for i in range(0, len(s), step):
                yield dict(c, **{key: s[:i] + s[i + step:]})
        if k in ("bytes", "bin"):
            n = c["n"]
            for m in (0, 1, n // 2, n // 256, -1 if n < 0 else 0):
                if m != n:
                    yield dict(c, n=m)
            if c["size"] > 0:
                yield dict(c, size=c["size"] - 1)
        if k == "sign":
            if c["n"] > 1:
                yield dict(c, n=c["n"] - 1, x=c["x"] >> 1)
            if c["x"] > 0:
                yield dict(c, x=c["x"] // 2)
        if k == "byte":
            fmt, fields = c["fmt"], c["fields"]
            for i in range(len(fmt)):
                if len(fields) >= len(fmt):
                    yield dict(c, fmt=fmt[:i] + fmt[i + 1:], fields=fields[:i] + fields[i + 1:])
            for i in range(len(fields)):
                if fields[i] not in (0, 1):
                    yield dict(c, fields=fields[:i] + [fields[i] // 2 if fields[i] > 0 else 0] + fields[i + 1:])
