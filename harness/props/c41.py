"""C41 — CRC helpers compute CRC-16/GENIBUS and CRC-64/WE.
Model: lean/IofloModel/Model/Crc.lean (transcription of ioflo/aid/checking.py)
Theorems: lean/IofloModel/Props/C41.lean (bit-serial = table-driven reference, every byte string)
Tie: crc16/crc64 of the working tree vs the model on the same byte strings.
Oracle (stage D, independent of the model): table-driven Python CRC with the catalogue parameters."""
import struct, itertools
import core


def _table(width, poly):
    top = 1 << (width - 1)
    mask = (1 << width) - 1
    t = []
    for i in range(256):
        c = i << (width - 8)
        for _ in range(8):
            c = ((c << 1) ^ poly) & mask if c & top else (c << 1) & mask
        t.append(c)
    return t

T16 = _table(16, 0x1021)
T64 = _table(64, 0x42f0e1eba9ea3693)


def ref(width, table, data):
    mask = (1 << width) - 1
    c = mask
    for b in data:
        c = ((c << 8) & mask) ^ table[((c >> (width - 8)) ^ b) & 0xff]
    return c ^ mask


def hx(b):
    return b.hex() if b else "-"


def _solver(width, table):
    """The CRC is affine over GF(2) and a bijection of its last width/8 message bytes: for any prefix and any
    target value there is exactly one suffix of that length giving the target. Returns suffix(prefix, target)."""
    nb = width // 8
    zero = bytes(nb)
    base = ref(width, table, zero)
    cols = []                       # image of suffix bit i (independent of the prefix)
    for i in range(width):
        cols.append(ref(width, table, (1 << i).to_bytes(nb, "big")) ^ base)
    # Gaussian elimination: rows[pivot bit] = (vector, combination of suffix bits)
    rows = {}
    for i, v in enumerate(cols):
        comb = 1 << i
        while v:
            h = v.bit_length() - 1
            if h in rows:
                v ^= rows[h][0]
                comb ^= rows[h][1]
            else:
                rows[h] = (v, comb)
                break

    def suffix(prefix, target):
        v = target ^ ref(width, table, prefix + zero)
        comb = 0
        while v:
            h = v.bit_length() - 1
            v ^= rows[h][0]
            comb ^= rows[h][1]
        return comb.to_bytes(nb, "big")
    return suffix

SUFFIX16 = _solver(16, T16)
SUFFIX64 = _solver(64, T64)
EDGE32 = [0, 1, 2, 0x3ff, 0x400, 0x7fffffff, 0x80000000, 0x80000001, 0xfffffbff, 0xfffffc00, 0xfffffffe, 0xffffffff]
EDGE16 = [0, 1, 0xff, 0x100, 0x7fff, 0x8000, 0xfffe, 0xffff]
KINDS = ["bytes", "bytearray", "memoryview", "memoryview-rw"]      # the byte strings of CPython (buffer protocol)


def as_kind(b, kind):
    if kind == "bytearray":
        return bytearray(b)
    if kind == "memoryview":
        return memoryview(bytes(b))
    if kind == "memoryview-rw":
        return memoryview(bytearray(b))
    return bytes(b)


class CHECK(core.Check):
    PROPERTY = "C41"
    LEAN_MODULES = ["IofloModel.Props.C41"]
    ENGINE = "crc"
    N_QUICK = 400
    N_THOROUGH = 20000
    RULE = ("byte strings: all of length <= 1 (quick) / <= 2 (thorough) exhaustively, then random lengths "
            "0..1024 with random / all-equal / single-bit contents; plus messages constructed (by inverting the reference "
            "CRC on the last 8 resp. 2 bytes) so that the checksum's halves take boundary values 0, 1, 2^31, 2^32-1 and "
            "values within 2^10 of the ends, and constant messages of every length up to 32/128; a ladder of lengths "
            "2^k-1, 2^k, 2^k+1 up to 2^14 (quick) / 2^18 (thorough) so that any size threshold inside the helpers is crossed; "
            "every string is handed over as bytes, bytearray, memoryview or writable memoryview (case field `kind`), each "
            "helper is called twice on it (results must agree) and the argument must be left unchanged; "
            "non-trivial = non-empty string; distinct by content and kind")
    TRUSTED = ["correspondence: checking.crc16/crc64 run in-process on the same byte strings as the Lean model "
               "(driver engine 'crc'); struct.pack('!H') of CPython",
               "reference parameters (poly, init, xorout, no reflection) as stated in the property"]
    PARTIAL = []
    TECHNIQUE = "Lean 4 theorem (induction over the byte list; XOR-linearity of the shift register) + differential correspondence"
    LEVEL_TEXT = ("Full proof on the model: for every byte list the transcribed bit-serial crc16/crc64 loops equal the "
                  "table-driven CRC-16/GENIBUS and CRC-64/WE references (C41_crc16_is_genibus, C41_crc64_is_we; the two "
                  "32-bit halves are shown to be the halves of one 64-bit register), plus the catalogue check values by "
                  "kernel evaluation. The model is tied to checking.py by running both on the same byte strings.")
    LEVEL_NOTE = ("Trusted: Lean kernel; axioms propext, Classical.choice, Quot.sound; the hand transcription of "
                  "checking.py validated only by the correspondence runs (all strings <= 1 byte quick / <= 2 bytes "
                  "thorough + random up to 1 KiB + a ladder of lengths around every power of two up to 16 KiB / 256 KiB, each as "
                  "bytes, bytearray and memoryview); struct.pack and bytearray of CPython.")

    def exhaustive(self, tier):
        L = 2 if tier == "thorough" else 1
        for n in range(L + 1):
            for t in itertools.product(range(256), repeat=n):
                for kind in (KINDS if n <= 1 else ["bytes"]):
                    yield {"data": hx(bytes(t)), "kind": kind}

    def boundary(self, rng, tier):
        """messages whose checksum takes boundary values of the OUTPUT space (each half at 0, 1, 2^31, 2^32-1 and
        within 2^10 of the ends; the 16-bit value likewise): computed by inverting the reference CRC on a suffix"""
        prefixes = [b"", b"\x00", b"\xff" * 3, b"ioflo"] + [bytes(rng.randrange(256) for _ in range(rng.randrange(1, 40)))
                                                          for _ in range(2 if tier == "quick" else 12)]
        for pre in prefixes:
            for hi in EDGE32:
                for lo in EDGE32:
                    yield {"data": hx(pre + SUFFIX64(pre, (hi << 32) | lo)), "origin": "boundary64"}
            for v in EDGE16:
                yield {"data": hx(pre + SUFFIX16(pre, v)), "origin": "boundary16"}
        for k in range(0, 33 if tier == "quick" else 129):      # constant messages of every small length
            for byte in (0x00, 0xff, 0x55, 0xaa):
                yield {"data": hx(bytes([byte]) * k), "origin": "constant"}

    def ladder(self, rng, tier):
        """lengths around every power of two: a fast path that switches on at some size is crossed"""
        top = 14 if tier == "quick" else 18
        for k in range(2, top + 1):
            for n in ((1 << k) - 1, 1 << k, (1 << k) + 1):
                mode = rng.randrange(3)
                b = (bytes([rng.randrange(256)]) * n if mode == 0 else
                     rng.getrandbits(8 * n).to_bytes(n, "big"))
                yield {"data": hx(b), "kind": rng.choice(KINDS), "origin": "ladder"}

    def generate(self, rng, n, tier):
        for c in self.boundary(rng, tier):
            c["kind"] = rng.choice(KINDS)
            yield c
        for c in self.ladder(rng, tier):
            yield c
        for i in range(n):
            k = rng.choice([0, 1, 2, 3, 7, 8, 9, 63, 64, 255, 256, 1024, rng.randrange(1025)])
            mode = rng.randrange(4)
            if mode == 0:
                b = bytes([rng.randrange(256)]) * k
            elif mode == 1 and k:
                ba = bytearray(k); ba[rng.randrange(k)] = 1 << rng.randrange(8); b = bytes(ba)
            else:
                b = bytes(rng.randrange(256) for _ in range(k))
            yield {"data": hx(b), "kind": rng.choice(KINDS)}

    def _bytes(self, case):
        return b"" if case["data"] == "-" else bytes.fromhex(case["data"])

    def requests(self, case):
        return ["crc16 " + case["data"], "crc64 " + case["data"]]

    def impl(self, case):
        from ioflo.aid import checking
        raw = self._bytes(case)
        outs = []
        for rnd in range(2):            # twice: a result must not depend on what was computed before
            b = as_kind(raw, case.get("kind", "bytes"))
            try:
                r16 = checking.crc16(b)
                o16 = bytes(r16).hex() if isinstance(r16, (bytes, bytearray)) else repr(r16)
            except Exception as ex:
                o16 = "raised-" + type(ex).__name__
            try:
                top, bot = checking.crc64(b)
                o64 = "%08x %08x" % (top, bot) if isinstance(top, int) and isinstance(bot, int) else repr((top, bot))
            except Exception as ex:
                o64 = "raised-" + type(ex).__name__
            if bytes(b) != raw:
                o16 = "argument-changed " + o16
            outs.append([o16, o64])
        if outs[0] != outs[1]:
            return [outs[0][0] + " then " + outs[1][0], outs[0][1] + " then " + outs[1][1]]
        return outs[0]

    def oracle(self, case, out):
        b = self._bytes(case)
        want16 = "%04x" % ref(16, T16, b)
        w = ref(64, T64, b)
        want64 = "%08x %08x" % (w >> 32, w & 0xffffffff)
        if out[0] != want16:
            return "crc16(%s) = %s, CRC-16/GENIBUS = %s" % (case["data"][:40], out[0], want16)
        if len(out) < 2 or out[1] != want64:
            return "crc64(%s) = %s, CRC-64/WE halves = %s" % (case["data"][:40], out[1:], want64)
        return None

    def nontrivial(self, case, out):
        return case["data"] != "-"

    def bucket(self, case, out):
        n = len(self._bytes(case))
        return (case.get("kind", "bytes") + ":" +
                ("len0" if n == 0 else "len1-2" if n <= 2 else "len3-64" if n <= 64 else "len65-1024" if n <= 1024
                 else "len1025-16K" if n <= 16385 else "len>16K"))

    def shrink_candidates(self, case):
        b = self._bytes(case)
        k = case.get("kind", "bytes")
        if k != "bytes":
            yield {"data": case["data"], "kind": "bytes"}
        if len(b) > 64:                 # long strings: halve first, then trim in blocks
            for cut in (len(b) // 2, len(b) // 4, 64, 8):
                yield {"data": hx(b[:len(b) - cut]), "kind": k}
                yield {"data": hx(b[cut:]), "kind": k}
            yield {"data": hx(bytes(len(b))), "kind": k}
            return
        for i in range(len(b)):
            yield {"data": hx(b[:i] + b[i + 1:]), "kind": k}
        for i in range(len(b)):
            if b[i]:
                yield {"data": hx(b[:i] + b"\0" + b[i + 1:]), "kind": k}
