"""C42 — timers report elapsed, remaining and expiry consistently with their clock.
Model:    lean/IofloModel/Model/Timer.lean (Timer, MonoTimer [with fixes/D42a], StoreTimer of ioflo/aid/timing.py)
Theorems: lean/IofloModel/Props/C42.lean
Tie:      the real classes driven by a controlled clock (timing.time replaced inside this process, a real
          storing.Store / timing.Stamper for store timers) against the Lean driver `drv-timer`, call by call:
          returned value / raised exception and the attributes start, stop, duration(, latest) after each call.
          mode q: dyadic numbers (float arithmetic exact) vs the exact-rational instantiation the theorems
          are about; mode f: arbitrary doubles vs the same definitions instantiated at Lean Float, bit for bit.
Oracle:   the clauses of the property evaluated with fractions.Fraction on the implementation's own outputs
          (previous attributes, clock reading, returned value), no model involved.

case = {"kind": timer|mono|store, "mode": q|f, "retro": bool, "holder": Store|Stamper, "dur": num,
        "t0": [num|None, ...]  clock readings available to the constructor (one is what the repaired code uses),
        "ops": [[name, args..., clock]]}   num = "i:<int>" (Python int) | "q:<p>/<q>" (float, exact) | "x:<16 hex>" (float bits)
"""
import struct, types, itertools
from fractions import Fraction as F
import core

OPS0 = ("elapsed", "remaining", "expired", "rep")


def py(tok):
    """token -> Python number the implementation is called with"""
    if tok is None:
        return None
    k, v = tok.split(":", 1)
    if k == "i":
        return int(v)
    if k == "q":
        f = F(v)
        x = float(f)
        if F(x) != f:
            raise core.Infra("inexact q token " + tok)
        return x
    if k == "x":
        return struct.unpack(">d", bytes.fromhex(v))[0]
    raise core.Infra("bad token " + tok)


def frac(tok):
    return None if tok is None else F(py(tok))


def qs(x):
    f = F(x)
    return "%d/%d" % (f.numerator, f.denominator)


def xs(x):
    b = struct.pack(">d", float(x)).hex()
    return "0000000000000000" if b == "8000000000000000" else b


def wire(tok, mode):
    if tok is None:
        return "_"
    return qs(py(tok)) if mode == "q" else xs(py(tok))


def Q(x):
    """make a q/i token from an int or Fraction"""
    f = F(x)
    return "q:%d/%d" % (f.numerator, f.denominator)


def I(n):
    return "i:%d" % n


class CHECK(core.Check):
    PROPERTY = "C42"
    LEAN_MODULES = ["IofloModel.Props.C42"]
    ENGINE = "timer"
    N_QUICK = 1500
    N_THOROUGH = 40000
    N_SEARCH = 3000
    RULE = ("histories = constructor + up to 14 calls (restart/repeat/extend/elapsed/remaining/expired) of Timer, "
            "MonoTimer (retro on/off) and StoreTimer (on storing.Store and timing.Stamper), each call preceded by a "
            "clock move: forward step, standstill, backward jump (shallow or beyond the start), stamp None for stores; "
            "numbers from small dyadic grids (so that boundaries clock==stop, clock==start are hit), epoch-sized "
            "clocks, Python ints; 12% of the histories in mode f (arbitrary doubles, compared with the Float "
            "instantiation bit for bit). Bounded-exhaustive: all histories of <=2 (quick) / <=3 (thorough) calls over "
            "8 calls x 3 clock values x 4 timer kinds x 2 constructors. non-trivial = at least one call returned a "
            "value and the clock changed at least once; distinct by the whole case")
    TRUSTED = ["correspondence: ioflo.aid.timing.Timer/MonoTimer/StoreTimer run in-process with timing.time replaced by "
               "a scripted clock (store timers: a real storing.Store or timing.Stamper whose stamp is set before each "
               "call); compared call by call with the Lean driver 'timer'",
               "the check is meant for /repo + fixes/D42a-monotimer-stale-args-after-retro.patch (MonoTimer.repeat/extend "
               "read .stop/.start after update(); constructor reads the clock once)",
               "IEEE-754 double arithmetic of CPython = Lean Float (mode f); exactness of float arithmetic on the "
               "dyadic grids used in mode q"]
    PARTIAL = ["C42_mono_every_history_partial / C42_mono_elapsed_never_decreases_partial: hypothesis SafeAlong = no "
               "repeat meets a negative (shifted) stop and no extend a negative (shifted) start; outside it restart()'s "
               "abs() flips the sign (finding D42b, counterexamples C42_counterexample_mono_deep_jump, "
               "C42_counterexample_timer_negative_clock)",
               "C42_timer_every_history needs clock readings >= 0 for the same reason (time.time() is)",
               "theorems are about exact rational time; binary rounding (mode f) is only compared, not proved about: "
               "with doubles elapsed may drop by an ulp across a retrograde shift",
               "one clock reading per call: a clock that changes between two reads inside one call is outside the model"]
    TECHNIQUE = ("Lean 4 theorems over all histories (induction over the call list, invariants; linear arithmetic over "
                 "Rat by grind) + call-by-call differential correspondence with the real classes")
    LEVEL_TEXT = ("Proof on the model for every history of (clock reading, call) pairs with arbitrary rational clocks: "
                  "each call satisfies the declarative clause Timer.Spec/Mono.Spec (elapsed = max 0 (clock-start), remaining "
                  "= max 0 (stop-clock), expired <-> stop <= clock, repeat starts at the previous stop, extend keeps the "
                  "start, retro shift by the backward jump, TimerRetroError iff jump and no compensation, elapsed readings "
                  "non-decreasing between restarts); store timer = wall timer with the stamp as clock. Full for Timer/"
                  "StoreTimer with clocks >= 0 and for all read-only histories; _partial (hypothesis SafeAlong) where "
                  "repeat/extend could meet a negative start/stop (known finding D42b, counterexamples proved).")
    LEVEL_NOTE = ("Trusted: Lean kernel; axioms propext, Classical.choice, Quot.sound; hand transcription of timing.py "
                  "validated by the correspondence runs only; the scripted clock standing for time.time(); the MonoTimer "
                  "model describes the code after fixes/D42a (unrepaired repeat/extend kept as Mono.stepOrig with a proved "
                  "counterexample); IEEE rounding compared (mode f), not proved.")

    # ------------------------------------------------------------------ generation
    def corpus(self):
        return core.load_corpus(self.PROPERTY)

    def _val(self, rng, grid, lo, hi, base=0):
        """a token on the grid 1/grid in [lo,hi] around base; sometimes a Python int"""
        k = rng.randint(lo * grid, hi * grid)
        v = F(k, grid) + base
        if v.denominator == 1 and rng.random() < 0.3:
            return I(int(v))
        return Q(v)

    def _gen_q(self, rng):
        kind = rng.choice(["timer", "mono", "mono", "mono", "store", "store"])
        retro = rng.random() < 0.7
        grid = rng.choice([1, 1, 2, 4, 1024])
        base = rng.choice([0, 0, 0, 3, 1000, 1700000000, 1700000000 + F(1, 4)])
        if rng.random() < 0.06:
            base = -rng.choice([1, 5, 100])          # negative clocks (region D42b for Timer/StoreTimer)
        span = rng.choice([4, 8, 20])
        now = F(rng.randint(0, span * grid), grid) + base
        case = {"kind": kind, "mode": "q", "retro": retro, "holder": rng.choice(["Store", "Stamper"]),
                "dur": self._val(rng, grid, -2 if rng.random() < 0.15 else 0, span)}
        t0 = [Q(now)]
        if kind == "mono" and rng.random() < 0.1:    # clock moves inside the constructor
            t0.append(Q(now + rng.choice([-1, -F(1, 2), 1])))
        if kind == "store" and rng.random() < 0.1:
            t0 = [None]
        case["t0"] = t0
        ops = []
        for _ in range(rng.randint(1, 14)):
            r = rng.random()
            if r < 0.5:
                now = now + F(rng.randint(0, 3 * grid), grid)
            elif r < 0.65:
                pass
            elif r < 0.93:
                now = now - F(rng.randint(1, 3 * grid), grid)
            else:
                now = now - rng.choice([span, 2 * span, 1000, abs(base) + span + 1])   # deep backward jump
            clock = Q(now) if not (now.denominator == 1 and rng.random() < 0.2) else I(int(now))
            if kind == "store" and rng.random() < 0.04:
                clock = None
            o = rng.random()
            if o < 0.55:
                ops.append([rng.choice(["elapsed", "elapsed", "remaining", "expired"]), clock])
            elif o < 0.67:
                ops.append(["rep", clock])
            elif o < 0.82:
                e = rng.choice([None, None, self._val(rng, grid, 0, 4), self._val(rng, grid, -span, 0)])
                ops.append(["extend", e, clock])
            else:
                s = rng.choice([None, None, self._val(rng, grid, 0, span, base), self._val(rng, grid, -span, span, base)])
                d = rng.choice([None, self._val(rng, grid, 0, span), self._val(rng, grid, -3, 0)])
                ops.append(["restart", s, d, clock])
        case["ops"] = ops
        return case

    def _gen_f(self, rng):
        """arbitrary doubles; kept away from the D42b region (everything stays far above 0)"""
        kind = rng.choice(["timer", "mono", "mono", "store"])
        base = rng.choice([1.0e6, 1.7e9, 12345.678])
        def X(v):
            return "x:" + struct.pack(">d", float(v)).hex()
        step = rng.choice([0.1, 0.3, 1e-3, 1.0 / 3.0, 7.77])
        now = base + rng.random() * 10
        case = {"kind": kind, "mode": "f", "retro": rng.random() < 0.75, "holder": rng.choice(["Store", "Stamper"]),
                "dur": X(rng.choice([0.1, 0.2, 0.25, 1.0, step * 3, rng.random() * 5])), "t0": [X(now)]}
        ops = []
        for _ in range(rng.randint(1, 14)):
            r = rng.random()
            if r < 0.55:
                now = now + step * rng.randint(0, 5)
            elif r < 0.7:
                pass
            else:
                now = now - step * rng.randint(1, 40)
            clock = X(now)
            o = rng.random()
            if o < 0.6:
                ops.append([rng.choice(["elapsed", "elapsed", "remaining", "expired"]), clock])
            elif o < 0.72:
                ops.append(["rep", clock])
            elif o < 0.86:
                ops.append(["extend", rng.choice([None, X(step), X(-step), X(rng.random())]), clock])
            else:
                ops.append(["restart", rng.choice([None, X(now - step), X(now + rng.random())]),
                            rng.choice([None, X(step * 2), X(-0.5)]), clock])
        case["ops"] = ops
        return case

    def generate(self, rng, n, tier):
        for i in range(n):
            yield self._gen_f(rng) if rng.random() < 0.12 else self._gen_q(rng)

    def exhaustive(self, tier):
        L = 3 if tier == "thorough" else 2
        calls = [["elapsed"], ["remaining"], ["expired"], ["rep"], ["extend", None], ["extend", I(-3)],
                 ["restart", None, None], ["restart", I(1), Q(2)]]
        clocks = [I(0), Q(1), Q(3)]
        steps = [c + [t] for c in calls for t in clocks]
        for kind, retro in (("timer", False), ("mono", True), ("mono", False), ("store", False)):
            for dur, t0 in ((Q(1), Q(2)), (I(0), Q(0))):
                for n in range(1, L + 1):
                    for seq in itertools.product(steps, repeat=n):
                        yield {"kind": kind, "mode": "q", "retro": retro, "holder": "Store", "dur": dur,
                               "t0": [t0], "ops": [list(s) for s in seq]}

    # ------------------------------------------------------------------ implementation
    def impl(self, case):
        from ioflo.aid import timing
        from ioflo.base import storing, excepting
        mode, kind = case["mode"], case["kind"]
        rd = qs if mode == "q" else xs
        readings = []

        def fake():
            if len(readings) > 1:
                return readings.pop(0)
            return readings[0]

        def state(t):
            st = "_" if t.start is None else rd(t.start)
            s = "%s %s %s" % (st, rd(t.stop), rd(t.duration))
            if kind == "mono":
                s += " " + rd(t.latest)
            return s

        saved = timing.time
        timing.time = types.SimpleNamespace(time=fake)
        out = []
        try:
            holder = None
            try:
                if kind == "store":
                    holder = storing.Store(stamp=None) if case["holder"] == "Store" else timing.Stamper()
                    self._stamp(holder, py(case["t0"][0]))
                    t = timing.StoreTimer(holder, duration=py(case["dur"]))
                else:
                    readings[:] = [py(x) for x in case["t0"]]
                    if kind == "timer":
                        t = timing.Timer(duration=py(case["dur"]))
                    else:
                        t = timing.MonoTimer(duration=py(case["dur"]), retro=case["retro"])
            except (TypeError, excepting.TimerRetroError) as ex:
                return ["E %s | constructor" % type(ex).__name__]
            out.append("- | " + state(t))
            for op in case["ops"]:
                name, args, clock = op[0], op[1:-1], op[-1]
                if kind == "store":
                    self._stamp(holder, py(clock))
                else:
                    readings[:] = [py(clock)]
                try:
                    if name == "elapsed":
                        r = "N " + rd(t.elapsed)
                    elif name == "remaining":
                        r = "N " + rd(t.remaining)
                    elif name == "expired":
                        v = t.expired
                        r = "B 1" if v is True else "B 0" if v is False else "B? %r" % (v,)
                    else:
                        if name == "rep":
                            v = t.repeat()
                        elif name == "extend":
                            v = t.extend(py(args[0])) if args[0] is not None else t.extend()
                        elif name == "restart":
                            kw = {}
                            if args[0] is not None:
                                kw["start"] = py(args[0])
                            if args[1] is not None:
                                kw["duration"] = py(args[1])
                            v = t.restart(**kw)
                        else:
                            raise core.Infra("bad op " + name)
                        r = "P %s %s" % (rd(v[0]), rd(v[1]))
                except TypeError:
                    r = "E TypeError"
                except excepting.TimerRetroError:
                    r = "E TimerRetroError"
                out.append(r + " | " + state(t))
        finally:
            timing.time = saved
        return out

    @staticmethod
    def _stamp(holder, v):
        if v is None:
            holder.stamp = None
        elif hasattr(holder, "changeStamp") and not hasattr(holder, "advance"):
            holder.changeStamp(v)
        else:
            holder.change(v)

    # ------------------------------------------------------------------ model
    def _lines(self, case, safe=False):
        m, kind = case["mode"], case["kind"]
        w = lambda tok: wire(tok, m)
        if kind == "timer":
            yield "%s timer init %s %s" % (m, w(case["dur"]), w(case["t0"][0]))
        elif kind == "mono":
            yield "%s mono init %d %s %s" % (m, 1 if case["retro"] else 0, w(case["dur"]), w(case["t0"][0]))
        else:
            yield "%s store init %s %s" % (m, w(case["dur"]), w(case["t0"][0]))
        for op in case["ops"]:
            body = " ".join([op[0]] + [w(a) for a in op[1:]])
            if safe:
                yield "q safe " + body
            yield "%s op %s" % (m, body)

    def requests(self, case):
        return list(self._lines(case, safe=(case["mode"] == "q")))

    _regions = {}

    def model_post(self, case, replies):
        if case["mode"] == "f":
            return [r.replace("8000000000000000", "0000000000000000") for r in replies]
        lines = list(self._lines(case, safe=True))
        # answers of the interleaved `q safe` requests = region of D42b, kept for region()
        self._regions[core.case_key(case)] = any(l.startswith("q safe") and r == "0" for l, r in zip(lines, replies))
        return [r for l, r in zip(lines, replies) if not l.startswith("q safe")]

    def region(self, finding, case):
        """D42b: some repeat/extend of the history violates `Safe` (evaluated by the Lean driver on the model state)"""
        if finding.get("id") != "D42b" or case["mode"] != "q":
            return False
        k = core.case_key(case)
        if k not in self._regions:
            self.model([case])
        return self._regions[k]

    # ------------------------------------------------------------------ oracle
    def oracle(self, case, out):
        """the property's clauses on the implementation's own outputs"""
        mode, kind = case["mode"], case["kind"]
        if not out or out[0].startswith("HARNESS-EXC"):
            return "harness exception: %s" % out[:1]
        if out[0].startswith("E "):
            # the constructor raised. Allowed only: MonoTimer without compensation whose clock went back
            # between its own readings (the repaired constructor reads once and never raises)
            return "constructor raised %s" % out[0]
        if len(out) != len(case["ops"]) + 1:
            return "wrong number of output lines"

        def val(s):
            if s == "_":
                return None
            if mode == "q":
                return F(s)
            return F(struct.unpack(">d", bytes.fromhex(s))[0])

        tol = (lambda a: 0) if mode == "q" else (lambda a: abs(a) * F(1, 2 ** 48))

        def close(a, b, scale=None):
            return abs(a - b) <= tol(scale if scale is not None else max(abs(a), abs(b)))

        def parse(line):
            o, st = line.split(" | ")
            return o.split(), [val(x) for x in st.split()]

        _, st = parse(out[0])
        last_el = None                       # last elapsed reading since the last (re)start
        for i, op in enumerate(case["ops"]):
            name, args, clock = op[0], op[1:-1], frac(op[-1])
            o, st2 = parse(out[i + 1])
            start, stop, dur = st[0], st[1], st[2]
            where = "call %d %s: " % (i, name)
            if o[0] == "E":
                if kind == "mono" and o[1] == "TimerRetroError" and not case["retro"] and clock < st[3]:
                    if st2 != st:
                        return where + "TimerRetroError changed the timer"
                    continue                 # raises on a backward jump without compensation: as required
                if kind == "store" and (clock is None or start is None):
                    st = st2
                    continue                 # store without stamp / start None: the property is silent
                return where + "raised %s (clock %s, latest %s, retro %s)" % (o[1], clock, st[3:] or "-", case["retro"])
            if kind == "store" and (clock is None or start is None):
                st = st2
                if name in ("restart", "rep"):
                    last_el = None
                continue
            if kind == "mono":
                latest = st[3]
                if clock < latest:
                    if not case["retro"]:
                        return where + "clock went back by %s without compensation and no TimerRetroError" % (latest - clock)
                    start, stop = start + (clock - latest), stop + (clock - latest)   # required shift
            big = max(abs(clock), abs(start), abs(stop))
            if name == "elapsed":
                got = val(o[1])
                if got < 0:
                    return where + "elapsed negative"
                if not close(got, max(F(0), clock - start), big):
                    return where + "elapsed %s != max(0, clock %s - start %s)" % (got, clock, start)
                if kind == "mono" and case["retro"] and last_el is not None and got < last_el - tol(big):
                    return where + "elapsed decreased from %s to %s without restart" % (last_el, got)
                last_el = got
            elif name == "remaining":
                got = val(o[1])
                if got < 0:
                    return where + "remaining negative"
                if not close(got, max(F(0), stop - clock), big):
                    return where + "remaining %s != max(0, stop %s - clock %s)" % (got, stop, clock)
            elif name == "expired":
                if o[0] != "B" or o[1] not in ("0", "1"):
                    return where + "expired is not a bool"
                want = clock >= stop
                if mode == "f" and close(clock, stop, big) and clock != stop:
                    want = (o[1] == "1")     # within rounding of the shifted stop: not decided by exact time
                if (o[1] == "1") != want:
                    return where + "expired=%s but clock %s, stop %s" % (o[1], clock, stop)
            elif name == "rep":
                if not close(st2[0], stop, big):
                    return where + "repeat started at %s, previous stop %s" % (st2[0], stop)
                last_el = None
            elif name == "extend":
                if not close(st2[0], start, big):
                    return where + "extend changed start from %s to %s" % (start, st2[0])
            elif name == "restart":
                last_el = None
            st = st2
        return None

    # ------------------------------------------------------------------ statistics
    def nontrivial(self, case, out):
        clocks = {tuple(case["t0"][:1])} | {(op[-1],) for op in case["ops"]}
        return len(clocks) > 1 and any(l[:1] in ("N", "B", "P") for l in out[1:])

    def bucket(self, case, out):
        back = False
        prev = frac(case["t0"][0])
        for op in case["ops"]:
            c = frac(op[-1])
            if c is not None and prev is not None and c < prev:
                back = True
            if c is not None:
                prev = c
        k = case["kind"] + ("+retro" if case["kind"] == "mono" and case["retro"] else "")
        err = any(l.startswith("E ") for l in out)
        return "%s/%s/%s%s" % (case["mode"], k, "backjump" if back else "forward", "/raises" if err else "")

    def shrink_candidates(self, case):
        for c in self._shrink(case):
            if not self.region({"id": "D42b"}, c):     # do not drift into the known finding while shrinking
                yield c

    def _shrink(self, case):
        ops = case["ops"]
        for i in range(len(ops)):
            c = dict(case)
            c["ops"] = ops[:i] + ops[i + 1:]
            yield c
        if len(case["t0"]) > 1:
            c = dict(case)
            c["t0"] = case["t0"][:1]
            yield c
