"""C43 — angle wrapping stays in range and preserves the angle.
Model: lean/IofloModel/Model/Wrap.lean (wrap1/wrap2/delta of ioflo/aid/navigating.py over exact rationals,
       plus the same functions with every arithmetic result rounded to binary64)
Theorems: lean/IofloModel/Props/C43.lean (exact instantiation, all rationals)
Tie: grid cases (ints and dyadic rationals, where float arithmetic is exact): implementation == EXACT model;
     float cases (random binary64): implementation == BINARY64 instantiation, bit for bit.
Oracle (independent of the model, fractions.Fraction): the property clauses stated on the implementation's result."""
import math, re
from fractions import Fraction as F
import core


def q(x):
    """canonical exact text of a number"""
    if isinstance(x, float):
        if math.isnan(x):
            return "NAN"
        if math.isinf(x):
            return "INF" if x > 0 else "-INF"
    if not isinstance(x, (int, float, F)):          # bool is an int: True == 1
        return "BAD " + type(x).__name__
    f = F(x)
    return "%d/%d" % (f.numerator, f.denominator)


def unq(s):
    p, d = s.split("/")
    return F(int(p), int(d))


def call(f, *a):
    try:
        return q(f(*a))
    except core.HarnessTimeout:
        raise
    except ZeroDivisionError:
        return "ERR ZeroDivisionError"
    except Exception as ex:
        return "ERR " + type(ex).__name__


class CHECK(core.Check):
    PROPERTY = "C43"
    LEAN_MODULES = ["IofloModel.Props.C43"]
    ENGINE = "wrap"
    N_QUICK = 1500
    N_THOROUGH = 40000
    N_SEARCH = 3000
    RULE = ("grid cases: angle a = i/4, wrap w = j/4, desired d on the same grid, exhaustively |i|<=80,|j|<=24 step 2 "
            "(quick) / |i|<=200, |j|<=40 (thorough), passed as Python ints when integral and 'int' typing is chosen, "
            "else as floats (all operations exact there); random grid cases with denominators 1..1024 and typical "
            "wraps 180/360/-180; big-int wrap1 cases; typed cases: every argument as int (also > 2**53), bool, float and "
            "fractions.Fraction (also values no float can hold: 1/3, 1/10, -721/7), exhaustive family over small value "
            "sets with wrap == 0 in every type and negative wraps, plus random ones; float cases: random binary64 angles (|a| up to 1e9, tiny "
            "negative, just below a multiple of the wrap) and wraps (180.0, 360.0, pi, 2pi, random, negative). "
            "non-trivial = wrap != 0 and the angle is outside the target range (something was wrapped); distinct by "
            "(kind, typing, a, w, d)")
    TRUSTED = ["correspondence: navigating.wrap1/wrap2/delta run in-process; results compared as exact rationals "
               "(float.as_integer_ratio) with the exact model on grid cases and with the binary64 instantiation "
               "(round-to-nearest-even after each arithmetic step, unbounded exponent) on float cases; typed cases "
               "with the typed layer wrap1T/wrap2T/deltaT (exact int/Fraction arithmetic, float() conversion = rn when a "
               "float operand is involved). Results are compared as exact rationals whatever their Python type, so a "
               "pass-through must return a number equal to its input exactly",
               "CPython float %: C fmod (exact) plus one rounded addition when signs differ — the reason the binary64 "
               "instantiation is 'round the exact floor-mod once'",
               "IEEE rounding itself (rn in the model) is validated by the float cases only; NaN, infinities, "
               "overflow (wrap*2.0) and subnormals are outside the model"]
    PARTIAL = ["C43_float_agrees_partial: the theorems are about exact arithmetic; for binary64 arguments they transfer "
               "only where no rounding occurs (hypothesis floatDiffers = false). Known finding D43a: with rounding the "
               "result can be the excluded end of the range and differs from the angle by a non-integral number of turns"]
    TECHNIQUE = "Lean 4 theorems over core Rat (floor lemmas + linear arithmetic) + differential correspondence"
    LEVEL_TEXT = ("Full proofs on the exact model for all rational angles/wraps: C43_wrap1_range_pos/_neg (half-open "
                  "range), C43_wrap1_congruent, C43_wrap1_unique, C43_wrap1_idempotent, C43_wrap2_range (closed range, "
                  "with the exact open side), C43_wrap2_congruent (whole turns of 2*wrap), C43_delta_is_wrap2_diff, "
                  "C43_delta_short_and_correct, C43_wrap_zero_id. IEEE binary64 (second, rounded instantiation, tied "
                  "bit for bit to the implementation): the half-open range fails (C43_counterexample_float), proved "
                  "instead: the CLOSED ranges C43_float_wrap1_closed_range, C43_float_wrap2_range, "
                  "C43_float_delta_range (rounding to nearest is monotone), and C43_float_agrees_partial. Arguments of "
                  "any numeric type: C43_typed_wrap_zero_id (wrap 0 returns the exact number, no float conversion), "
                  "C43_typed_wrap1_exact, C43_typed_float, C43_typed_wrap2_range.")
    LEVEL_NOTE = ("Trusted: Lean kernel; axioms propext, Classical.choice, Quot.sound; transcription of navigating.py "
                  "validated by the correspondence runs. Not covered: NaN/inf arguments, overflow of wrap*2.0, "
                  "subnormal results, non-numeric arguments.")

    def __init__(self):
        self._region = {}
        self.nfloat = 0
        self.nfloat_rounded = 0
        self.ntyped = 0
        self.ntyped_rounded = 0

    # ------------------------------------------------------------------ cases
    @staticmethod
    def _grid(i, j, k, den, ty):
        return {"kind": "grid", "ty": ty, "a": "%d/%d" % (i, den), "w": "%d/%d" % (j, den), "d": "%d/%d" % (k, den)}

    def exhaustive(self, tier):
        if tier == "thorough":
            I, J, step = 200, 40, 1
        else:
            I, J, step = 80, 24, 2
        for i in range(-I, I + 1, step):
            for j in range(-J, J + 1, step):
                k = (3 * i + 5 * j) % (2 * I + 1) - I
                ty = "int" if (i % 4 == 0 and j % 4 == 0 and k % 4 == 0 and (i + j) % 8 == 0) else "float"
                yield self._grid(i, j, k, 4, ty)
        yield from self._typed_family()
        for w in (180, 360, -180, -360, 0):
            for a in range(-725, 726, 5 if tier == "quick" else 1):
                yield self._grid(a, w, (a * 7) % 720 - 360, 1, "int" if a % 2 else "float")

    T_A = {"frac": ["1/3", "1/10", "-721/7", "5/2", "0/1"],
           "int": ["0/1", "7/1", "-190/1", "%d/1" % (2 ** 53 + 1), "%d/1" % -(2 ** 60 + 3), "%d/1" % (10 ** 20 + 1)],
           "float": ["0/1", "3602879701896397/36028797018963968", "-381/2", "370/1", "%d/1" % 10 ** 18],
           "bool": ["1/1", "0/1"]}
    T_W = {"int": ["0/1", "180/1", "-180/1", "7/1"], "float": ["0/1", "360/1", "-1/2"],
           "frac": ["0/1", "-7/2", "1/3", "360/1"], "bool": ["0/1", "1/1"]}
    T_D = [("1/3", "frac"), ("10/1", "int"), ("350/1", "float"), ("1/1", "bool"), ("%d/1" % (2 ** 53 + 3), "int"),
           ("-1/10", "frac")]

    def _typed_family(self):
        """every numeric type for every argument; wrap == 0 in every type, negative wraps, values a float cannot hold"""
        n = 0
        for ta, avals in self.T_A.items():
            for a in avals:
                for tw, wvals in self.T_W.items():
                    for w in wvals:
                        for j in (0, 3):
                            d, td = self.T_D[(n + j) % len(self.T_D)]
                            yield {"kind": "typed", "a": a, "ta": ta, "w": w, "tw": tw, "d": d, "td": td}
                        n += 1

    def _rand_typed(self, rng):
        def val(ty, wrap=False):
            if ty == "bool":
                return "%d/1" % rng.randrange(2)
            if ty == "int":
                return "%d/1" % rng.choice([0, rng.randrange(-2000, 2000), rng.randrange(-2 ** 70, 2 ** 70), 2 ** 53 + rng.randrange(1, 9)])
            if ty == "float":
                x = rng.choice([0.0, rng.uniform(-1000, 1000), float(rng.randrange(-720, 720)), rng.uniform(-1e12, 1e12), 0.1])
                return q(x)
            den = rng.choice([1, 2, 3, 7, 10, 360, 2 ** 60 + 1])
            return q(F(rng.randrange(-5000 * den, 5000 * den), den) if not wrap else F(rng.randrange(-400 * den, 400 * den), den))
        tys = ["int", "float", "frac", "bool"]
        ta, tw, td = rng.choice(tys), rng.choice(tys), rng.choice(tys)
        w = "0/1" if rng.random() < 0.3 else val(tw, True)
        return {"kind": "typed", "a": val(ta), "ta": ta, "w": w, "tw": tw, "d": val(td), "td": td}

    def _float(self, rng):
        w = rng.choice([180.0, 360.0, 180.0, 360.0, math.pi, 2 * math.pi, -180.0, -math.pi, 1.0, 0.1, 0.0,
                        rng.uniform(0.001, 1000.0), -rng.uniform(0.001, 1000.0), float(rng.randrange(1, 1000))])
        m = rng.randrange(8)
        if m == 0:
            a = rng.uniform(-1000.0, 1000.0)
        elif m == 1:
            a = rng.uniform(-1e9, 1e9)
        elif m == 2:
            a = -rng.choice([1e-20, 1e-300, 5e-17, 1e-12]) * rng.choice([1.0, rng.random() + 0.1])
        elif m == 3:
            k = rng.randrange(-50, 50)
            a = k * w * rng.choice([1.0, 2.0]) - rng.choice([0.0, 1e-13, 1e-15, -1e-13])
        elif m == 4:
            a = float(rng.randrange(-100000, 100000))
        elif m == 5:
            a = w * rng.choice([1.0, -1.0, 0.5, 1.5, 2.0, -2.0, 3.0]) if w else rng.uniform(-5, 5)
        else:
            a = rng.uniform(-4 * abs(w) - 1, 4 * abs(w) + 1)
        d = rng.choice([rng.uniform(-720.0, 720.0), a + rng.uniform(-400, 400), float(rng.randrange(-720, 720)), 0.1])
        return {"kind": "float", "a": float(a).hex(), "w": float(w).hex(), "d": float(d).hex()}

    def generate(self, rng, n, tier):
        for _ in range(n):
            r = rng.randrange(12)
            if r >= 10:
                yield self._rand_typed(rng)
            elif r < 4:
                yield self._float(rng)
            elif r < 8:
                den = rng.choice([1, 1, 2, 4, 8, 16, 64, 1024])
                w = rng.choice([180 * den, 360 * den, -180 * den, rng.randrange(-50 * den, 50 * den + 1), 0,
                                rng.randrange(1, 8 * den + 1)])
                a = rng.choice([rng.randrange(-2000 * den, 2000 * den + 1), w * rng.randrange(-5, 6),
                                w * rng.randrange(-5, 6) + rng.choice([-1, 1]), rng.randrange(-3 * den, 3 * den + 1)])
                d = rng.randrange(-1000 * den, 1000 * den + 1)
                integral = a % den == 0 and w % den == 0 and d % den == 0
                ty = rng.choice(["int", "float", "mixed"]) if integral else "float"
                yield self._grid(a, w, d, den, ty)
            else:
                # unbounded ints: wrap1 only (wrap2 multiplies by the float 2.0)
                w = rng.choice([360, -360, 7, rng.randrange(-10 ** 6, 10 ** 6), 10 ** 20 + rng.randrange(100)])
                a = rng.randrange(-10 ** 40, 10 ** 40)
                yield {"kind": "bigint", "a": "%d/1" % a, "w": "%d/1" % w}

    # ------------------------------------------------------------------ implementation
    @staticmethod
    def _typed(val, ty):
        """the Python object of the given numeric type holding exactly `val`"""
        v = unq(val)
        if ty == "frac":
            return v
        if ty == "float":
            x = float(v)
            if F(x) != v:
                raise ValueError("case asks for a float that cannot hold %s" % v)
            return x
        if v.denominator != 1:
            raise ValueError("case asks for an %s holding %s" % (ty, v))
        return bool(v.numerator) if ty == "bool" else int(v)

    @staticmethod
    def _args(c):
        if c["kind"] == "typed":
            return tuple(CHECK._typed(c[k], c["t" + k]) for k in ("a", "w", "d"))
        if c["kind"] == "float":
            return tuple(float.fromhex(c[k]) for k in ("a", "w", "d"))
        a, w = unq(c["a"]), unq(c["w"])
        d = unq(c["d"]) if "d" in c else F(0)
        ty = c.get("ty", "int")
        if c["kind"] == "bigint" or ty == "int":
            return int(a), int(w), int(d)
        if ty == "mixed":
            return float(a), int(w), int(d)
        return float(a), float(w), float(d)

    def impl(self, c):
        from ioflo.aid import navigating as N
        a, w, d = self._args(c)
        if c["kind"] == "bigint":
            return [call(N.wrap1, a, w)]
        out = [call(N.wrap1, a, w), call(N.wrap2, a, w), call(N.delta, d, a, w)]
        # the functions are pure: asked again, in another order and after calls with equal-valued arguments of another
        # type, they must answer the same (a hidden cache / remembered state would show here)
        for x in (a, w, d):
            if isinstance(x, (int, F)) and not isinstance(x, bool) and abs(x) < 2 ** 53:
                call(N.wrap2, float(x), w)
                call(N.wrap1, a, float(x) if x else w)
        again = [call(N.delta, d, a, w), call(N.wrap2, a, w), call(N.wrap1, a, w)][::-1]
        if again != out:
            out.append("UNSTABLE second round of calls gave %s" % again)
        return out

    # ------------------------------------------------------------------ model
    def requests(self, c):
        a, w, d = (q(x) for x in self._args(c))
        if c["kind"] == "bigint":
            return ["wrap1 %s %s" % (a, w)]
        if c["kind"] == "float":
            return ["wrap1f %s %s" % (a, w), "wrap2f %s %s" % (a, w), "deltaf %s %s %s" % (d, a, w),
                    "region float %s %s %s" % (d, a, w)]
        if c["kind"] == "typed":
            fa, fw, fd = ("1" if c["t" + k] == "float" else "0" for k in ("a", "w", "d"))
            return ["wrap1t %s %s %s %s" % (fa, fw, a, w), "wrap2t %s %s" % (a, w),
                    "deltat %s %s %s %s %s" % (fd, fa, d, a, w),
                    "region typed %s %s %s %s %s %s" % (fd, fa, fw, d, a, w)]
        # grid: the exact model; the binary64 instantiation must coincide with it there
        return ["wrap1 %s %s" % (a, w), "wrap2 %s %s" % (a, w), "delta %s %s %s" % (d, a, w),
                "wrap1f %s %s" % (a, w), "wrap2f %s %s" % (a, w), "deltaf %s %s %s" % (d, a, w)]

    def model_post(self, c, replies):
        r = list(replies)
        if c["kind"] == "float":
            reg = r.pop() == "1"
            self._region[core.case_key(c)] = reg
            self.nfloat += 1
            self.nfloat_rounded += reg
            return r
        if c["kind"] == "typed":
            reg = r.pop() == "1"
            self._region[core.case_key(c)] = reg
            self.ntyped += 1
            self.ntyped_rounded += reg
            return r
        if c["kind"] == "grid":
            exact, flt = r[:3], r[3:]
            if exact != flt:
                return ["MODEL exact %s != binary64 %s on a grid case" % (exact, flt)]
            return exact
        return r

    # ------------------------------------------------------------------ property oracle
    def oracle(self, c, out):
        try:
            return self._oracle(c, out)
        except core.HarnessTimeout:
            raise
        except Exception as ex:
            return "implementation output does not have the expected form (%s: %s): %s" % (type(ex).__name__, ex, out[:4])

    def _oracle(self, c, out):
        from ioflo.aid import navigating as N
        a, w, d = self._args(c)
        fa, fw = F(a), F(w)
        for o in out:
            if o.startswith("UNSTABLE"):
                return "the same call answered differently the second time: first %s, %s" % (out[:3], o)
        if not all(re.fullmatch(r"-?\d+/\d+", o) for o in out):
            return "result is not a finite number: %s" % out
        r1 = unq(out[0])
        if fw == 0:
            if r1 != fa:
                return "wrap1(%r, %r) = %s, a wrap of zero must return the angle unchanged (equal as an exact number)" % (a, w, r1)
        else:
            if fw > 0 and not (0 <= r1 < fw):
                return "wrap1(%r, %r) = %s is outside [0, wrap)" % (a, w, float(r1))
            if fw < 0 and not (fw < r1 <= 0):
                return "wrap1(%r, %r) = %s is outside (wrap, 0]" % (a, w, float(r1))
            if ((fa - r1) / fw).denominator != 1:
                return "wrap1(%r, %r) = %r differs from the angle by %s wraps, not a whole number" % (a, w, float(r1), float((fa - r1) / fw))
        if c["kind"] == "bigint":
            return None
        r2, rd = unq(out[1]), unq(out[2])
        if fw == 0:
            if r2 != fa:
                return "wrap2(%r, %r) = %s, a wrap of zero must return the angle unchanged (equal as an exact number)" % (a, w, r2)
        else:
            if not (-abs(fw) <= r2 <= abs(fw)):
                return "wrap2(%r, %r) = %s is outside [-|wrap|, |wrap|]" % (a, w, float(r2))
            if ((fa - r2) / (2 * fw)).denominator != 1:
                return "wrap2(%r, %r) = %r differs from the angle by %s full turns, not a whole number" % (a, w, float(r2), float((fa - r2) / (2 * fw)))
        want = call(N.wrap2, d - a, w)
        if out[2] != want:
            return "delta(%r, %r, %r) = %s but wrap2(desired - actual, wrap) = %s" % (d, a, w, out[2], want)
        return None

    # ------------------------------------------------------------------ bookkeeping
    def region(self, finding, c):
        # float cases: Ioflo.Wrap.floatDiffers; typed cases: Ioflo.Wrap.typedDiffers, the same predicate after the
        # implicit float() conversions of non-float arguments (it IS floatDiffers when all three are floats)
        if finding.get("region") != "Ioflo.Wrap.floatDiffers" or c["kind"] not in ("float", "typed"):
            return False
        key = core.case_key(c)
        if key not in self._region:
            self._region[key] = core.Driver(self.ENGINE).run([self.requests(c)[-1]]) == ["1"]
        return self._region[key]

    def nontrivial(self, c, out):
        if not out or out[0].startswith(("ERR", "NAN", "INF", "-INF", "BAD")):
            return False
        a, w, d = self._args(c)
        if w == 0:
            return False
        return not (0 <= F(a) < F(w)) if w > 0 else not (F(w) < F(a) <= 0)

    def bucket(self, c, out):
        a, w, d = self._args(c)
        k = c["kind"] + ("/" + c["ty"] if c["kind"] == "grid" else "")
        if c["kind"] == "typed":
            k = "typed a:%s w:%s" % (c["ta"], c["tw"])
        if w == 0:
            return k + " wrap=0"
        return k + (" wrap>0" if w > 0 else " wrap<0") + (" a<0" if a < 0 else " a>=0")

    def extra_evidence(self):
        return {"typed_cases": self.ntyped, "typed_cases_with_rounding": self.ntyped_rounded,
                "float_cases": self.nfloat,
                "float_cases_with_rounding": self.nfloat_rounded,
                "outside_model": ("IEEE binary64 rounding is not part of the theorems; float cases are compared with "
                                  "the rounded instantiation (rn after every operation). NaN, infinities, overflow "
                                  "and subnormals are not generated and not modelled")}

    def shrink_candidates(self, c):
        if c["kind"] == "typed":
            for k in ("a", "w", "d"):
                for nv in ("0/1", "1/1", "1/3", "%d/1" % (2 ** 53 + 1)):
                    if nv == c[k]:
                        continue
                    n = dict(c, **{k: nv})
                    try:
                        self._args(n)
                    except ValueError:
                        n["t" + k] = "frac"
                    yield n
            return
        if c["kind"] == "float":
            a, w, d = self._args(c)
            for na in (float(round(a)), a / 2, 0.0, 1.0, -1.0):
                if na != a:
                    yield dict(c, a=float(na).hex())
            for nw in (180.0, 360.0, 1.0, float(round(w))):
                if nw != w:
                    yield dict(c, w=float(nw).hex())
            for nd in (0.0, float(round(d))):
                if nd != d:
                    yield dict(c, d=float(nd).hex())
            return
        a, w = unq(c["a"]), unq(c["w"])
        d = unq(c["d"]) if "d" in c else F(0)

        def mk(a, w, d):
            den = max(a.denominator, w.denominator, d.denominator)
            ty = c.get("ty", "int")
            if den != 1 and ty != "float":
                ty = "float"
            n = dict(c, a=q(a), w=q(w))
            if "d" in c:
                n["d"] = q(d)
            if c["kind"] == "grid":
                n["ty"] = ty
            return n
        for na in (F(0), F(1), F(-1), a / 2 if a.numerator % 2 == 0 else a, F(int(a)), a - w, a + w):
            if na != a:
                yield mk(na, w, d)
        for nw in (F(1), F(-1), F(2), F(180), F(int(w)) if int(w) else w):
            if nw != w:
                yield mk(a, nw, d)
        for nd in (F(0), F(1), F(int(d))):
            if nd != d:
                yield mk(a, w, nd)
        if c["kind"] == "grid" and c["ty"] != "float":
            yield dict(c, ty="float")
