"""C44 — point-in-polygon tests agree with exact geometry.
Model:    lean/IofloModel/Model/Poly.lean (tween2, wind, inside, insideOnly, outside, outsideOnly, sideOnly of
          ioflo/aid/vectoring.py; integer coordinates)
Theorems: lean/IofloModel/Props/C44.lean (segment/boundary meaning, partition + side flag, wind = 0 iff not strictly
          inside, reversal / rotation / translation; NOT the Jordan-curve statement C44_full)
Tie:      the eight results for (point, polygon) from the real functions against the Lean driver `drv-poly`, for
          every polygon (simple or not, degenerate, empty).
Oracle:   for SIMPLE polygons only (the property's domain), exact integer/rational geometry written independently of
          the code's algorithm: boundary = on one of the closed sides (bounding box + zero cross product); interior =
          odd number of proper crossings of the ray from p in direction (K, 1), K larger than the coordinate span, which
          cannot pass through any lattice point of the figure (so no degenerate crossings), computed with Fractions.

case = {"vs": [[x, y], …], "pts": [[x, y], …], "form": "tuple" | "list" | "pxy"}
"""
import itertools, math
from fractions import Fraction as F
import core


# ---------------------------------------------------------------------- exact geometry (oracle side)
def orient(a, b, c):
    return (b[0] - a[0]) * (c[1] - a[1]) - (b[1] - a[1]) * (c[0] - a[0])


def on_segment(p, a, b):
    if orient(a, b, p) != 0:
        return False
    return min(a[0], b[0]) <= p[0] <= max(a[0], b[0]) and min(a[1], b[1]) <= p[1] <= max(a[1], b[1])


def segs_intersect(a, b, c, d):
    """closed segments ab and cd share a point"""
    o1, o2, o3, o4 = orient(a, b, c), orient(a, b, d), orient(c, d, a), orient(c, d, b)
    if ((o1 > 0 and o2 < 0) or (o1 < 0 and o2 > 0)) and ((o3 > 0 and o4 < 0) or (o3 < 0 and o4 > 0)):
        return True
    return on_segment(c, a, b) or on_segment(d, a, b) or on_segment(a, c, d) or on_segment(b, c, d)


def is_simple(vs):
    n = len(vs)
    if n < 3 or len(set(vs)) != n:
        return False
    for i in range(n):
        a, b = vs[i], vs[(i + 1) % n]
        c = vs[(i + 2) % n]
        # adjacent sides ab, bc may share only b: collinear and folding back means they overlap
        if orient(a, b, c) == 0 and (b[0] - a[0]) * (c[0] - b[0]) + (b[1] - a[1]) * (c[1] - b[1]) < 0:
            return False
        for j in range(i + 2, n):
            if i == 0 and j == n - 1:
                continue                                          # adjacent through the wrap-around
            if segs_intersect(a, b, vs[j], vs[(j + 1) % n]):
                return False
    return True


def strictly_inside(p, vs):
    """ray casting along (K,1); precondition: p not on the boundary, integer coordinates"""
    xs = [v[0] for v in vs] + [p[0]]
    K = max(xs) - min(xs) + 1
    d = (K, 1)
    n, count = len(vs), 0
    for i in range(n):
        a, b = vs[i], vs[(i + 1) % n]
        oa = d[0] * (a[1] - p[1]) - d[1] * (a[0] - p[0])
        ob = d[0] * (b[1] - p[1]) - d[1] * (b[0] - p[0])
        if oa == 0 or ob == 0:
            raise core.Infra("oracle ray hit a lattice point")
        if (oa > 0) == (ob > 0):
            continue
        s = F(oa, oa - ob)
        x = (a[0] + s * (b[0] - a[0]), a[1] + s * (b[1] - a[1]))
        t = (x[0] - p[0]) * d[0] + (x[1] - p[1]) * d[1]
        if t > 0:
            count += 1
    return count % 2 == 1


def canon_rot(vs):
    i = vs.index(min(vs))
    return vs[i:] + vs[:i]


class CHECK(core.Check):
    PROPERTY = "C44"
    LEAN_MODULES = ["IofloModel.Props.C44"]
    ENGINE = "poly"
    N_QUICK = 500
    N_THOROUGH = 6000
    N_SEARCH = 500
    RULE = ("a case = one polygon and a list of points. Bounded-exhaustive: every vertex sequence (quick: starting at its smallest vertex) of 3 vertices on the "
            "4x4 grid and of 4 distinct vertices on the 3x3 grid (quick) / 3 on 5x5, 4 on 4x4 and 5 distinct on 3x3 (these two starting at the smallest vertex), and every SIMPLE 5-gon on "
            "4x4 up to rotation (thorough), each with ALL grid points; sequences of 0..2 vertices. Random: star-shaped "
            "and random-walk polygons of 3..12 vertices with coordinates up to 60 or around 10^12, bow-ties, repeated "
            "and collinear vertices, with points = vertices, points on the sides, on the side lines beyond the ends, level "
            "with vertices (the ray of the algorithm passes through them) and random ones; points/vertices passed as "
            "tuples, lists or Pxy namedtuples. The oracle applies to simple polygons; all polygons are compared with "
            "the model. non-trivial = simple polygon with at least one strictly inside and one strictly outside point; "
            "distinct by polygon + points")
    TRUSTED = ["correspondence: vectoring.wind/inside/insideOnly/outside/outsideOnly/sideOnly run in-process on Python ints "
               "(tuples, lists, Pxy) and compared with the Lean driver 'poly'",
               "the oracle's exact geometry (Fractions, generic-direction ray casting, simplicity test) written for this check",
               "integer coordinates only: float inputs (rounding in products) are outside the model"]
    PARTIAL = ["C44_full (crossing sum = geometric interior for every simple polygon, i.e. the Jordan curve theorem for "
               "polygons) is NOT proved for non-convex simple polygons. Proved: every CONVEX polygon with integer vertices in "
               "either orientation (C44_convex_interior, C44_convex_classification; decidable predicate Convex = no "
               "zero-length side and every vertex on or left of every side line, one way round or the other) and every "
               "axis-parallel rectangle (C44_rectangle_interior_partial); for non-convex simple polygons the statement rests "
               "on the exhaustive and random comparisons with exact ray casting",
               "float coordinates"]
    TECHNIQUE = ("Lean 4 theorems for arbitrary vertex lists (loop invariants, cyclic-pairs lemmas, polynomial identities by "
                 "grind) + bounded-exhaustive and random comparison of the real functions with the model and with exact geometry")
    LEVEL_TEXT = ("Proof on the model, all integer points and vertex lists: tween2 <-> p = u + t(v-u) with rational t in [0,1]; "
                  "sideOnly <-> vertex or on a side; exactly one of insideOnly / sideOnly / outsideOnly, inside/outside = strict "
                  "part or (side flag and boundary); wind = 0 <-> not strictly inside; wind(reverse) = -wind; invariance under "
                  "rotation of the vertex list and translation. Agreement with geometry is PROVED for every convex polygon "
                  "(either orientation, collinear vertices allowed): strictly inside <-> strictly on the same side of every side, "
                  "boundary <-> on a side, wind != 0 <-> inside (C44_convex_interior, C44_convex_classification); for any closed "
                  "polygon a point strictly left of every side is inside and a polygon strictly on one side of a line through the "
                  "point does not wind round it. PARTIAL: for non-convex simple polygons (Jordan) the agreement is evidence only: "
                  "exhaustive/random agreement with exact rational ray casting.")
    LEVEL_NOTE = ("Trusted: Lean kernel; axioms propext, Classical.choice, Quot.sound; hand transcription of vectoring.py "
                  "validated by the correspondence runs; the oracle's own geometry; no proof of the Jordan-curve part for non-convex polygons.")

    # ------------------------------------------------------------------ generation
    def exhaustive(self, tier):
        def grid(g):
            return [(x, y) for x in range(g) for y in range(g)]
        yield {"vs": [], "pts": [[0, 0], [1, 2]], "form": "tuple"}
        for a in grid(3):
            yield {"vs": [list(a)], "pts": [list(q) for q in grid(3)], "form": "tuple"}
            for b in grid(3):
                yield {"vs": [list(a), list(b)], "pts": [list(q) for q in grid(3)], "form": "tuple"}
        plan = [(3, 4), (4, 3)] if tier == "quick" else [(3, 5), (4, 4), (5, 3)]
        for n, g in plan:
            G = grid(g)
            pts = [list(q) for q in G]
            for seq in itertools.product(G, repeat=n):
                if tier == "quick" and (seq[0] != min(seq) or (n == 4 and len(set(seq)) < 4)):
                    continue                      # quick: start at the smallest vertex; 4-gons with distinct vertices
                if n == 5 and len(set(seq)) < 5:
                    continue                      # 5-gons: distinct vertices only
                if n >= 4 and seq[0] != min(seq):
                    continue                      # 4- and 5-gons: one starting vertex per cyclic sequence
                yield {"vs": [list(v) for v in seq], "pts": pts, "form": "tuple"}
        if tier == "thorough":
            G = grid(4)
            pts = [list(q) for q in G]
            for first in G:
                later = [q for q in G if q > first]
                for rest in itertools.permutations(later, 4):
                    vs = [first] + list(rest)
                    if is_simple(vs):
                        yield {"vs": [list(v) for v in vs], "pts": pts, "form": "tuple"}

    def _polygon(self, rng):
        big = rng.random() < 0.15
        span = 10 ** 12 if big else rng.choice([4, 8, 20, 60])
        off = (rng.randint(-span, span), rng.randint(-span, span)) if rng.random() < 0.5 else (0, 0)
        n = rng.choice([3, 3, 4, 4, 5, 6, 7, 8, 10, 12])
        kind = rng.random()
        if kind < 0.6:                      # star-shaped around an interior point: simple unless degenerate
            pts = set()
            while len(pts) < n:
                pts.add((rng.randint(-span, span), rng.randint(-span, span)))
            pts = list(pts)
            cx = sum(p[0] for p in pts) / n
            cy = sum(p[1] for p in pts) / n
            pts.sort(key=lambda p: math.atan2(p[1] - cy, p[0] - cx))
            if rng.random() < 0.5:
                pts.reverse()
            k = rng.randrange(n)
            vs = pts[k:] + pts[:k]
        elif kind < 0.8:                    # axis-parallel / lattice shapes with collinear runs
            w, h = rng.randint(1, max(1, span // 2)), rng.randint(1, max(1, span // 2))
            vs = [(0, 0), (w, 0), (2 * w, 0), (2 * w, h), (w, h), (w, 2 * h), (0, 2 * h)]
            if rng.random() < 0.5:
                vs.reverse()
        else:                               # anything: bow-ties, repeats, collinear
            vs = [(rng.randint(-4, 4), rng.randint(-4, 4)) for _ in range(n)]
            if rng.random() < 0.3:
                vs.append(vs[0])
        return [(x + off[0], y + off[1]) for x, y in vs]

    def _points(self, rng, vs):
        out = []
        xs, ys = [v[0] for v in vs], [v[1] for v in vs]
        lo, hi = min(xs + ys) - 2, max(xs + ys) + 2
        n = len(vs)
        for i in range(n):
            a, b = vs[i], vs[(i + 1) % n]
            out.append(a)
            g = math.gcd(abs(b[0] - a[0]), abs(b[1] - a[1]))
            if g > 1:
                k = rng.randint(1, g - 1)
                out.append((a[0] + (b[0] - a[0]) // g * k, a[1] + (b[1] - a[1]) // g * k))      # on the side
            if g >= 1:
                out.append((b[0] + (b[0] - a[0]) // g, b[1] + (b[1] - a[1]) // g))              # on its line, beyond
            out.append((rng.randint(lo, hi), a[1]))                                                 # level with a vertex
            out.append((a[0] + rng.choice([-1, 1]), a[1]))
        for _ in range(8):
            out.append((rng.randint(lo, hi), rng.randint(lo, hi)))
        rng.shuffle(out)
        return out[:40]

    def generate(self, rng, n, tier):
        for _ in range(n):
            vs = self._polygon(rng)
            yield {"vs": [list(v) for v in vs], "pts": [list(p) for p in self._points(rng, vs)],
                   "form": rng.choice(["tuple", "tuple", "list", "pxy"])}

    # ------------------------------------------------------------------ implementation / model
    def impl(self, case):
        from ioflo.aid import vectoring
        from ioflo.base.globaling import Pxy
        form = case["form"]
        mk = {"tuple": tuple, "list": list, "pxy": lambda v: Pxy(x=v[0], y=v[1])}[form]
        vs = [mk(v) for v in case["vs"]]
        if form == "list":
            vs = [tuple(v) for v in case["vs"]]          # vertices as tuples, the point as a list
        out = []
        b = lambda x: "1" if x is True else "0" if x is False else "?%r" % (x,)
        for q in case["pts"]:
            p = mk(q)
            try:
                w = vectoring.wind(p, vs)
                out.append(" ".join([str(w) if isinstance(w, int) and not isinstance(w, bool) else "?%r" % (w,),
                                     b(vectoring.inside(p, vs, side=True)), b(vectoring.inside(p, vs, side=False)),
                                     b(vectoring.insideOnly(p, vs)), b(vectoring.outside(p, vs, side=True)),
                                     b(vectoring.outside(p, vs, side=False)), b(vectoring.outsideOnly(p, vs)),
                                     b(vectoring.sideOnly(p, vs))]))
            except Exception as ex:
                out.append("E %s" % type(ex).__name__)
        # tween2 itself, on every (point, side) pair, both orientations of the side
        for q in case["pts"]:
            p = mk(q)
            bits = []
            for u, v in self._sides(case):
                try:
                    bits.append(b(vectoring.tween2(p, mk(u), mk(v))) + b(vectoring.tween2(p, mk(v), mk(u))))
                except Exception as ex:
                    bits.append("E%s" % type(ex).__name__)
            out.append("T " + " ".join(bits))
        return out

    @staticmethod
    def _sides(case):
        vs = case["vs"]
        n = len(vs)
        return [(vs[i], vs[(i + 1) % n]) for i in range(n)] if n <= 6 else []

    def requests(self, case):
        flat = " ".join("%d %d" % (v[0], v[1]) for v in case["vs"])
        reqs = [("pip %d %d %s" % (q[0], q[1], flat)).rstrip() for q in case["pts"]]
        for q in case["pts"]:
            for u, v in self._sides(case):
                reqs.append("tween %d %d %d %d %d %d" % (q[0], q[1], u[0], u[1], v[0], v[1]))
                reqs.append("tween %d %d %d %d %d %d" % (q[0], q[1], v[0], v[1], u[0], u[1]))
        return reqs

    def model_post(self, case, replies):
        n, k = len(case["pts"]), len(self._sides(case))
        out = list(replies[:n])
        rest = replies[n:]
        for i in range(n):
            chunk = rest[i * 2 * k:(i + 1) * 2 * k]
            out.append("T " + " ".join(chunk[j] + chunk[j + 1] for j in range(0, 2 * k, 2)))
        return out

    # ------------------------------------------------------------------ oracle
    def oracle(self, case, out):
        vs = [tuple(v) for v in case["vs"]]
        if len(out) != 2 * len(case["pts"]):
            return "wrong number of outputs"
        if any(o.startswith(("E ", "HARNESS")) or " E" in o for o in out):
            return "raised: %s" % [o for o in out if o.startswith(("E ", "HARNESS")) or " E" in o][:1]
        # tween2 = "on the closed segment", whatever the polygon
        sides = self._sides(case)
        for q, o in zip(case["pts"], out[len(case["pts"]):]):
            for (u, v), bits in zip(sides, o.split()[1:]):
                want = on_segment(tuple(q), tuple(u), tuple(v))
                if bits != ("11" if want else "00"):
                    return "tween2(%s, %s, %s) / swapped = %s; exact geometry: %s the segment" % (
                        tuple(q), tuple(u), tuple(v), bits, "on" if want else "off")
        if not is_simple(vs):
            return None                                   # the rest of the property speaks about simple polygons
        for q, o in zip(case["pts"], out):
            p = tuple(q)
            n = len(vs)
            boundary = any(on_segment(p, vs[i], vs[(i + 1) % n]) for i in range(n))
            strict = (not boundary) and strictly_inside(p, vs)
            outer = not boundary and not strict
            f = o.split()
            w = int(f[0])
            want = [strict or boundary, strict, strict, outer or boundary, outer, outer, boundary]
            got = [x == "1" for x in f[1:]]
            names = ["inside(side=True)", "inside(side=False)", "insideOnly", "outside(side=True)",
                     "outside(side=False)", "outsideOnly", "sideOnly"]
            for nm, g, wv in zip(names, got, want):
                if g != wv:
                    return "%s(%s, %s) = %s; exact geometry: %s" % (
                        nm, p, vs, g, "on the boundary" if boundary else "strictly inside" if strict else "strictly outside")
            if (w == 0) != (not strict):
                return "wind(%s, %s) = %d but the point is %s" % (
                    p, vs, w, "on the boundary" if boundary else "strictly inside" if strict else "strictly outside")
        return None

    # ------------------------------------------------------------------ statistics
    def nontrivial(self, case, out):
        vs = [tuple(v) for v in case["vs"]]
        if not is_simple(vs) or not out:
            return False
        ins = any(o.split()[3:4] == ["1"] for o in out)
        outs = any(o.split()[6:7] == ["1"] for o in out)
        return ins and outs

    def bucket(self, case, out):
        vs = [tuple(v) for v in case["vs"]]
        n = len(vs)
        kind = "simple" if is_simple(vs) else "degenerate" if n < 3 or len(set(vs)) < n else "nonsimple"
        return "n%s/%s/%s" % (n if n <= 5 else "6+", kind, case["form"])

    def shrink_candidates(self, case):
        pts, vs = case["pts"], case["vs"]
        if len(pts) > 1:
            for q in pts:
                c = dict(case)
                c["pts"] = [q]
                yield c
        for i in range(len(vs)):
            c = dict(case)
            c["vs"] = vs[:i] + vs[i + 1:]
            yield c
        if case["form"] != "tuple":
            c = dict(case)
            c["form"] = "tuple"
            yield c
