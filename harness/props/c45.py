"""C45 — arbiters select outputs by their documented rules.
Model:    lean/IofloModel/Model/Arbiter.lean (FixTruth, ArbiterSwitch/Priority/Trusted/Weighted.update of
          ioflo/base/arbiting.py; with fixes D24 and D25b)
Theorems: lean/IofloModel/Props/C45.lean
Tie:      real arbiter instances on a real storing.Store (default share, input shares, insels/inimps filled through the
          constructor), one update(); output share value and truth against the Lean driver `drv-arbiter`.
          mode q: dyadic numbers vs the exact-rational instantiation (where the weighted quotient is not a double the
          implementation must be the correctly rounded exact result, i.e. within 2 ulp of it, and equal to the Float
          instantiation); mode f: arbitrary doubles vs the Float instantiation bit for bit.
Oracle:   the documented rule evaluated by this file with fractions.Fraction, straight from the property text.

A case may also describe the store the arbiter is built on and what happens before the observed update():
  "pre":  {"insels": [[tag index | "x", sel token], …], "inimps": [[tag index | "x", num token], …], "out": bool}
          fields that already exist in group.insels / group.inimps before construction, IN THAT ORDER (any permutation
          of the inputs, some missing, extra tags "x…" that are no inputs); the constructor only creates fields that
          do not exist, so these values are the selections / importances; "out": the output share pre-exists with
          other fields
  "ops":  [["set", k, sel] | ["readd", k, sel] | ["drop", k] | ["rebuild", [permutation]]] applied after construction:
          selection changed in place / field deleted and added again (moves to the end of the share) / deleted /
          a new arbiter built on the same store and group with its inputs listed in another order
  "stamp0": None | num   store stamp at construction (default 0.0)
  "hist":  [[write, …], …] after the first observed update(): each step = writes, then update() on the SAME arbiter
          instance, observed again.  write = ["stamp", num|None] (store.changeStamp / stamp None)
          | ["sel", k, how, sel] how in update (stamps the share) / change / item / attr (do not stamp)
          | ["imp", k, how, num] | ["value", k, how, val] how in value / update / change / item | ["truth", k, truth]
          every observed update() must be what the rules give on the CURRENT contents
The model's and the oracle's input order is the order of the LAST construction; their selections and importances
are the values the documented rules give (pre-existing field, else constructor argument, then the ops).
case = {"arb": switch|priority|trusted|weighted, "mode": q|f, "dv": val, "dt": truth (as found by __init__),
        "ins": [{"sel": python value token, "imp": num, "truth": truth, "value": val, "shape": "value"|"other"|"empty"}]}
tokens: None -> null, bools -> true/false, numbers "i:<int>" | "q:<p>/<q>" (float, exact) | "x:<hex16>", strings "s:<n>"
shape: how the input share looks: has a value field / only another field / no field at all (value is then None)
"""
import struct, itertools, json
from fractions import Fraction as F
import core

ARBS = ["switch", "priority", "trusted", "weighted"]


def py(tok):
    if tok is None or isinstance(tok, bool):
        return tok
    k, v = tok.split(":", 1)
    if k == "i":
        return int(v)
    if k == "q":
        f = F(v)
        x = float(f)
        if F(x) != f:
            raise core.Infra("inexact " + tok)
        return x
    if k == "x":
        return struct.unpack(">d", bytes.fromhex(v))[0]
    if k == "s":
        return "str%s" % v
    raise core.Infra("bad token %r" % (tok,))


def num_wire(x, mode):
    if mode == "q":
        f = F(x)
        return "%d/%d" % (f.numerator, f.denominator)
    b = struct.pack(">d", float(x)).hex()
    return "0000000000000000" if b == "8000000000000000" else b


def val_wire(v, mode):
    """Python value -> wire token (used for inputs and for outputs of the implementation)"""
    if v is None:
        return "N"
    if isinstance(v, bool):
        return "B1" if v else "B0"
    if isinstance(v, str):
        return "S" + v[3:] if v.startswith("str") and v[3:].isdigit() else "S?%r" % v
    if isinstance(v, (int, float)):
        return "#" + num_wire(v, mode)
    return "?%r" % (v,)


def fix(t):
    """FixTruth as documented: None/True -> 1, False -> 0, numbers clamped to [0,1]"""
    if t is None or t is True:
        return F(1)
    if t is False:
        return F(0)
    return min(F(1), max(F(0), F(t)))


class CHECK(core.Check):
    PROPERTY = "C45"
    LEAN_MODULES = ["IofloModel.Props.C45"]
    ENGINE = "arbiter"
    N_QUICK = 3000
    N_THOROUGH = 60000
    N_SEARCH = 3000
    RULE = ("0..4 (thorough 0..6) inputs per arbiter; selection from {True, False, 1, 0, None, 'x', '', 2.5, 0.0}, "
            "importance from {0, 1/4, 1/2, 3/4, 1, 2, -1/2} (ties frequent), truth from {None, True, False, -1/2, 0, 1/4, "
            "1/2, 3/4, 1, 2}, value from numbers, bools, None, strings; input shares with a value field, with another "
            "field only, or with no field at all; default truth as found by __init__ from the same truth set; 12% in "
            "mode f (random doubles). Bounded-exhaustive: every list of <=2 inputs (thorough <=3) over a reduced value "
            "set x 4 arbiters x 2 default truths. non-trivial = at least one selected input and the arbiter did not "
            "fall back to the default; distinct by the whole case. "
            "40% of the random cases run a scenario: group.insels / group.inimps (and the output share) already exist "
            "with their fields in a permuted order, some missing, extra tags; after construction selections are "
            "changed in place, deleted, deleted and re-added (field moves to the end), or a new arbiter is built on the "
            "same store and group with its inputs in another order; the observed update() must follow the input order "
            "of the last construction. 30% of the exact-mode cases continue with a HISTORY: 1..3 further update() calls of the "
            "same arbiter instance, each preceded by writes to the selections, importances, input values and truths through "
            "every write path (update = stamping; change / item assignment / attribute of the record = not stamping; .value "
            "setter; truth setter) with the store stamp None, unchanged or advanced; every update() is compared with the "
            "model and the rule on the current contents")
    TRUSTED = ["correspondence: arbiting.ArbiterSwitch/Priority/Trusted/Weighted instances built on a real storing.Store "
               "through their constructor, one update(); output share .value/.truth compared with the Lean driver 'arbiter'",
               "the check is meant for /repo + fixes/D24-arbiter-trusted-imputmax.patch + fixes/D25b-arbiter-inputmax-truthiness.patch",
               "selection is passed to the model as its Python truthiness (bool(sel) computed by the harness); importances are "
               "numbers, truths None/bool/number (the domain of the property)",
               "IEEE-754 double arithmetic of CPython = Lean Float (mode f); in mode q sums/products are exact, the weighted "
               "quotients are compared exactly when representable"]
    PARTIAL = ["C45_priority_first_max_importance_partial: hypothesis nonPosCandidate = false (no selected, sufficiently true "
               "input of importance <= 0); inside that region ArbiterPriority's `impmax = 0.0` start makes such an input lose "
               "(finding D25, C45_counterexample_priority_importance_zero); C45_priority_code characterises the code for all inputs",
               "C45_trusted_max_truth_then_importance needs default truth >= 0, which __init__ establishes (C45_trusted_after_init); "
               "a default truth changed to a negative number or None after construction is outside the model",
               "importance None/strings, truth strings (TypeError in FixTruth / comparisons) are outside the model",
               "theorems are about exact rational arithmetic; float rounding of the weighted average is compared, not proved"]
    TECHNIQUE = ("Lean 4 theorems over arbitrary input lists (a generic 'replace only by strictly better = first maximum' "
                 "lemma, fold invariants, sums by induction) + differential correspondence with the real arbiter classes")
    LEVEL_TEXT = ("Proof on the model for every input list: switch = first selected input (value and truth as they are) else "
                  "default; priority = first maximal-importance input among the selected, sufficiently true inputs of positive "
                  "importance (C45_priority_code, full) and hence the documented rule whenever no such input has importance "
                  "<= 0 (_partial; counterexample for importance 0 proved, finding D25); trusted (D24 repaired) = first "
                  "maximum of (truth, importance) in lexicographic order among selected sufficient inputs, full given default "
                  "truth >= 0; weighted = (sum imp*truth*value / sum imp*truth, sum imp*truth / sum imp) iff all selected values "
                  "numeric, both sums non-zero and the weighted truth exceeds the default, else default (full), and with non-negative "
                  "importances that value lies between the smallest and largest selected value and the truth in (0,1]; FixTruth range; "
                  "nothing selected -> default for all four; the only exceptions inside weighted are the two it catches; the "
                  "D24 repair changes nothing where the original did not raise.")
    LEVEL_NOTE = ("Trusted: Lean kernel; axioms propext, Classical.choice, Quot.sound; hand transcription of arbiting.py "
                  "validated by the correspondence runs only; the model describes the code after fixes D24 and D25b; "
                  "selection truthiness computed by the harness; exact rationals (float rounding only compared).")

    # ------------------------------------------------------------------ generation
    SELS = [True, True, True, False, "i:1", "i:0", None, "s:1", "s:", "q:5/2", "q:0/1"]
    IMPS = ["i:0", "q:1/4", "q:1/2", "q:1/2", "q:3/4", "q:3/4", "i:1", "q:1/1", "i:2", "q:-1/2", "q:0/1"]
    TRUTHS = [None, True, False, "q:-1/2", "i:0", "q:1/4", "q:1/2", "q:1/2", "q:3/4", "q:3/4", "i:1", "q:1/1", "i:2", "q:5/4"]
    VALUES = ["i:10", "q:20/1", "q:5/2", "i:-4", "q:0/1", True, False, None, "s:1", "s:2", "i:7"]

    def _sel_py(self, tok):
        if tok == "s:":
            return ""
        return py(tok)

    def _input(self, rng):
        shape = rng.choice(["value"] * 8 + ["other", "empty"])
        return {"sel": rng.choice(self.SELS), "imp": rng.choice(self.IMPS), "truth": rng.choice(self.TRUTHS),
                "value": rng.choice(self.VALUES) if shape == "value" else None, "shape": shape}

    def _gen_q(self, rng, tier):
        n = rng.choice([0, 1, 2, 2, 3, 3, 4] + ([5, 6] if tier == "thorough" else []))
        return {"arb": rng.choice(ARBS), "mode": "q", "dv": rng.choice(["q:-1/1", "i:0", "s:9", None, "q:99/1"]),
                "dt": rng.choice([None, True, False, "q:1/4", "q:1/4", "q:1/2", "i:0", "q:0/1", "q:3/4", "i:2", "q:-1/2"]),
                "ins": [self._input(rng) for _ in range(n)]}

    def _scenario(self, rng, case):
        """pre-existing group shares and run-time changes of the selection share"""
        n = len(case["ins"])
        if n == 0:
            return case
        if rng.random() < 0.6:
            ks = list(range(n))
            rng.shuffle(ks)
            pre = {}
            sels = [[k, rng.choice(self.SELS)] for k in ks if rng.random() < 0.85]
            if rng.random() < 0.3:
                sels.insert(rng.randrange(len(sels) + 1), ["x1", True])
            if sels:
                pre["insels"] = sels
            if rng.random() < 0.5:
                ks2 = list(range(n))
                rng.shuffle(ks2)
                imps = [[k, rng.choice(self.IMPS)] for k in ks2 if rng.random() < 0.8]
                if rng.random() < 0.3:
                    imps.insert(0, ["x2", "i:5"])
                if imps:
                    pre["inimps"] = imps
            if rng.random() < 0.3:
                pre["out"] = True
            if pre:
                case["pre"] = pre
        if rng.random() < 0.6:
            ops = []
            for _ in range(rng.choice([1, 1, 2, 3])):
                r = rng.random()
                k = rng.randrange(n)
                if r < 0.4:
                    ops.append(["readd", k, rng.choice([True, True, "i:1", "s:1", False])])
                elif r < 0.6:
                    ops.append(["set", k, rng.choice(self.SELS)])
                elif r < 0.7:
                    ops.append(["drop", k])
                else:
                    perm = list(range(n))
                    rng.shuffle(perm)
                    ops.append(["rebuild", perm])
            case["ops"] = ops
        return case

    def _history(self, rng, case):
        """writes between several update() calls of the same instance"""
        n = len(case["ins"])
        if n == 0:
            return case
        case["stamp0"] = rng.choice([None, "q:0/1", "q:1/1", "q:5/2"])
        hist = []
        stamp = 1
        for _ in range(rng.choice([1, 2, 2, 3])):
            writes = []
            if rng.random() < 0.4:
                stamp += rng.choice([0, 1])
                writes.append(["stamp", rng.choice([None, "i:%d" % stamp, "i:%d" % stamp, "q:%d/2" % (2 * stamp + 1)])])
            for _ in range(rng.choice([1, 1, 2, 3])):
                k = rng.randrange(n)
                r = rng.random()
                if r < 0.5:
                    writes.append(["sel", k, rng.choice(["update", "change", "item", "attr"]), rng.choice(self.SELS)])
                elif r < 0.7:
                    writes.append(["imp", k, rng.choice(["update", "change", "item", "attr"]), rng.choice(self.IMPS)])
                elif r < 0.85:
                    writes.append(["value", k, rng.choice(["value", "update", "change", "item"]), rng.choice(self.VALUES)])
                else:
                    writes.append(["truth", k, rng.choice(self.TRUTHS)])
            hist.append(writes)
        case["hist"] = hist
        return case

    def _gen_f(self, rng, tier):
        def X(v):
            return "x:" + struct.pack(">d", float(v)).hex()
        n = rng.choice([1, 2, 3, 4])
        ins = []
        for _ in range(n):
            ins.append({"sel": rng.random() < 0.8, "imp": X(rng.choice([rng.random(), rng.random() * 3, 0.1, 0.3])),
                        "truth": rng.choice([None, True, X(rng.random()), X(rng.random() * 1.5 - 0.2), X(0.7)]),
                        "value": X(rng.choice([rng.uniform(-100, 100), 0.1, 1e6 * rng.random()])), "shape": "value"})
        return {"arb": rng.choice(ARBS), "mode": "f", "dv": X(rng.uniform(-5, 5)),
                "dt": rng.choice([X(0.0), X(rng.random() * 0.6), X(0.1), None]), "ins": ins}

    def generate(self, rng, n, tier):
        for i in range(n):
            c = self._gen_f(rng, tier) if rng.random() < 0.12 else self._gen_q(rng, tier)
            if rng.random() < 0.4:
                if c["mode"] == "q" and rng.random() < 0.5:          # several selected inputs: order matters
                    for x in c["ins"]:
                        if rng.random() < 0.7:
                            x["sel"] = True
                c = self._scenario(rng, c)
            if c["mode"] == "q" and rng.random() < 0.3:
                c = self._history(rng, c)
            yield c

    def exhaustive(self, tier):
        sels = [True, False]
        imps = ["i:0", "q:1/2", "i:1"]
        truths = [None, "q:1/4", "q:3/4"] if tier == "quick" else [None, False, "q:1/4", "q:3/4", "i:2"]
        vals = ["i:10", "s:1"] if tier == "quick" else ["i:10", "q:5/2", "s:1"]
        one = [{"sel": s, "imp": i, "truth": t, "value": v, "shape": "value"}
               for s in sels for i in imps for t in truths for v in vals]
        L = 3 if tier == "thorough" else 2
        if tier == "thorough":
            one3 = [x for x in one if x["value"] == "i:10" and x["truth"] in (None, "q:1/4", "q:3/4")]
        for arb in ARBS:
            for dt in (("q:1/2",) if tier == "quick" else ("q:1/4", "q:1/2")):
                for n in range(L + 1):
                    pool = one if n < 3 else one3
                    for combo in itertools.product(pool, repeat=n):
                        yield {"arb": arb, "mode": "q", "dv": "i:0", "dt": dt, "ins": [dict(c) for c in combo]}

    # ------------------------------------------------------------------ the scenario
    def _eff(self, case):
        """inputs as the arbiter must see them at the observed update(): order of the last construction, selection /
        importance = pre-existing field if any, else the constructor argument, then the run-time ops"""
        ins = case["ins"]
        n = len(ins)
        pre = case.get("pre") or {}
        sel = {k: ins[k]["sel"] for k in range(n)}
        imp = {k: ins[k]["imp"] for k in range(n)}
        for k, v in pre.get("insels", []):
            if isinstance(k, int) and k < n:
                sel[k] = v
        for k, v in pre.get("inimps", []):
            if isinstance(k, int) and k < n:
                imp[k] = v
        order = list(range(n))
        for op in case.get("ops", []):
            if op[0] in ("set", "readd"):
                sel[op[1]] = op[2]
            elif op[0] == "drop":
                sel[op[1]] = None                     # fetch() of a missing field gives None
            elif op[0] == "rebuild":
                order = list(op[1])
                for k in range(n):
                    if sel[k] is None and ("dropped", k) in self._dropped(case, op):
                        sel[k] = ins[k]["sel"]        # the new constructor creates the missing field from its argument
        return [dict(ins[k], sel=sel[k], imp=imp[k]) for k in order]

    def _views(self, case):
        """one derived plain case per observed update(): the inputs as they are at that moment"""
        first = self._eff(case)
        base = {k: v for k, v in case.items() if k not in ("pre", "ops", "hist", "stamp0")}
        views = [dict(base, ins=[dict(i) for i in first])]
        if not case.get("hist"):
            return views
        # position of original input k in the current order
        order = list(range(len(case["ins"])))
        for op in case.get("ops", []):
            if op[0] == "rebuild":
                order = list(op[1])
        cur = [dict(i) for i in first]
        pos = {k: j for j, k in enumerate(order)}
        for writes in case["hist"]:
            for w in writes:
                if w[0] == "stamp":
                    continue
                j = pos[w[1]]
                if w[0] == "sel":
                    cur[j]["sel"] = w[3]
                elif w[0] == "imp":
                    cur[j]["imp"] = w[3]
                elif w[0] == "value":
                    cur[j]["value"] = w[3]
                    cur[j]["shape"] = "value"
                elif w[0] == "truth":
                    cur[j]["truth"] = w[2]
            views.append(dict(base, ins=[dict(i) for i in cur]))
        return views

    @staticmethod
    def _dropped(case, upto):
        """{("dropped", k)} for selection fields that do not exist when op `upto` runs"""
        gone = set()
        for op in case.get("ops", []):
            if op is upto:
                break
            if op[0] == "drop":
                gone.add(("dropped", op[1]))
            elif op[0] in ("readd", "set"):
                gone.discard(("dropped", op[1]))
            elif op[0] == "rebuild":
                gone.clear()
        return gone

    # ------------------------------------------------------------------ implementation
    def impl(self, case):
        from ioflo.base import arbiting, storing
        from ioflo.aid.odicting import odict
        mode = case["mode"]
        store = storing.Store(stamp=py(case["stamp0"]) if "stamp0" in case else 0.0)
        d = store.create(".grp.default")
        d.update(value=py(case["dv"]))
        d.truth = py(case["dt"])
        inputs = odict()
        for k, i in enumerate(case["ins"]):
            path = ".in.i%d" % k
            sh = store.create(path)
            if i["shape"] == "value":
                sh.value = py(i["value"])
            elif i["shape"] == "other":
                sh.update(aux=1)
            sh.truth = py(i["truth"])
            inputs["t%d" % k] = (path, self._sel_py(i["sel"]), py(i["imp"]))
        cls = {"switch": arbiting.ArbiterSwitch, "priority": arbiting.ArbiterPriority,
               "trusted": arbiting.ArbiterTrusted, "weighted": arbiting.ArbiterWeighted}[case["arb"]]
        pre = case.get("pre") or {}
        tag = lambda k: ("t%d" % k) if isinstance(k, int) else str(k)
        if pre.get("insels"):
            sh = store.create(".grp.insels")
            for k, v in pre["insels"]:
                sh.update(**{tag(k): self._sel_py(v)})
        if pre.get("inimps"):
            sh = store.create(".grp.inimps")
            for k, v in pre["inimps"]:
                sh.update(**{tag(k): py(v)})
        if pre.get("out"):
            store.create(".out").update(aux=7, truth=3, value=5)
        try:
            arb = cls(name="arb", store=store, output=".out", group=".grp", inputs=inputs)
            for op in case.get("ops", []):
                if op[0] == "set":
                    arb.insels.update(**{tag(op[1]): self._sel_py(op[2])})
                elif op[0] == "readd":
                    if tag(op[1]) in arb.insels:
                        del arb.insels[tag(op[1])]
                    arb.insels.update(**{tag(op[1]): self._sel_py(op[2])})
                elif op[0] == "drop":
                    if tag(op[1]) in arb.insels:
                        del arb.insels[tag(op[1])]
                elif op[0] == "rebuild":
                    again = odict()
                    for k in op[1]:
                        again["t%d" % k] = inputs["t%d" % k]
                    arb = cls(name="arb", store=store, output=".out", group=".grp", inputs=again)
            arb.update()
        except Exception as ex:
            return ["E %s" % type(ex).__name__]
        out = ["%s %s" % (val_wire(arb.output.value, mode), val_wire(arb.output.truth, mode))]
        for writes in case.get("hist", []):
            try:
                for w in writes:
                    if w[0] == "stamp":
                        if w[1] is None:
                            store.stamp = None
                        else:
                            store.changeStamp(py(w[1]))
                        continue
                    t = "t%d" % w[1]
                    if w[0] in ("sel", "imp"):
                        sh = arb.insels if w[0] == "sel" else arb.inimps
                        v = self._sel_py(w[3]) if w[0] == "sel" else py(w[3])
                        how = w[2]
                        if how == "update":
                            sh.update(**{t: v})
                        elif how == "change":
                            sh.change(**{t: v})
                        elif how == "item":
                            sh[t] = v
                        elif how == "attr":
                            setattr(sh.data, t, v)
                        else:
                            raise core.Infra("bad write " + how)
                    elif w[0] == "value":
                        sh, v, how = arb.inputs[t], py(w[3]), w[2]
                        if how == "value":
                            sh.value = v
                        elif how == "update":
                            sh.update(value=v)
                        elif how == "change":
                            sh.change(value=v)
                        elif how == "item":
                            sh["value"] = v
                        else:
                            raise core.Infra("bad write " + how)
                    elif w[0] == "truth":
                        arb.inputs[t].truth = py(w[2])
                    else:
                        raise core.Infra("bad write %r" % (w,))
                arb.update()
            except core.Infra:
                raise
            except Exception as ex:
                out.append("E %s" % type(ex).__name__)
                continue
            out.append("%s %s" % (val_wire(arb.output.value, mode), val_wire(arb.output.truth, mode)))
        return out

    # ------------------------------------------------------------------ model
    def _in_wire(self, i, mode):
        return "%d:%s:%s:%s" % (1 if self._sel_py(i["sel"]) else 0, num_wire(py(i["imp"]), mode),
                                val_wire(py(i["truth"]), mode), val_wire(py(i["value"]), mode))

    def _line(self, case, m):
        return " ".join([m, case["arb"], val_wire(py(case["dv"]), m), val_wire(py(case["dt"]), m)] +
                        [self._in_wire(i, m) for i in self._eff(case)])

    def _region_line(self, case):
        # exact evaluation of the numbers (comparisons only): the same predicate in both modes
        return " ".join(["q", "d25region", val_wire(py(case["dt"]), "q")] + [self._in_wire(i, "q") for i in self._eff(case)])

    def _requests1(self, case):
        if case["mode"] == "q" and case["arb"] == "weighted":
            return [self._line(case, "q"), self._line(case, "f")]      # exact and Float instantiation
        if case["arb"] == "priority":
            return [self._line(case, case["mode"]), self._region_line(case)]   # + region of D25 (cached for region())
        return [self._line(case, case["mode"])]

    def _model_post1(self, case, replies):
        """weighted in mode q: the exact result when every number of it is a double (then the float division is
        exact too), else the Float instantiation's result written as the rational it is"""
        if case["arb"] == "priority":
            self._regions[core.case_key(case)] = (replies[1] == "1")
            replies = replies[:1]
        if case["mode"] == "f":
            return [replies[0].replace("8000000000000000", "0000000000000000")]
        if len(replies) == 2:
            toks = replies[0].split()
            nums = [F(t[1:]) for t in toks if t.startswith("#")]
            if all(F(float(x)) == x for x in nums):
                return [replies[0]]
            out = []
            for t in replies[1].split():
                if t.startswith("#"):
                    t = "#" + num_wire(struct.unpack(">d", bytes.fromhex(t[1:]))[0], "q")
                out.append(t)
            return [" ".join(out)]
        return replies

    _regions = {}

    def _region1(self, finding, case):
        """D25: Ioflo.Arbiter.nonPosCandidate, evaluated by the Lean driver (answer cached by model_post)"""
        if finding.get("id") != "D25" or case["arb"] != "priority":
            return False
        k = core.case_key(case)
        if k not in self._regions:
            self._regions[k] = core.Driver(self.ENGINE).run([self._region_line(case)]) == ["1"]
        return self._regions[k]

    # ---- several observed updates: every observation is a plain case of its own (`_views`)
    def requests(self, case):
        return [r for v in self._views(case) for r in self._requests1(v)]

    def model_post(self, case, replies):
        out, i = [], 0
        for v in self._views(case):
            n = len(self._requests1(v))
            out.extend(self._model_post1(v, replies[i:i + n]))
            i += n
        return out

    def region(self, finding, case):
        return any(self._region1(finding, v) for v in self._views(case))

    def oracle(self, case, out):
        views = self._views(case)
        if len(out) != len(views):
            return "unexpected output %r" % (out,)
        for j, (v, o) in enumerate(zip(views, out)):
            why = self._oracle1(v, [o])
            if why is not None:
                if len(views) > 1:
                    why = "update() number %d%s: %s" % (j + 1, (" after " + json.dumps(case["hist"][j - 1])) if j else "", why)
                return why
        return None

    # ------------------------------------------------------------------ oracle
    def expected(self, case):
        """(value, truth) by the documented rule; value/truth as Python objects, numbers as Fractions"""
        def num(v):
            if isinstance(v, bool) or v is None or isinstance(v, str):
                return v
            return F(v)
        dv, dt = num(py(case["dv"])), fix(py(case["dt"]))
        default = (dv, dt)
        ins = [(bool(self._sel_py(i["sel"])), F(py(i["imp"])), py(i["truth"]), num(py(i["value"]))) for i in self._eff(case)]
        arb = case["arb"]
        if arb == "switch":
            for sel, imp, truth, value in ins:
                if sel:
                    return (value, num(truth))
            return default
        if arb in ("priority", "trusted"):
            cands = [(imp, fix(truth), value) for sel, imp, truth, value in ins if sel and fix(truth) > dt]
            if not cands:
                return default
            key = (lambda c: c[0]) if arb == "priority" else (lambda c: (c[1], c[0]))
            best = max(key(c) for c in cands)
            w = next(c for c in cands if key(c) == best)       # the first of the maximal ones
            return (w[2], w[1])
        sel = [(imp, fix(truth), value) for s, imp, truth, value in ins if s]
        if any(isinstance(v, str) or v is None for _, _, v in sel):
            return default
        W = sum((imp for imp, _, _ in sel), F(0))
        C = sum((imp * t for imp, t, _ in sel), F(0))
        V = sum((imp * t * (F(int(v)) if isinstance(v, bool) else v) for imp, t, v in sel), F(0))
        if C == 0 or W == 0:
            return default
        if C / W > dt:
            return (V / C, C / W)
        return default

    def _oracle1(self, case, out):
        if len(out) != 1:
            return "unexpected output %r" % (out,)
        if out[0].startswith("E ") or out[0].startswith("HARNESS"):
            return "%s arbiter raised: %s" % (case["arb"], out[0])
        mode = case["mode"]
        want = self.expected(case)
        got = out[0].split()

        scale_v = None
        if case["arb"] == "weighted":                # magnitude of the terms, for the rounding allowance in mode f
            terms = [abs(F(py(i["imp"])) * fix(py(i["truth"])) * F(py(i["value"]))) for i in self._eff(case)
                     if self._sel_py(i["sel"]) and isinstance(py(i["value"]), (int, float))]
            cs = abs(sum((F(py(i["imp"])) * fix(py(i["truth"])) for i in self._eff(case) if self._sel_py(i["sel"])), F(0)))
            scale_v = (sum(terms, F(0)) / cs) if cs else F(0)

        def same(tok, w, what):
            if w is None or isinstance(w, (bool, str)):
                return tok == val_wire(w, mode)
            if not tok.startswith("#"):
                return False
            g = F(tok[1:]) if mode == "q" else F(struct.unpack(">d", bytes.fromhex(tok[1:]))[0])
            if g == w:
                return True
            if case["arb"] == "weighted":            # a quotient / float sums: correctly rounded arithmetic
                scale = max(abs(w), abs(g), scale_v if what == "value" else 0)
                return abs(g - w) <= scale * F(1, 2 ** (50 if mode == "q" else 44))
            return False

        if not same(got[0], want[0], "value"):
            return "%s: output value %s, the rule gives %s (truth %s)" % (case["arb"], got[0], want[0], want[1])
        if not same(got[1], want[1], "truth"):
            return "%s: output truth %s, the rule gives %s" % (case["arb"], got[1], want[1])
        return None

    # ------------------------------------------------------------------ statistics
    def nontrivial(self, case, out):
        if case.get("hist"):
            return len(set(out)) > 1 and not any(o.startswith(("E", "HARNESS")) for o in out)
        if not out or out[0].startswith(("E", "HARNESS")):
            return False
        anysel = any(bool(self._sel_py(i["sel"])) for i in self._eff(case))
        dflt = "%s %s" % (val_wire(py(case["dv"]), case["mode"]), "#" + num_wire(fix(py(case["dt"])), case["mode"]))
        return anysel and out[0] != dflt

    def bucket(self, case, out):
        n = len(case["ins"])
        shapes = {i["shape"] for i in case["ins"]}
        kind = "default" if not self.nontrivial(case, out) else "input"
        if out and out[0].startswith("E"):
            kind = "raised"
        sc = ("+pre" if case.get("pre") else "") + ("+ops" if case.get("ops") else "") + ("+hist" if case.get("hist") else "")
        return "%s/%s%s/n%d%s/%s" % (case["mode"], case["arb"], sc, min(n, 4), "+" if n > 4 else "",
                                   kind + ("/emptyshare" if "empty" in shapes else ""))

    def shrink_candidates(self, case):
        for c in self._shrink(case):
            if not self.region({"id": "D25"}, c):      # do not drift into the known finding while shrinking
                yield c

    def _shrink(self, case):
        if case.get("hist"):
            h = case["hist"]
            for k in range(len(h) - 1, -1, -1):
                c = dict(case)
                c["hist"] = h[:k] + h[k + 1:]
                if not c["hist"]:
                    c.pop("hist")
                yield c
            for k, ws in enumerate(h):
                for j in range(len(ws)):
                    if len(ws) > 1:
                        c = dict(case)
                        c["hist"] = [list(x) for x in h]
                        c["hist"][k] = ws[:j] + ws[j + 1:]
                        yield c
            return
        if case.get("ops"):
            for k in range(len(case["ops"])):
                c = dict(case)
                c["ops"] = case["ops"][:k] + case["ops"][k + 1:]
                yield c
            return                                    # input indices are referenced by the ops: keep the inputs
        if case.get("pre"):
            c = dict(case)
            c.pop("pre")
            yield c
            for key in ("insels", "inimps"):
                lst = case["pre"].get(key) or []
                for k in range(len(lst)):
                    c = dict(case)
                    c["pre"] = dict(case["pre"])
                    c["pre"][key] = lst[:k] + lst[k + 1:]
                    yield c
            return
        ins = case["ins"]
        for k in range(len(ins)):
            c = dict(case)
            c["ins"] = ins[:k] + ins[k + 1:]
            yield c
        for k in range(len(ins)):
            if ins[k]["shape"] != "value":
                continue
            for field, simple in (("value", "i:7"), ("truth", None), ("sel", True)):
                if ins[k][field] != simple:
                    c = dict(case)
                    c["ins"] = [dict(x) for x in ins]
                    c["ins"][k][field] = simple
                    yield c
