"""C46 — PID controller output and integrator stay within configured limits.
Model: lean/IofloModel/Model/Pid.lean (ControllerPid.action + DoerLapse.updateLapse + blend0 + wrap2, generic over the
       rounding arithmetic; driver = binary64 instantiation)
Theorems: lean/IofloModel/Props/C46.lean (for EVERY arithmetic: clamp, limits for every history; exact arithmetic: error
       = shortest wrapped difference)
Tie: a real ControllerPid on a real Store is driven through the same history (stamps, input/rate/set-point share values,
     parm share) as the model; after every action() the doer's lapse and the elapsed/prsp/error/errorRate/errorSum/output
     shares are compared exactly (as rationals / nan / inf).
Oracle (independent of the model): limits checked on the shares after every action; error checked against the wrapped
     difference with fractions.Fraction; integrator reset checked metamorphically on a twin controller whose errorSum is
     perturbed just before a set-point jump."""
import math, itertools, zlib
from fractions import Fraction as F
import core

_ctr = itertools.count()
PKEYS = ["wrap", "drsp", "calcRate", "ger", "gff", "gpe", "gde", "gie", "esmax", "esmin", "ovmax", "ovmin"]


def enc(x):
    if x is None:
        return "none"
    x = float(x)
    if math.isnan(x):
        return "nan"
    if math.isinf(x):
        return "inf" if x > 0 else "-inf"
    return x.hex()


def dec(s):
    if s == "none":
        return None
    if s in ("nan", "inf", "-inf"):
        return float(s)
    return float.fromhex(s)


def q(x):
    """canonical exact text of a float for comparison / the driver"""
    if x is None:
        return "none"
    if not isinstance(x, (int, float, F)):          # bool is an int (True == 1); values are compared as exact rationals
        return "BAD:" + type(x).__name__
    if isinstance(x, F) or (isinstance(x, int) and not isinstance(x, bool) and abs(x) >= 2 ** 53):
        return "%d/%d" % (F(x).numerator, F(x).denominator)
    x = float(x)
    if math.isnan(x):
        return "nan"
    if math.isinf(x):
        return "inf" if x > 0 else "-inf"
    f = F(x)
    return "%d/%d" % (f.numerator, f.denominator)


def unq(s):
    if s in ("nan", "inf", "-inf"):
        return float(s)
    p, d = s.split("/")
    return F(int(p), int(d))


def tv(v, salt):
    """numeric type of a value in a 'mixed' case: integral values below 2**20 are handed to the controller as int or
    bool instead of float (chosen by a hash of salt and value, so every run of the case makes the same choice).
    For such values int arithmetic and binary64 arithmetic give equal numbers, so the model is unchanged and the
    comparison (exact rationals) checks that nothing depends on the argument being a float."""
    if salt is None or v is None or isinstance(v, bool) or not math.isfinite(v) or v != int(v) or abs(v) >= 2 ** 20:
        return v
    h = zlib.crc32(("%s:%r" % (salt, float(v))).encode())
    if h % 3 == 0:
        return v
    if v in (0, 1) and h % 3 == 1:
        return bool(v)
    return int(v)


# ---- typed cases: every number carries its Python type: "i:<int>", "b:<0|1>", "q:<p/q>", "f:<float hex|nan|inf|-inf>"
def tdec(tok):
    if tok == "none":
        return None
    k, v = tok.split(":", 1)
    if k == "i":
        return int(v)
    if k == "b":
        return bool(int(v))
    if k == "q":
        return F(v)
    return dec(v)


def ttok(x):
    if x is None:
        return "none"
    if isinstance(x, bool):
        return "b:%d" % x
    if isinstance(x, int):
        return "i:%d" % x
    if isinstance(x, F):
        return "q:%d/%d" % (x.numerator, x.denominator)
    return "f:" + enc(x)


def tdrv(tok):
    """token for the driver: kind (bool is an int) + exact value"""
    if tok == "none":
        return "none"
    k = tok[0]
    return ("i" if k == "b" else k) + ":" + q(tdec(tok))


def run_typed(c):
    from ioflo.base import storing
    from ioflo.trim.interior.plain import controlling
    n = next(_ctr)
    if n % 512 == 0:
        storing.Store.Clear()
    store = storing.Store(name="c46t%d" % n)
    ctl = controlling.ControllerPid(name="c46pid", store=store)
    ctl._prepio(group="ctl.pid", output="goal.out", input="state.in", rate="state.rate", rsp="goal.sp",
                parms={k: (bool(v) if k == "calcRate" else tdec(v)) for k, v in c["parm"].items()})
    out = []
    for op in c["ops"]:
        try:
            if op[0] == "upd":
                store.stamp, ctl.input.value, ctl.rate.value, ctl.rsp.value = (tdec(x) for x in op[1:5])
                ctl.action()
            else:
                ctl.restart()
            out.append(" ".join(q(v) for v in [ctl.lapse, ctl.elapsed.value, ctl.prsp.value, ctl.e.value,
                                               ctl.er.value, ctl.es.value, ctl.output.value]))
        except core.HarnessTimeout:
            raise
        except ZeroDivisionError:
            out.append("ERR ZeroDivisionError")
        except Exception as ex:
            out.append("ERR other:" + type(ex).__name__)
    return out


class Rig:
    """a real ControllerPid on a real Store"""

    def __init__(self, parm, salt=None):
        self.salt = salt
        from ioflo.base import storing
        from ioflo.trim.interior.plain import controlling
        n = next(_ctr)
        if n % 512 == 0:
            storing.Store.Clear()
        self.store = storing.Store(name="c46s%d" % n)
        self.c = controlling.ControllerPid(name="c46pid", store=self.store)
        self.c._prepio(group="ctl.pid", output="goal.out", input="state.in", rate="state.rate", rsp="goal.sp",
                       parms=self._tparms(parm))

    @staticmethod
    def _parms(parm):
        return {k: (bool(parm[k]) if k == "calcRate" else dec(parm[k])) for k in PKEYS}

    def _tparms(self, parm):
        return {k: (v if k == "calcRate" else tv(v, self.salt)) for k, v in self._parms(parm).items()}

    PATHS = ("update", "change", "item", "data", "value")

    @staticmethod
    def write(share, fields, how):
        """every way a share's fields get written: stamping update(), non-stamping change(), item assignment,
        attribute on .data, and (single field 'value') the .value property"""
        if how == "update":
            share.update(**fields)
        elif how == "change":
            share.change(**fields)
        elif how == "item":
            for k, v in fields.items():
                share[k] = v
        elif how == "data":
            for k, v in fields.items():
                setattr(share.data, k, v)
        else:
            (k, v), = fields.items()
            setattr(share, k, v)

    def setparm(self, parm, meta=None):
        """bring the parm share to `parm`, writing only the fields that differ, by the path meta['how'];
        meta['at'] first moves the store clock (so that a stamping update() can carry the stamp of the next action)"""
        meta = meta or {}
        if "at" in meta:
            self.store.stamp = tv(dec(meta["at"]), self.salt)
        new = self._tparms(parm)
        cur = dict(self.c.parm.items())
        diff = {k: v for k, v in new.items() if not (k in cur and type(cur[k]) is type(v) and (cur[k] == v or (v != v and cur[k] != cur[k])))}
        how = meta.get("how", "update")
        if diff or how == "update":
            self.write(self.c.parm, diff, how if how != "value" else "update")

    def update(self, stamp, i, r, sp, via=None):
        via = via or ("value", "value", "value")
        self.store.stamp = tv(stamp, self.salt)   # what changeStamp() does to the attribute the doer reads (None allowed)
        self.write(self.c.input, {"value": tv(i, self.salt)}, via[0])
        self.write(self.c.rate, {"value": tv(r, self.salt)}, via[1])
        self.write(self.c.rsp, {"value": tv(sp, self.salt)}, via[2])
        self.c.action()

    def state(self):
        c = self.c
        return [c.lapse, c.elapsed.value, c.prsp.value, c.e.value, c.er.value, c.es.value, c.output.value]

    def clone(self, parm):
        o = Rig(parm, self.salt)
        o.c.stamp, o.c.lapse = self.c.stamp, self.c.lapse
        o.store.stamp = self.store.stamp
        for name in ("elapsed", "prsp", "e", "er", "es", "output", "input", "rate", "rsp"):
            getattr(o.c, name).value = getattr(self.c, name).value
        return o


def run_ops(rig, parm, ops):
    """apply ops to a rig; returns canonical lines"""
    out = []
    for op in ops:
        try:
            if op[0] == "upd":
                rig.update(*[dec(x) for x in op[1:5]], via=(op[5] if len(op) > 5 else None))
            elif op[0] == "restart":
                rig.c.restart()
            elif op[0] == "parm":
                parm = op[1]
                rig.setparm(parm, op[2] if len(op) > 2 else None)
                out.append("ok")
                continue
            out.append(" ".join(q(v) for v in rig.state()))
        except core.HarnessTimeout:
            raise
        except ZeroDivisionError:
            out.append("ERR ZeroDivisionError")
        except Exception as ex:
            out.append("ERR other:" + type(ex).__name__)
    return out


def le(a, b):
    return a <= b


class CHECK(core.Check):
    PROPERTY = "C46"
    LEAN_MODULES = ["IofloModel.Props.C46"]
    ENGINE = "pid"
    N_QUICK = 1200
    N_THOROUGH = 12000
    N_SEARCH = 1500
    RULE = ("a case = one parm set (gains, wrap, drsp, calcRate, ordered limits; finite, +-inf, occasionally nan gains) and "
            "a history of 1..30 operations: action() at a given store stamp (increasing by dyadic or decimal steps, "
            "sometimes repeated/backwards/None; parameters incl. limits rewritten between actions by update() at an "
            "advanced or the same store stamp, change(), item assignment or attribute on .data; signals and set point "
            "written by update/change/item/.data/.value) with input / rate / set-point values (about a third of the cases 'mixed': "
            "integral stamps, signals, gains and limits below 2**20 are handed over as int or bool instead of float; "
            "results compared as exact rationals; a quarter of the cases 'typed': ints, bools, Fractions (thirds, tenths) "
            "and floats mixed freely in stamps, signals, gains, wrap and limits, run against the typed model) (random walks, jumps, jitter below "
            "drsp, occasionally nan / +-inf), restart(), and changes of the gains. Small exhaustive block: all "
            "histories of length 2 (quick) / 3 (thorough) over a 3-value input/set-point alphabet for 4 parm sets. non-trivial = at least one "
            "action() with positive lapse was evaluated; distinct by full case content")
    TRUSTED = ["correspondence: ioflo ControllerPid (real Store, real shares) vs the Lean step function with binary64 "
               "arithmetic (exact result of each + - * / % rounded to nearest even, unbounded exponent) on the same "
               "history; every share compared exactly after every action()",
               "IEEE comparisons, abs, negation, Python min/max argument order, NaN propagation as transcribed in "
               "Model/Pid.lean (Num.lt, pymax, pymin, xadd..xmod); overflow to infinity and subnormal results of "
               "finite arithmetic are outside the model (not generated)"]
    PARTIAL = ["C46_limits_always_partial: 'always within limits' from creation needs 0 to lie within both limit ranges "
               "(shares are created with 0.0 and restart() writes 0.0); otherwise it holds from the first evaluated "
               "action() on (C46_limits_after_evaluation). Known finding D46a, region Ioflo.Pid.zeroOutside",
               "typed model (Model/PidTyped.lean: int/bool, Fraction exact, float binary64, int/int true division) is tied on "
               "'typed' cases and has C46_typed_within_limits, C46_typed_limits_always_partial, C46_typed_error_exact; the "
               "set-point and never-raises theorems are not repeated for it",
               "C46_error_is_wrap2 is about exact arithmetic; with binary64 rounding the error is the rounded analogue "
               "(see C43 / D43a); blend0 and the PID sum are covered for every arithmetic but only through the clamp"]
    TECHNIQUE = ("Lean 4 theorems generic over the rounding arithmetic (case analysis on an order with NaN; induction over "
                 "the history) + differential correspondence with a binary64 instantiation")
    LEVEL_TEXT = ("Full proofs on the model for EVERY arithmetic (so also for IEEE binary64) and every value incl. NaN/inf: "
                  "C46_clamp_in_range, C46_output_within_limits, C46_errorsum_within_limits (each evaluated action), "
                  "C46_limits_after_evaluation and C46_limits_always_partial (every history), C46_limits_in_force (parameters "
                  "rewritten at will between actions: the limits the parm share holds at that action), "
                  "C46_setpoint_jump_resets_integrator, C46_small_setpoint_change_ignored, C46_unevaluated_update_keeps_shares; "
                  "exact arithmetic: C46_error_is_wrap2 (+ range/congruence from C43); binary64 arithmetic: "
                  "C46_error_within_wrap_binary64; C46_never_raises (_exact, _binary64).")
    LEVEL_NOTE = ("Trusted: Lean kernel; axioms propext, Classical.choice, Quot.sound; transcription of "
                  "controlling.py/doing.py/blending.py/navigating.py validated by the correspondence runs. The share/store "
                  "machinery is used as is (values read and written through .value).")

    def __init__(self):
        self._region = {}

    # ------------------------------------------------------------------ generation
    def _num(self, rng, scale=10.0, special=0.03):
        r = rng.random()
        if r < special:
            return rng.choice([float("nan"), float("inf"), float("-inf")])
        m = rng.randrange(6)
        if m == 0:
            return 0.0
        if m == 1:
            return float(rng.randrange(-int(scale), int(scale) + 1))
        if m == 2:
            return rng.randrange(-int(scale * 64), int(scale * 64) + 1) / 64.0
        return rng.uniform(-scale, scale)

    def _parm(self, rng, sp=0.04):
        def lim():
            a, b = sorted([self._num(rng, 50.0, 0.0), self._num(rng, 50.0, 0.0)])
            m = rng.randrange(12)
            if m < 8 or (m < 11 and rng.random() < 0.6):      # zero inside (most cases)
                a, b = -abs(a), abs(b)
            if m == 6 and sp:
                a = float("-inf")
            if m == 7 and sp:
                b = float("inf")
            if m == 8:
                b = a
            if m == 9:
                a, b = 0.0, 0.0
            return a, b
        esmin, esmax = lim()
        ovmin, ovmax = lim()
        p = dict(wrap=rng.choice([0.0, 0.0, 180.0, 180.0, 360.0, math.pi, -180.0, abs(self._num(rng, 100.0, 0.0)),
                                  self._num(rng, 10, 0.3 if sp else 0.0)]),
                 drsp=rng.choice([0.01, 0.01, 0.0, 0.5, 1.0, -1.0, self._num(rng, 2.0, 0.1 if sp else 0.0)]),
                 calcRate=rng.random() < 0.6,
                 ger=self._num(rng, 5.0, sp), gff=self._num(rng, 500.0, sp), gpe=self._num(rng, 10.0, sp),
                 gde=self._num(rng, 5.0, sp), gie=self._num(rng, 5.0, sp),
                 esmax=esmax, esmin=esmin, ovmax=ovmax, ovmin=ovmin)
        return {k: (bool(v) if k == "calcRate" else enc(v)) for k, v in p.items()}

    def _newparm(self, rng, cur, sp):
        """a rewritten parm share: some of gains / wrap / drsp / calcRate and, half of the time, the limits"""
        p2 = self._parm(rng, sp)
        keep = ["esmax", "esmin", "ovmax", "ovmin"] if rng.random() < 0.5 else []
        if rng.random() < 0.5:              # only a few fields
            keys = rng.sample(PKEYS, rng.randrange(1, 4))
            if "esmin" in keys or "esmax" in keys:
                keys += ["esmin", "esmax"]
            if "ovmin" in keys or "ovmax" in keys:
                keys += ["ovmin", "ovmax"]
            keep = [k for k in PKEYS if k not in keys or k in keep]
        for k in keep:
            p2[k] = cur[k]
        return p2

    def _history(self, rng, parm, n, sp=0.04):
        cur = parm
        ops = []
        t = rng.choice([0.0, 0.0, 1.0, 10.5, None])
        dt = rng.choice([0.125, 0.5, 0.0625, 0.1, 0.1, 1.0, 0.3])
        x = self._num(rng, 100.0, 0.0)
        setp = self._num(rng, 100.0, 0.0)
        mode = rng.randrange(4)
        for _ in range(n):
            r = rng.random()
            if r < 0.04:
                ops.append(["restart"])
                continue
            if r < 0.07:
                cur = self._newparm(rng, cur, sp)
                ops.append(["parm", cur, {"how": rng.choice(["update", "update", "change", "item", "data"])}])
                continue
            # time
            r = rng.random()
            if t is None:
                t = rng.choice([0.0, 5.0])
            elif r < 0.08:
                pass                                   # same stamp: lapse 0
            elif r < 0.11:
                t = t - dt                             # backwards
            else:
                t = t + dt * rng.choice([1, 1, 1, 2, 10])
            stamp = None if rng.random() < 0.02 else t
            # signals
            if mode == 0:
                x += rng.uniform(-0.01, 0.01)
            elif mode == 1:
                x += rng.uniform(-2.0, 2.0)
            elif mode == 2:
                x += rng.choice([-0.25, 0.25, 0.0, 0.5, 90.0])
            else:
                x = self._num(rng, 400.0, 0.0)
            r = rng.random()
            if r < 0.15:
                setp = self._num(rng, 200.0, 0.0)      # jump
            elif r < 0.3:
                setp += rng.choice([0.001, -0.004, 0.009, 0.0101])   # jitter around drsp = 0.01
            xi = x if rng.random() >= sp else rng.choice([float("nan"), float("inf"), float("-inf")])
            spi = setp if rng.random() >= sp / 2 else rng.choice([float("nan"), float("inf"), float("-inf")])
            rate = self._num(rng, 3.0, sp)
            # parameter writes around the action: before it with the clock already at the action's stamp (a stamping
            # update() then carries exactly that stamp), and after it with the clock still there
            if stamp is not None and rng.random() < 0.12:
                cur = self._newparm(rng, cur, sp)
                ops.append(["parm", cur, {"how": rng.choice(Rig.PATHS[:4]), "at": enc(stamp)}])
            upd = ["upd", enc(stamp), enc(xi), enc(rate), enc(spi)]
            if rng.random() < 0.3:
                upd.append([rng.choice(Rig.PATHS) for _ in range(3)])
            ops.append(upd)
            if rng.random() < 0.12:
                cur = self._newparm(rng, cur, sp)
                ops.append(["parm", cur, {"how": rng.choice(Rig.PATHS[:4])}])
        return ops

    def _tval(self, rng, scale=20):
        m = rng.randrange(8)
        if m == 0:
            return rng.randrange(-scale, scale + 1)
        if m in (1, 2):
            return F(rng.randrange(-scale * 6, scale * 6 + 1), rng.choice([1, 2, 3, 7, 10, 360]))
        if m == 3:
            return rng.random() < 0.5
        if m == 4:
            return float(rng.randrange(-scale, scale + 1))
        if m == 5:
            return 0
        return rng.uniform(-scale, scale)

    def _gen_typed(self, rng):
        """ints, bools, Fractions (also thirds, tenths) and floats mixed freely"""
        def lim(scale):
            a, b = sorted([self._tval(rng, scale), self._tval(rng, scale)])
            if rng.random() < 0.75:
                a, b = -abs(a), abs(b)
            return a, b
        esmin, esmax = lim(20)
        ovmin, ovmax = lim(50)
        parm = dict(wrap=rng.choice([0, 0, 0.0, F(0), False, 180, 180.0, F(360), F(1, 3), -180]),
                    drsp=rng.choice([0.01, F(1, 100), 0, 1, True]), calcRate=rng.random() < 0.6,
                    ger=self._tval(rng, 3), gff=self._tval(rng, 30), gpe=self._tval(rng, 5), gde=self._tval(rng, 3),
                    gie=self._tval(rng, 3), esmax=esmax, esmin=esmin, ovmax=ovmax, ovmin=ovmin)
        ops = []
        t = rng.choice([0, 0.0, F(1, 2), None])
        x, sp = self._tval(rng, 100), self._tval(rng, 100)
        for _ in range(rng.choice([1, 2, 3, 5, 8, 12])):
            if rng.random() < 0.05:
                ops.append(["restart"])
                continue
            t = rng.choice([0, 1.5]) if t is None else t + rng.choice([1, F(1, 2), 0.5, F(1, 3), 0.1, 2, 0, True])
            x = x + rng.choice([0, 1, F(1, 4), 0.25, F(1, 3), -2, F(-1, 10)])
            if rng.random() < 0.3:
                sp = self._tval(rng, 100)
            ops.append(["upd", ttok(t), ttok(x), ttok(self._tval(rng, 3)), ttok(sp)])
        return {"kind": "typed", "parm": {k: (v if k == "calcRate" else ttok(v)) for k, v in parm.items()}, "ops": ops}

    def generate(self, rng, n, tier):
        for _ in range(n):
            if rng.random() < 0.25:
                yield self._gen_typed(rng)
                continue
            sp = 0.05 if rng.random() < 0.35 else 0.0          # non-finite values only in about a third of the cases
            parm = self._parm(rng, sp)
            c = {"parm": parm, "ops": self._history(rng, parm, rng.choice([1, 2, 3, 5, 8, 12, 20, 30]), sp)}
            if rng.random() < 0.35:
                # other numeric types: integral values reach the controller as int / bool (see tv); half of these
                # cases are rounded to integers throughout so that most values are affected
                c["num"] = rng.randrange(1 << 16)
                if rng.random() < 0.5:
                    c = self._integral(c)
            yield c

    @staticmethod
    def _integral(c):
        def rnd(s):
            v = dec(s)
            return s if (v is None or not math.isfinite(v)) else enc(float(round(v)))

        def rp(p):
            return {k: (v if k == "calcRate" else rnd(v)) for k, v in p.items()}
        ops = []
        for op in c["ops"]:
            if op[0] == "upd":
                ops.append(["upd"] + [rnd(x) for x in op[1:5]] + op[5:])
            elif op[0] == "parm":
                ops.append(["parm", rp(op[1])] + [dict(m, **({"at": rnd(m["at"])} if "at" in m else {})) for m in op[2:]])
            else:
                ops.append(op)
        return dict(c, parm=rp(c["parm"]), ops=ops)

    def exhaustive(self, tier):
        base = dict(wrap=enc(180.0), drsp=enc(0.01), calcRate=True, ger=enc(1.0), gff=enc(0.0), gpe=enc(3.0),
                    gde=enc(0.5), gie=enc(1.0), esmax=enc(5.0), esmin=enc(-5.0), ovmax=enc(20.0), ovmin=enc(-20.0))
        parms = [base,
                 dict(base, wrap=enc(0.0), calcRate=False, gff=enc(400.0), ovmin=enc(0.0), ovmax=enc(1500.0)),
                 dict(base, esmin=enc(1.0), esmax=enc(2.0), ovmin=enc(5.0), ovmax=enc(10.0)),
                 dict(base, gpe=enc(float("nan")), gie=enc(float("inf")))]
        vals = [enc(10.0), enc(350.0), enc(float("nan"))]
        sps = [enc(20.0), enc(20.005), enc(-170.0)]
        L = 3 if tier == "thorough" else 2
        for p in parms:
            for xs in itertools.product(vals, repeat=L):
                for ss in itertools.product(sps, repeat=L):
                    ops = [["upd", enc(0.5 * k), xs[k], enc(0.25), ss[k]] for k in range(L)]
                    yield {"parm": p, "ops": [["upd", enc(-0.5), enc(10.0), enc(0.0), enc(20.0)]] + ops}
        # parameters rewritten between actions by every write path, at an advanced and at the SAME store stamp:
        # every action must use the contents (limits, gains, wrap, drsp) current at that action
        tight = dict(base, ovmax=enc(2.0), ovmin=enc(-2.0), esmax=enc(0.5), esmin=enc(-0.5))
        wrapped = dict(base, wrap=enc(0.0), gpe=enc(1.0), ovmax=enc(500.0), ovmin=enc(-500.0))
        nodead = dict(base, drsp=enc(50.0), gff=enc(1.0), gpe=enc(0.0))
        for first in ("update", "change", "item", "data"):
            for second in ("update", "change", "item", "data"):
                for alt in (tight, wrapped, nodead):
                    for same in (True, False):
                        yield {"parm": base, "ops": [
                            ["upd", enc(0.0), enc(10.0), enc(0.0), enc(20.0)],
                            ["parm", dict(base, gpe=enc(4.0)), {"how": first, "at": enc(1.0)}],
                            ["upd", enc(1.0), enc(350.0), enc(0.0), enc(20.0)],
                            ["parm", alt, dict({"how": second}, **({} if same else {"at": enc(1.5)}))],
                            ["upd", enc(2.0), enc(300.0), enc(0.0), enc(-100.0), [second if second != "data" else "value"] * 3],
                            ["upd", enc(3.0), enc(100.0), enc(0.0), enc(-100.0)]]}
        # the same family with integral stamps and values handed over as int / bool (two hash salts)
        ivals = [enc(10.0), enc(350.0), enc(1.0)]
        isps = [enc(20.0), enc(0.0), enc(-170.0)]
        for salt in (1, 2):
            for p in parms[:3]:
                p = self._integral({"parm": p, "ops": []})["parm"]
                for xs in itertools.product(ivals, repeat=2):
                    for ss in itertools.product(isps, repeat=2):
                        ops = [["upd", enc(float(k + 1)), xs[k], enc(1.0), ss[k]] for k in range(2)]
                        yield {"parm": p, "num": salt, "ops": [["upd", enc(0.0), enc(10.0), enc(0.0), enc(20.0)]] + ops}

    # ------------------------------------------------------------------ implementation / model
    def impl(self, c):
        if c.get("kind") == "typed":
            return run_typed(c)
        return run_ops(Rig(c["parm"], c.get("num")), c["parm"], c["ops"])

    @staticmethod
    def _parmline(p):
        vals = []
        for k in PKEYS:
            vals.append(("1" if p[k] else "0") if k == "calcRate" else q(dec(p[k])))
        return "parm " + " ".join(vals)

    def requests(self, c):
        if c.get("kind") == "typed":
            p = c["parm"]
            vals = {k: (p[k] if k == "calcRate" else enc(float(tdec(p[k])))) for k in PKEYS}
            r = ["reset", self._parmline(vals), "region", "treset",
                 "tparm " + " ".join(("1" if p[k] else "0") if k == "calcRate" else tdrv(p[k]) for k in PKEYS)]
            for op in c["ops"]:
                r.append("tupd " + " ".join(tdrv(x) for x in op[1:5]) if op[0] == "upd" else "trestart")
            return r
        r = ["reset", self._parmline(c["parm"]), "region"]
        for op in c["ops"]:
            if op[0] == "upd":
                r.append("upd " + " ".join(q(dec(x)) for x in op[1:5]))
            elif op[0] == "restart":
                r.append("restart")
            elif op[0] == "parm":
                r.append(self._parmline(op[1]))
        # the region predicate of D46a for every parm set of the history (limits may change): asked last
        for op in c["ops"]:
            if op[0] == "parm":
                r += [self._parmline(op[1]), "region"]
        return r

    def model_post(self, c, replies):
        r = list(replies)
        if c.get("kind") == "typed":
            self._region[core.case_key(c)] = (r[2] == "1")
            return r[5:]
        nparm = sum(1 for op in c["ops"] if op[0] == "parm")
        tail = r[len(r) - 2 * nparm:] if nparm else []
        self._region[core.case_key(c)] = (r[2] == "1") or any(x == "1" for x in tail[1::2])
        return r[3:len(r) - 2 * nparm]

    # ------------------------------------------------------------------ property oracle
    def oracle(self, c, out):
        try:
            return self._oracle(c, out)
        except core.HarnessTimeout:
            raise
        except Exception as ex:
            return "implementation output does not have the expected form (%s: %s): %s" % (type(ex).__name__, ex, out[:3])

    def _typed_oracle(self, c, out):
        """limits on the shares after every operation; exactness of the error when no wrapping is configured"""
        P = {k: (v if k == "calcRate" else tdec(v)) for k, v in c["parm"].items()}
        if len(out) != len(c["ops"]):
            return "wrong number of results"
        prev = None
        for k, (op, line) in enumerate(zip(c["ops"], out)):
            if line.startswith("ERR"):
                return "operation %d raised %s" % (k, line)
            lapse, elapsed, prsp, e, er, es, o = [unq(x) for x in line.split()]
            if not (P["ovmin"] <= o <= P["ovmax"]):
                return "after operation %d (%s) output %s is outside [ovmin, ovmax] = [%s, %s]" % (k, op[0], o, P["ovmin"], P["ovmax"])
            if not (P["esmin"] <= es <= P["esmax"]):
                return "after operation %d (%s) errorSum %s is outside [esmin, esmax] = [%s, %s]" % (k, op[0], es, P["esmin"], P["esmax"])
            if op[0] == "upd" and prev is not None and lapse > 0 and P["wrap"] == 0:
                i, sp = tdec(op[2]), tdec(op[4])
                def diffs(a, b, b_type_known):
                    w = []
                    exact = all(isinstance(v, (int, F)) for v in (a, b))
                    if exact:
                        w.append(F(a) - F(b))
                    if (not exact or not b_type_known) and all(math.isfinite(float(v)) for v in (a, b)):
                        w.append(F(float(a) - float(b)))      # a float operand: float(a) - float(b)
                    return w
                # no wrapping: the error is input - set point (the new one or the remembered one, whose Python type
                # is not visible in the share value) as exact as Python computes it: Fraction / int stay exact
                want = diffs(i, sp, True) + diffs(i, prev[2], False)
                finite = all(not isinstance(v, float) or math.isfinite(v) for v in (i, sp, prev[2]))
                if finite and e == e and e not in want:
                    return "operation %d: wrap is 0 but error %s is none of input - set point = %s (exactly)" % (k, e, [str(w) for w in want])
            prev = (lapse, elapsed, prsp, e, er, es, o)
        return None

    def _oracle(self, c, out):
        if c.get("kind") == "typed":
            return self._typed_oracle(c, out)
        parm = c["parm"]
        P = Rig._parms(parm)
        if len(out) != len(c["ops"]):
            return "wrong number of results"
        # (1) limits, checked on what the implementation left in the shares after every operation
        # The limits in force are those of the parm share at the time of the action.  After the limits were
        # rewritten the old values may lie outside the new range until the next evaluated action re-clamps them.
        prev = None
        wait_o = wait_es = False
        for k, (op, line) in enumerate(zip(c["ops"], out)):
            if op[0] == "parm":
                P2 = Rig._parms(op[1])
                wait_o = wait_o or (P2["ovmin"], P2["ovmax"]) != (P["ovmin"], P["ovmax"])
                wait_es = wait_es or (P2["esmin"], P2["esmax"]) != (P["esmin"], P["esmax"])
                P = P2
                continue
            if line.startswith("ERR"):
                return "operation %d raised %s" % (k, line)
            lapse, elapsed, prsp, e, er, es, o = [unq(x) for x in line.split()]
            if op[0] == "upd" and lapse > 0:
                wait_o = wait_es = False
            if not wait_o and not (P["ovmin"] <= o <= P["ovmax"]):
                return "after operation %d (%s) output %s is outside [ovmin, ovmax] = [%s, %s]" % (k, op[0], float(o), P["ovmin"], P["ovmax"])
            if not wait_es and not (P["esmin"] <= es <= P["esmax"]):
                return "after operation %d (%s) errorSum %s is outside [esmin, esmax] = [%s, %s]" % (k, op[0], float(es), P["esmin"], P["esmax"])
            if op[0] == "upd" and prev is not None:
                why = self._update_clauses(k, op, P, prev, (lapse, elapsed, prsp, e, er, es, o))
                if why:
                    return why
            prev = (lapse, elapsed, prsp, e, er, es, o)
        # (2) integrator reset: metamorphic run on the real code
        return self._reset_clause(c)

    @staticmethod
    def _update_clauses(k, op, P, prev, cur):
        lapse, elapsed, prsp, e, er, es, o = cur
        if not (lapse > 0):
            if [str(v) for v in cur[2:]] != [str(v) for v in prev[2:]]:
                return "operation %d: lapse %s is not positive but the shares changed" % (k, lapse)
            return None
        i, r, sp = (dec(x) for x in op[2:5])
        pprsp = float(prev[2])
        jump = abs(sp - pprsp) > P["drsp"]
        if jump:
            if not (prsp == sp or (sp != sp and prsp != prsp)):
                return "operation %d: set point moved by more than drsp but prsp = %s, not the new set point %s" % (k, prsp, sp)
        elif not (prsp == prev[2] or (prsp != prsp and prev[2] != prev[2])):
            return "operation %d: set point moved by at most drsp but prsp changed from %s to %s" % (k, prev[2], prsp)
        eff = sp if jump else pprsp
        w = P["wrap"]
        if all(math.isfinite(v) for v in (i, eff, w)):
            diff = i - eff                       # the float difference the code forms
            if w == 0:
                if e != F(diff):
                    return "operation %d: wrap = 0 but error %s != input - set point = %s" % (k, float(e), diff)
            elif math.isfinite(diff):
                if not (abs(e) <= abs(F(w))):
                    return "operation %d: |error| = %s exceeds |wrap| = %s" % (k, float(abs(e)), abs(w))
                turns = (F(diff) - e) / (2 * F(w))
                off = abs(turns - round(turns))
                tol = F(1, 10 ** 9) * (1 + abs(F(diff)) / abs(F(w)))
                if off > tol:
                    return "operation %d: error %s is not input - set point = %s up to whole turns of 2*wrap (off by %s turns)" % (k, float(e), diff, float(off))
        return None

    def _reset_clause(self, c):
        """a set point change larger than drsp resets the integrator: the outcome of that action() must not depend on
        the errorSum accumulated before it.  Checked on the real code: two clones of the controller, one with a
        perturbed errorSum, run the same action()."""
        rig = Rig(c["parm"], c.get("num"))
        parm = c["parm"]
        for k, op in enumerate(c["ops"]):
            if op[0] == "parm":
                parm = op[1]
                rig.setparm(parm, op[2] if len(op) > 2 else None)
                continue
            if op[0] == "restart":
                rig.c.restart()
                continue
            args = [dec(x) for x in op[1:5]]
            stamp, sp, last = args[0], args[3], rig.c.stamp
            P = Rig._parms(parm)
            try:
                if stamp is not None and last is not None and stamp - last > 0 and abs(sp - rig.c.prsp.value) > P["drsp"]:
                    main, twin = rig.clone(parm), rig.clone(parm)
                    es = rig.c.es.value
                    twin.c.es.value = es + 1.0 if math.isfinite(es) else 0.25
                    main.update(*args)
                    twin.update(*args)
                    a, b = [q(v) for v in main.state()], [q(v) for v in twin.state()]
                    if a != b:
                        return ("operation %d: set point jumped from %s to %s (> drsp) but the result depends on the "
                                "previous errorSum: errorSum/output %s vs %s when it is perturbed" % (k, rig.c.prsp.value, sp, a[5:], b[5:]))
                rig.update(*args, via=(op[5] if len(op) > 5 else None))
            except ZeroDivisionError:
                return "operation %d raised ZeroDivisionError" % k
        return None

    # ------------------------------------------------------------------ bookkeeping
    def region(self, finding, c):
        if finding.get("region") != "Ioflo.Pid.zeroOutside":
            return False
        key = core.case_key(c)
        if key not in self._region:
            self.model([c])                 # fills self._region (model_post)
        return self._region[key]

    @staticmethod
    def _py_region(parm):
        if any(isinstance(v, str) and v[1:2] == ":" for v in parm.values()):
            P = {k: (v if k == "calcRate" else tdec(v)) for k, v in parm.items()}
            return not (P["esmin"] <= 0 <= P["esmax"] and P["ovmin"] <= 0 <= P["ovmax"])
        P = Rig._parms(parm)
        return not (P["esmin"] <= 0.0 <= P["esmax"] and P["ovmin"] <= 0.0 <= P["ovmax"])

    def nontrivial(self, c, out):
        for op, line in zip(c["ops"], out):
            if op[0] == "upd" and not line.startswith("ERR"):
                lapse = line.split()[0]
                if lapse not in ("nan",) and (lapse == "inf" or unq(lapse) > 0):
                    return True
        return False

    def bucket(self, c, out):
        if c.get("kind") == "typed":
            kinds = "".join(sorted(set(x[0] for op in c["ops"] if op[0] == "upd" for x in op[1:5] if x != "none")))
            return "typed %s %s" % (kinds, "zero-outside-limits" if self._py_region(c["parm"]) else "zero-inside-limits")
        txt = " ".join(" ".join(map(str, op)) for op in c["ops"]) + " ".join(str(v) for v in c["parm"].values())
        nf = "nonfinite" if ("nan" in txt or "inf" in txt) else "finite"
        n = len(c["ops"])
        ln = "len1-3" if n <= 3 else "len4-12" if n <= 12 else "len13-30"
        return "%s %s %s" % (nf, ln, "zero-outside-limits" if self._py_region(c["parm"]) else "zero-inside-limits")

    def shrink_candidates(self, c):
        if c.get("kind") == "typed":
            ops = c["ops"]
            for i in range(len(ops) - 1, -1, -1):
                yield dict(c, ops=ops[:i] + ops[i + 1:])
            for i, op in enumerate(ops):
                if op[0] == "upd":
                    for j in (2, 3, 4):
                        for nv in ("i:0", "q:1/3", "f:" + enc(1.0)):
                            if nv != op[j]:
                                yield dict(c, ops=ops[:i] + [op[:j] + [nv] + op[j + 1:]] + ops[i + 1:])
            return
        inside = self._py_region(c["parm"])
        ops = c["ops"]
        for i in range(len(ops) - 1, -1, -1):
            yield dict(c, ops=ops[:i] + ops[i + 1:])
        for k in PKEYS:
            v = c["parm"][k]
            for nv in ([False] if k == "calcRate" and v else [] if k == "calcRate" else [enc(0.0), enc(1.0)]):
                if nv != v:
                    p = dict(c["parm"], **{k: nv})
                    P = Rig._parms(p)
                    if not (P["esmin"] <= P["esmax"] and P["ovmin"] <= P["ovmax"]):
                        continue
                    if not inside and self._py_region(p):
                        continue
                    yield dict(c, parm=p)
        for i, op in enumerate(ops):
            if op[0] == "upd":
                for j in (2, 3, 4):
                    for nv in (enc(0.0), enc(1.0), enc(float(round(dec(op[j])))) if math.isfinite(dec(op[j])) else enc(0.0)):
                        if nv != op[j]:
                            yield dict(c, ops=ops[:i] + [op[:j] + [nv] + op[j + 1:]] + ops[i + 1:])
